---------------------------- MODULE ScriptsDesign ----------------------------
(***************************************************************************)
(* Design job of the command-line tools model.  Two small state machines   *)
(* over the operators of Scripts.tla (a behaviour runs one of them):       *)
(*                                                                         *)
(* "counters"  rig-counters watching routers whose counters wrap at        *)
(*   Modulus: packets arrive (Tick), the user asks for a sample (Sample):  *)
(*   the tool reads every router and reports the advance since its last   *)
(*   reading.  Checked: whatever the counters showed when the tool was     *)
(*   started (also just below the wrap), each report is the number of      *)
(*   packets that arrived since the reading before, as long as fewer than  *)
(*   Modulus arrived in between; a report is never negative; the summed    *)
(*   report is the sum over the chips.                                     *)
(* "ps"  rig-ps while the user adds restrictions (chip, core, --state,     *)
(*   --name, --app-id) one by one.  Checked: a further restriction never   *)
(*   adds a line; the listing is the intersection of the listings of the   *)
(*   restrictions taken alone; a pattern and its negative look-ahead split *)
(*   the unrestricted listing in two.                                      *)
(*                                                                         *)
(* WrongDelta / WrongFilter switch on two plausible design errors (the     *)
(* plain difference of two readings; restrictions of different kinds       *)
(* joined by "or"); the _wrong configurations must be refuted.             *)
(* The ASSUMEs tie the two-limb arithmetic used on real 32-bit counters to *)
(* the plain modular difference, and pin the calendar conversion.          *)
(***************************************************************************)
EXTENDS Scripts

CONSTANTS Modulus,        \* the counters wrap at this value (2^32 on the machine)
          Routers,        \* number of chips
          MostPackets,    \* packets per router between two samples that the model lets arrive
          WrongDelta, WrongFilter

VARIABLES mode, hwcount, lastread, arrived, report, picked
dvars == <<mode, hwcount, lastread, arrived, report, picked>>

\* ---------------------------------------------------------------- limbs and dates (constant-level checks)
LimbBase == 4
ToLimbs(n) == << n \div LimbBase, n % LimbBase >>
FromLimbs(q) == q[1] * LimbBase + q[2]
ASSUME LimbsAgreeWithModularDifference ==
    \A now \in 0..LimbBase * LimbBase - 1, before \in 0..LimbBase * LimbBase - 1 :
        FromLimbs(SubLimbs(ToLimbs(now), ToLimbs(before), LimbBase)) = ModDiff(now, before, LimbBase * LimbBase)
ASSUME RealWidthExamples ==
    /\ Advance32(<<0, 5>>, <<65535, 65530>>) = <<0, 11>>                \* 0xfffffffa -> 5: eleven packets
    /\ Advance32(<<1, 0>>, <<0, 65535>>) = <<0, 1>>
    /\ Advance32(<<0, 0>>, <<0, 0>>) = <<0, 0>>
    /\ Advance32(<<0, 0>>, <<0, 1>>) = <<65535, 65535>>
    /\ AddLimbs(AddLimbs(<<0, 0, 0>>, <<65535, 65535>>), <<65535, 65535>>) = <<1, 65535, 65534>>
ASSUME CalendarExamples ==
    /\ Civil(0) = <<1970, 1, 1, 0, 0, 0>>
    /\ Civil(1458202398) = <<2016, 3, 17, 8, 13, 18>>                    \* the build date shown in the documentation
    /\ Civil(951782399) = <<2000, 2, 28, 23, 59, 59>> /\ Civil(951782400) = <<2000, 2, 29, 0, 0, 0>>
    /\ Civil(951868800) = <<2000, 3, 1, 0, 0, 0>> /\ Civil(2147483647) = <<2038, 1, 19, 3, 14, 7>>
    /\ Civil(1400000000) = <<2014, 5, 13, 16, 53, 20>>

\* ---------------------------------------------------------------- counters
Chips == 1..Routers
Reported(now, before) == IF WrongDelta THEN now - before ELSE ModDiff(now, before, Modulus)

\* ---------------------------------------------------------------- ps
\* a small machine: two chips, states run / runtime_exception / idle / sync0, two applications
SmallMachine ==
    [w |-> 2, h |-> 1,
     chips |-> << [x |-> 0, y |-> 0, nc |-> 3, links |-> <<>>,
                   cores |-> << [s |-> 7, rt |-> 0, app |-> "scamp", id |-> 0, io |-> <<>>],
                                [s |-> 7, rt |-> 0, app |-> "net", id |-> 16, io |-> <<>>],
                                [s |-> 2, rt |-> 0, app |-> "net", id |-> 16, io |-> <<>>] >>],
                  [x |-> 1, y |-> 0, nc |-> 3, links |-> <<>>,
                   cores |-> << [s |-> 7, rt |-> 0, app |-> "scamp", id |-> 0, io |-> <<>>],
                                [s |-> 8, rt |-> 0, app |-> "network", id |-> 1, io |-> <<>>],
                                [s |-> 15, rt |-> 0, app |-> "sark", id |-> 0, io |-> <<>>] >>] >>]
Unrestricted == [x |-> -1, y |-> -1, p |-> -1, state |-> <<>>, name |-> <<>>, appid |-> <<>>]
StatePatterns == { <<"prefix", <<"run">>>>, <<"notprefix", <<"run">>>>, <<"full", <<"run">>>>, <<"oneof", <<"sync0", "idle">>>> }
NamePatterns == { <<"prefix", <<"net">>>>, <<"full", <<"net">>>>, <<"contains", <<"work">>>> }
IdPatterns == { <<"prefix", <<"1">>>>, <<"full", <<"1">>>>, <<"any", <<>>>> }
Kinds == {"chip", "core", "state", "name", "appid"}
Given(sel) == { k \in Kinds : CASE k = "chip" -> sel.x # -1 [] k = "core" -> sel.p # -1 [] k = "state" -> sel.state # <<>>
                                [] k = "name" -> sel.name # <<>> [] OTHER -> sel.appid # <<>> }
\* the selection that keeps only the restriction of one kind
Only(sel, k) == CASE k = "chip" -> [Unrestricted EXCEPT !.x = sel.x, !.y = sel.y]
                  [] k = "core" -> [Unrestricted EXCEPT !.p = sel.p]
                  [] k = "state" -> [Unrestricted EXCEPT !.state = sel.state]
                  [] k = "name" -> [Unrestricted EXCEPT !.name = sel.name]
                  [] OTHER -> [Unrestricted EXCEPT !.appid = sel.appid]
Listing(sel) ==
    IF WrongFilter /\ Given(sel) # {}
    THEN UNION { PsListing(SmallMachine, Only(sel, k)) : k \in Given(sel) }
    ELSE PsListing(SmallMachine, sel)

\* ---------------------------------------------------------------- behaviours
DInit == /\ mode \in {"counters", "ps"}
         /\ hwcount \in [Chips -> 0..Modulus - 1]          \* the tool may be started at any counter value
         /\ lastread = hwcount                              \* the reading taken when the tool starts
         /\ arrived = [c \in Chips |-> 0] /\ report = <<>> /\ picked = Unrestricted
         /\ (mode = "ps" => hwcount = [c \in Chips |-> 0])

Tick(c) == /\ mode = "counters" /\ arrived[c] < MostPackets
           /\ hwcount' = [hwcount EXCEPT ![c] = (@ + 1) % Modulus]
           /\ arrived' = [arrived EXCEPT ![c] = @ + 1]
           /\ UNCHANGED <<mode, lastread, report, picked>>
Sample == /\ mode = "counters"
          /\ report' = [c \in Chips |-> Reported(hwcount[c], lastread[c])]
          /\ lastread' = hwcount /\ arrived' = [c \in Chips |-> 0]
          /\ UNCHANGED <<mode, hwcount, picked>>
RestrictChip == /\ mode = "ps" /\ picked.x = -1
                /\ \E x \in 0..1 : picked' = [picked EXCEPT !.x = x, !.y = 0]
                /\ UNCHANGED <<mode, hwcount, lastread, arrived, report>>
RestrictCore == /\ mode = "ps" /\ picked.x # -1 /\ picked.p = -1        \* a core can only be named after a chip
                /\ \E p \in 0..2 : picked' = [picked EXCEPT !.p = p]
                /\ UNCHANGED <<mode, hwcount, lastread, arrived, report>>
RestrictState == /\ mode = "ps" /\ picked.state = <<>>
                 /\ \E pat \in StatePatterns : picked' = [picked EXCEPT !.state = <<pat>>]
                 /\ UNCHANGED <<mode, hwcount, lastread, arrived, report>>
RestrictName == /\ mode = "ps" /\ picked.name = <<>>
                /\ \E pat \in NamePatterns : picked' = [picked EXCEPT !.name = <<pat>>]
                /\ UNCHANGED <<mode, hwcount, lastread, arrived, report>>
RestrictAppId == /\ mode = "ps" /\ picked.appid = <<>>
                 /\ \E pat \in IdPatterns : picked' = [picked EXCEPT !.appid = <<pat>>]
                 /\ UNCHANGED <<mode, hwcount, lastread, arrived, report>>
DNext == (\E c \in Chips : Tick(c)) \/ Sample \/ RestrictChip \/ RestrictCore \/ RestrictState \/ RestrictName
         \/ RestrictAppId
DSpec == DInit /\ [][DNext]_dvars

\* ---------------------------------------------------------------- what is checked
\* the hardware counter is the start value plus everything that arrived, modulo the wrap
ReportIsWhatArrived ==
    [][report' # report \/ lastread' # lastread =>
          \A c \in Chips : arrived[c] < Modulus => report'[c] = arrived[c]]_dvars
ReportNeverNegative == report # <<>> => \A c \in Chips : report[c] \in 0..Modulus - 1
\* summed over the chips the reports account for every packet (no wrap of the sum: the tool adds in plain integers)
SummedReportIsTotal ==
    [][report' # report \/ lastread' # lastread =>
          ((\A c \in Chips : arrived[c] < Modulus) =>
              FoldLeft(LAMBDA acc, c : acc + report'[c], 0, [c \in Chips |-> c])
                  = FoldLeft(LAMBDA acc, c : acc + arrived[c], 0, [c \in Chips |-> c]))]_dvars

RestrictionNeverAddsLines == [][Listing(picked') \subseteq Listing(picked)]_dvars
ListingIsIntersection ==
    mode = "ps" =>
      \A c \in CoreLines(SmallMachine) : c \in Listing(picked) <=> \A k \in Given(picked) : c \in Listing(Only(picked, k))
\* (no or one restriction: the same with WrongFilter, so these two are checked once, as assumptions)
ASSUME UnrestrictedListsEveryCore ==
    Listing(Unrestricted) = CoreLines(SmallMachine) /\ Cardinality(CoreLines(SmallMachine)) = 6
ASSUME LookAheadIsComplement ==
    LET pos == Listing([Unrestricted EXCEPT !.state = << <<"prefix", <<"run">>>> >>])
        neg == Listing([Unrestricted EXCEPT !.state = << <<"notprefix", <<"run">>>> >>])
    IN pos \cup neg = CoreLines(SmallMachine) /\ pos \cap neg = {}
       \* "runtime_exception" begins with "run" too: the documented '(?!run)' does not list it
       /\ { c.state : c \in pos } = {"run", "runtime_exception"}
=============================================================================
