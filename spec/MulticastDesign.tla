--------------------------- MODULE MulticastDesign ---------------------------
(***************************************************************************)
(* Design job for C01: the rules of the pipeline compose to exact          *)
(* delivery.  On a small torus a routing tree is grown hop by hop from the *)
(* source chip (any tree with adjacent hops and no chip twice - what C03   *)
(* establishes for the router), any subset of its chips hold a sink core,  *)
(* the per-chip tables are derived from the tree by the table-generation   *)
(* rule (one entry per chip: route = child directions and sink cores,      *)
(* source = the opposite of the direction of arrival - what C10            *)
(* establishes), optionally every entry that default routing can stand in  *)
(* for is removed (the rule C04 establishes), and then a packet injected   *)
(* at the source is propagated ROUND BY ROUND as TLC actions by the router *)
(* step of Multicast.tla.  Invariants: never dropped, never circulating,   *)
(* nothing delivered twice, and at quiescence exactly the sink cores       *)
(* received it.  A second cfg removes entries that are NOT defaultable     *)
(* (any single-route entry) and is expected to fail.                       *)
(***************************************************************************)
EXTENDS Multicast

CONSTANTS W, H, MaxNodes, DropRule      \* DropRule: "none", "defaultable", "anysingle" (wrong on purpose)

AllChips == Chips(W, H)
Edge == AllChips \X Links
EHead(e) == Nbr(e[1], e[2], W, H)
Mach == [w |-> W, h |-> H, dead |-> {}, deadlinks |-> {}]

VARIABLES root, nodes, kids, sinks, tabs, flight, seen, delivered, trouble, phase
vars == <<root, nodes, kids, sinks, tabs, flight, seen, delivered, trouble, phase>>

DInit == /\ root \in AllChips /\ nodes = {root} /\ kids = {} /\ sinks = {}
         /\ tabs = <<>> /\ flight = {} /\ seen = {} /\ delivered = {} /\ trouble = "" /\ phase = "grow"
Grow(e) == /\ phase = "grow" /\ Cardinality(nodes) < MaxNodes /\ e[1] \in nodes /\ EHead(e) \notin nodes
           /\ nodes' = nodes \cup {EHead(e)} /\ kids' = kids \cup {e}
           /\ UNCHANGED <<root, sinks, tabs, flight, seen, delivered, trouble, phase>>
\* table generation: one entry per tree chip (key 0 / mask 0 matches the net's packets)
InLink(c) == IF c = root THEN Local ELSE Opp((CHOOSE e \in kids : EHead(e) = c)[2])
RouteBits(c, S) == LET outs == { e[2] : e \in { e \in kids : e[1] = c } }
                       F[T \in SUBSET (0..23)] == IF T = {} THEN 0 ELSE LET b == CHOOSE b \in T : TRUE IN Pow2(b) + F[T \ {b}]
                   IN F[outs \cup (IF c \in S THEN {7} ELSE {})]          \* core 1 is route bit 7
EntryAt(c, S) == [key |-> 0, mask |-> 0, route |-> RouteBits(c, S),
                  srcs |-> IF c = root THEN Pow2(24) ELSE Pow2(InLink(c))]
Droppable(en) == CASE DropRule = "none" -> FALSE
                   [] DropRule = "defaultable" -> Defaultable(en)
                   [] DropRule = "anysingle" -> IsSingleBit(en.route) /\ en.route < 64 /\ en.srcs < 64
MakeTables(S) == /\ phase = "grow"
                 \* every leaf of the tree is a sink (a router never leaves dangling branches)
                 /\ \A c \in nodes : (~\E e \in kids : e[1] = c) => c \in S
                 /\ sinks' = S
                 /\ tabs' = [c \in { c \in nodes : ~Droppable(EntryAt(c, S)) } |-> <<EntryAt(c, S)>>]
                 /\ flight' = {<<root, Local>>} /\ phase' = "run"
                 /\ UNCHANGED <<root, nodes, kids, seen, delivered, trouble>>
\* one round of the network: every packet in flight is routed once
Round == /\ phase = "run" /\ flight # {} /\ trouble = ""
         /\ LET outs == [p \in flight |-> RouterStep(tabs, p, 0)]
                coresNow == UNION { { <<p[1], c>> : c \in outs[p].cores } : p \in flight }
                emits == UNION { { <<p[1], ln>> : ln \in outs[p].links } : p \in flight }
                next == { <<Nbr(hop[1], hop[2], W, H), Opp(hop[2])>> : hop \in emits }
            IN /\ delivered' = delivered \cup coresNow
               /\ seen' = seen \cup flight
               /\ flight' = next
               /\ trouble' = IF \E p \in flight : outs[p].dropped THEN "dropped"
                             ELSE IF coresNow \cap delivered # {} THEN "duplicate"
                             ELSE IF next \cap (seen \cup flight) # {} THEN "circulating" ELSE ""
         /\ UNCHANGED <<root, nodes, kids, sinks, tabs, phase>>
Quiesce == /\ phase = "run" /\ flight = {} /\ phase' = "done"
           /\ UNCHANGED <<root, nodes, kids, sinks, tabs, flight, seen, delivered, trouble>>
DNext == (\E e \in Edge : Grow(e)) \/ (\E S \in SUBSET nodes : MakeTables(S)) \/ Round \/ Quiesce
DSpec == DInit /\ [][DNext]_vars

NoTrouble == trouble = ""
ExactAtQuiescence == phase = "done" => delivered = { <<c, 1>> : c \in sinks }
OnlyTreeChipsVisited == \A p \in seen \cup flight : p[1] \in nodes
=============================================================================
