------------------------- MODULE BitFieldReplayTrace -------------------------
(***************************************************************************)
(* Trace specification for the replay job of C08: a definition history     *)
(* chosen by TLC's simulator from BitFieldSim.tla, made call by call on a  *)
(* real rig BitField.  The events of BitFieldTrace.tla (add, call, assign, *)
(* scope, endtable, end) are recorded and judged exactly as in the         *)
(* property's trace job; two more carry what the DESIGN answered:          *)
(*                                                                         *)
(*  <<"predict", op, pred, real, pfields, views>>   after every operation  *)
(*        op      "add" | "set"                                            *)
(*        pred    "ok" | "refused": what the design machine did            *)
(*        real    "ok" or the exception class: what rig did                *)
(*        pfields the design's fields after the step, each                 *)
(*                <<id, cond, flen, fstart, need>> (cond as a scope)       *)
(*        views   what the real object shows now: for every bit field      *)
(*                derived so far <<scope, rows>>, a row                    *)
(*                <<name, "ok", loc, len>> or <<name, "raise", class>>     *)
(*                (get_location_and_length) for every field it shows       *)
(*  <<"layout", real, rows, pfields, feasible>>     after assign_fields    *)
(*        real    "ok" or the exception class of assign_fields             *)
(*        rows    for every field of the design <<id, cond, "ok", loc,     *)
(*                len>> or <<id, cond, "raise", class>>: where rig put it  *)
(*        feasible  the design's layout decision: some layout exists       *)
(*                                                                         *)
(* The success guarantee is judged at the "assign" event by the clauses of *)
(* BitFieldTrace (MustSucceed...), whose state StateAsPredicted ties to    *)
(* the design's.                                                           *)
(***************************************************************************)
EXTENDS BitFieldTrace, BitFieldLayouts

PField(r) == [id |-> r[1], cond |-> SeqSet(r[2]), flen |-> r[3], fstart |-> r[4], need |-> r[5]]
PFields(q) == { PField(q[i]) : i \in 1..Len(q) }
\* what both specifications know of a field (the design has no tags; the need of a field of explicit length
\* plays no part)
Plain(f) == [id |-> f.id, cond |-> f.cond, flen |-> f.flen, fstart |-> f.fstart,
             need |-> IF f.flen > 0 THEN 0 ELSE f.need]

FirstFailing(first, rest) == IF \E c \in DOMAIN first : ~first[c] THEN first ELSE rest

PredictChecks(e) ==
    LET PF == PFields(e[5]) IN
    FirstFailing(
      [TableClosed |-> ~st.open,
       \* what the specification accepts must be accepted ...
       MustSucceedAsPredicted |-> (e[3] = "ok") => (e[4] = "ok"),
       \* ... and what it refuses (name clash, definitely bad explicit position, value too wide) must raise
       RefusedAsPredicted |-> (e[3] # "ok") => (e[4] # "ok")],
      [\* the fields this trace specification has accumulated from rig's answers are the design's
       StateAsPredicted |-> { Plain(f) : f \in st.fields } = { Plain(f) : f \in PF },
       \* every derived bit field shows the fields the design enables under its values; a field defined with
       \* both length and position reports them, no other field reports anything it was not given
       ViewAsPredicted |->
          \A vw \in SeqSet(e[6]) :
             LET V == SeqSet(vw[1])  rows == SeqSet(vw[2])  En == EnabledIn(PF, V) IN
             /\ V \in st.handles
             /\ { r[1] : r \in rows } = { f.id : f \in En } /\ Len(vw[2]) = Cardinality(En)
             /\ \A r \in rows :
                   LET f == CHOOSE f \in En : f.id = r[1] IN
                   IF r[2] = "ok"
                   THEN /\ InRange(r[3], r[4], BL)
                        /\ (f.flen > 0 => r[4] = f.flen) /\ (f.fstart >= 0 => r[3] = f.fstart)
                   ELSE r[3] = "ValueError" /\ ~(f.flen > 0 /\ f.fstart >= 0)])

LayoutChecks(e) ==
    LET PF == PFields(e[4])
        rows == SeqSet(e[3])
        Ent == { [id |-> r[1], cond |-> SeqSet(r[2]), loc |-> r[4], len |-> r[5]] : r \in { r \in rows : r[3] = "ok" } }
    IN  IF e[2] # "ok" THEN [TableClosed |-> ~st.open]
        ELSE FirstFailing(
               [TableClosed |-> ~st.open,
                \* no layout exists: assign_fields must refuse
                RefusedAsPredicted |-> e[5]],
               [\* the layout rig chose is one of those the specification allows
                LayoutInValidLayouts |-> /\ \A r \in rows : r[3] = "ok"
                                         /\ Len(e[3]) = Cardinality(PF)
                                         /\ AllowedLayout(Ent, PF, BL)])

RChecks(e) == CASE e[1] = "predict" -> PredictChecks(e)
                [] e[1] = "layout" -> LayoutChecks(e)
                [] OTHER -> Checks(e)
RApply(e) == IF e[1] \in {"predict", "layout"} THEN st ELSE Apply(e)

RBad == LET ck == RChecks(Ev) IN {c \in DOMAIN ck : ~ck[c]}
RStep == /\ ei <= Len(Tr.ev) /\ verdict = <<>> /\ tid' = tid
         /\ IF RBad = {} THEN ei' = ei + 1 /\ st' = RApply(Ev) /\ verdict' = verdict
            ELSE /\ PrintT("REJECT|" \o ToString(tid) \o "|" \o ToString(ei) \o "|" \o ToString(RBad))
                 /\ verdict' = <<ei, RBad>> /\ ei' = ei /\ st' = st
RSpec == TInit /\ [][RStep]_vars
=============================================================================
