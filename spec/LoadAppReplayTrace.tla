------------------------- MODULE LoadAppReplayTrace -------------------------
(***************************************************************************)
(* Trace specification for job R of C09: a behaviour of LoadAppDesign      *)
(* chosen by TLC's simulator (LoadAppSim.tla) was replayed through the     *)
(* real MachineController.load_application against the simulated machine,  *)
(* with exactly the miss schedule of the behaviour.  The recorded call is  *)
(* judged event by event by every clause of LoadAppTrace (this module      *)
(* extends it and changes none of its clauses); its last event             *)
(*   <<"design", D>>                                                       *)
(* carries the INFO record D printed by LoadAppSim.Emit, untouched by the  *)
(* driver, and is judged by MatchesPrediction: what the real call did must *)
(* be what the design's behaviour did -                                    *)
(*   PredictedOutcome      returned / raised, and the raised error names   *)
(*                         exactly the cores in the design's errCores;     *)
(*   PredictedAttempts     as many attempts;                               *)
(*   PredictedFillsPerAttempt  as many fills in every attempt;             *)
(*   PredictedCoresAddressed   every fill of an attempt is for the binary, *)
(*                         and selects exactly the cores, of one fill of   *)
(*                         that attempt of the design (the order of the    *)
(*                         fills within an attempt is the loader's);       *)
(*   ScheduleAsChosen      (the harness) the chips that missed the n-th    *)
(*                         fill of a binary are the chips TLC chose for    *)
(*                         the design's n-th fill of that binary (nobody   *)
(*                         if the design made no such fill);               *)
(*   PredictedStateAfterEachAttempt  when the loader begins to verify an   *)
(*                         attempt, the cores hold what the design's cores *)
(*                         held at its verification step;                  *)
(*   PredictedFinalState   the machine's cores after the call (image,      *)
(*                         application id, state) are the design's.        *)
(* The design is abstract in names only: its chip k is Tr.dchips[k], its   *)
(* core j is core Tr.dcores[j], its binary b is Tr.bins[Tr.dbins[b]], the  *)
(* binary of earlier loads D.otherbin has the bytes Tr.other, its          *)
(* application id D.appid is Tr.app.  Binaries of a replayed call have     *)
(* pairwise different contents, so a fill's bytes identify its binary.     *)
(* Traces without a design event (the earlier loads that put cores into    *)
(* the wait state before the call) are judged by LoadAppTrace's clauses.   *)
(***************************************************************************)
EXTENDS LoadAppTrace

RSt0 == [k \in DOMAIN St0 \cup {"fills", "snaps"} |-> IF k \in {"fills", "snaps"} THEN <<>> ELSE St0[k]]

\* the binary whose contents the fill in progress carried (0: none)
FillBin == LET m == { bn \in 1..NB : Tr.bins[bn].data = st.fl.bytes } IN IF m = {} THEN 0 ELSE CHOOSE bn \in m : TRUE
\* the model's cores that are not in the power-on condition: <<core, state, app, image bytes>>
SnapNow == { <<c, st.cores[c].state, st.cores[c].app, ImgBytes(st.cores[c].img)>> :
             c \in { k \in DOMAIN st.cores : st.cores[k] # DefaultCore } }

RApply(e) ==
    LET nxt == Apply(e) IN
    CASE e[1] = "end" ->
           [nxt EXCEPT !.fills = Append(@, [att |-> st.att, idx |-> st.nfill, bin |-> FillBin, cores |-> Sel])]
      [] e[1] \in {"count", "read"} /\ st.phase = "between" ->
           [nxt EXCEPT !.snaps = Append(@, SnapNow)]
      [] OTHER -> nxt

\* ------------------------------------------------------------------ the design's record in concrete names
Conc(ch, co) == <<Tr.dchips[ch][1], Tr.dchips[ch][2], Tr.dcores[co]>>
ChipXY(ch) == <<Tr.dchips[ch][1], Tr.dchips[ch][2]>>
BinIdx(D, b) == Tr.dbins[b]
BytesOf(D, b) == IF b = D.otherbin THEN Tr.other ELSE Tr.bins[BinIdx(D, b)].data
AppOf(D, a) == IF a = D.appid THEN Tr.app ELSE a
\* a listing <<chip, core, state, app, binary>>... of the design as <<core, state, app, image bytes>>
PredCores(D, q) == { <<Conc(r[1], r[2]), r[3], AppOf(D, r[4]), BytesOf(D, r[5])>> : r \in SeqSet(q) }
FinalListing == LET i == CHOOSE k \in 1..Len(Tr.ev) : Tr.ev[k][1] = "final" IN
                { <<<<f[1], f[2], f[3]>>, f[4], f[5], IF f[6] = <<>> THEN <<>> ELSE f[6][1]>> : f \in SeqSet(Tr.ev[i][2]) }
NamedByError(o) == UNION { { <<m[1], m[2], m[3], m[4][j]>> : j \in 1..Len(m[4]) } : m \in SeqSet(o[3]) }

Prediction(D) ==
    LET o == IF ei > 1 THEN Tr.ev[ei - 1] ELSE <<"none">>
        natt == IF st.att > D.attempts THEN st.att ELSE D.attempts
        obs(a) == { i \in 1..Len(st.fills) : st.fills[i].att = a }
        prd(a) == { j \in 1..Len(D.fills) : D.fills[j].att = a }
        prdCores(j) == { Conc(c[1], c[2]) : c \in SeqSet(D.fills[j].cores) } IN
    [PredictedOutcome |->
        IF D.outcome = "returned" THEN o[1] = "return"
        ELSE /\ o[1] = "raise" /\ Len(o) = 3
             /\ NamedByError(o) = { <<BinIdx(D, r[3]), Tr.dchips[r[1]][1], Tr.dchips[r[1]][2], Tr.dcores[r[2]]>> : r \in SeqSet(D.err) },
     PredictedAttempts |-> st.att = D.attempts,
     PredictedFillsPerAttempt |->
        /\ st.nfill = Len(D.fills) /\ Len(st.fills) = Len(D.fills)
        /\ \A a \in 1..natt : Cardinality(obs(a)) = Cardinality(prd(a)),
     PredictedCoresAddressed |->
        \A a \in 1..natt : { <<st.fills[i].bin, st.fills[i].cores>> : i \in obs(a) }
                            = { <<BinIdx(D, D.fills[j].bin), prdCores(j)>> : j \in prd(a) },
     ScheduleAsChosen |->
        \A i \in 1..Len(st.fills) :
           LET tb == st.fills[i].bin
               nth == Cardinality({ k \in 1..i : st.fills[k].bin = tb })
               dq == SelectSeq(D.fills, LAMBDA f : BinIdx(D, f.bin) = tb) IN
           MissOf(st.fills[i].idx) = IF tb # 0 /\ nth <= Len(dq) THEN { ChipXY(ch) : ch \in SeqSet(dq[nth].miss) } ELSE {},
     PredictedStateAfterEachAttempt |->
        /\ Len(st.snaps) = Len(D.after)
        /\ \A a \in 1..Len(D.after) : a <= Len(st.snaps) => st.snaps[a] = PredCores(D, D.after[a]),
     PredictedFinalState |->
        /\ \E k \in 1..Len(Tr.ev) : Tr.ev[k][1] = "final"
        /\ FinalListing = PredCores(D, D.final)]

RChecks(e) ==
    IF e[1] = "design"
    THEN LET pr == Prediction(e[2]) IN
         [cl \in DOMAIN pr \cup {"MatchesPrediction"} |-> IF cl = "MatchesPrediction" THEN \A k \in DOMAIN pr : pr[k] ELSE pr[cl]]
    ELSE Checks(e)

RBad == LET ck == RChecks(Ev) IN { c \in DOMAIN ck : ~ck[c] }
RInit == tid \in 1..Len(Traces) /\ ei = 1 /\ st = RSt0 /\ verdict = <<>>
RStep == /\ ei <= Len(Tr.ev) /\ verdict = <<>> /\ tid' = tid
         /\ IF RBad = {} THEN ei' = ei + 1 /\ st' = RApply(Ev) /\ verdict' = verdict
            ELSE /\ PrintT("REJECT|" \o ToString(tid) \o "|" \o ToString(ei) \o "|" \o ToString(RBad))
                 /\ verdict' = <<ei, RBad>> /\ ei' = ei /\ st' = st
RSpec == RInit /\ [][RStep]_vars
=============================================================================
