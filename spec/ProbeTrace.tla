----------------------------- MODULE ProbeTrace -----------------------------
(***************************************************************************)
(* Trace specification for C14.  One trace = one abstract machine state    *)
(* and what rig reported about it.                                         *)
(*                                                                         *)
(* Setup fields (the abstract machine state, chosen by the generator):     *)
(*   w, h      booted dimensions (sv.p2p_dims)                             *)
(*   grid      grid[x+1][y+1] = 0 (no such chip), -1 (in the P2P table but *)
(*             never answers), -2 (in the P2P table, the Ethernet chip's   *)
(*             monitor answers for it with a fatal return code) or k > 0   *)
(*             (chips[k] is that chip)                                     *)
(*   chips     records x, y, nc, states, links, sdram, sram, rtr, eth, ip, *)
(*             leth  (see Probe.tla)                                       *)
(*   ver       legacy, major, minor, patch, labels, name, bufsize, date,   *)
(*             pcpu (18 physical core numbers), nul                        *)
(*   chips[i].vbase  address of that chip's per-core status blocks;       *)
(*   chips[i].isz    size of one console buffer block on that chip        *)
(*   vcpus     planted status blocks   [x, y, p, bytes]                    *)
(*   blocks    planted console blocks  [x, y, addr, next, time, ms, len,   *)
(*             data]                                                       *)
(*   diags     planted router counters [x, y, words]                       *)
(*   plan      the names of the result events the driver is going to       *)
(*             record, in order                                            *)
(* Events:                                                                 *)
(*   <<"probe", x, y>>            a discovery starts                       *)
(*   <<"scp", cmd, x, y, p, a1, a2, a3, rc, rargs, rdata>>  one command    *)
(*             executed by the simulated machine (environment, judged by   *)
(*             the Env clauses); rc = <<>> when nothing was answered       *)
(*   <<"chip", x, y, nc, states, links, sdram, sram, rtr, eth, ip, leth>>  *)
(*             one entry of the returned SystemInfo                        *)
(*   <<"sysinfo", width, height>>  the SystemInfo is complete              *)
(*   <<"sys_dead_chips", width, height, l>>, <<"sys_links", l>>,           *)
(*   <<"sys_dead_links", l>>, <<"sys_cores", l>>, <<"sys_eth", l>>,        *)
(*   <<"contains", kind, query, answer>>      SystemInfo's own queries     *)
(*   <<"machine", how, width, height, dead chips, dead links, chips,       *)
(*     links, quantities>>        build_machine / get_machine              *)
(*   <<"constraints", l>>         build_core_constraints                   *)
(*   <<"targets", l>>             build_routing_table_target_lengths       *)
(*   <<"status", x, y, p, rec>>, <<"iobuf", x, y, p, bytes>>,              *)
(*   <<"iobuf_text", x, y, p, class, cps>>  the console read as text       *)
(*             (get_iobuf): the class of the object returned and the text  *)
(*             as the sequence of its code points                          *)
(*   <<"diag", x, y, pairs>>, <<"version", x, y, p, rec>>                  *)
(*   <<"sys_chips", l>>           SystemInfo.chips()                       *)
(*   <<"chipq", kind, x, y, answer>>  a single-chip question: "links"      *)
(*             get_working_links, "ncores" get_num_working_cores, "ip"     *)
(*             get_ip_address (<<>> for None), "info" get_chip_info (a     *)
(*             "chip" event as the answer)                                 *)
(*   <<"change", recs>>           the machine changes: the chips named in  *)
(*             recs (records like chips[i]) are from now on in the state   *)
(*             recs gives (environment; everything after it is judged      *)
(*             against the machine as it is then)                          *)
(*   <<"raise", class>>, <<"end">>                                         *)
(* State st: desc (responding chip -> record), seen (chips reported by the *)
(* discovery in progress), done (result events so far).                    *)
(***************************************************************************)
EXTENDS Probe, SequencesExt, Json, IOUtils

Traces == JsonDeserialize(IOEnv.TRACE_FILE)
VARIABLES tid, ei, st, verdict
vars == <<tid, ei, st, verdict>>
Tr == Traces[tid]
Ev == Tr.ev[ei]

GridCode(x, y) == IF x \in 0..Tr.w - 1 /\ y \in 0..Tr.h - 1 THEN Tr.grid[x + 1][y + 1] ELSE 0
RecOf(c) == [nc |-> c.nc, states |-> c.states, links |-> SeqSet(c.links), sdram |-> c.sdram, sram |-> c.sram,
             rtr |-> c.rtr, eth |-> c.eth, ip |-> c.ip, leth |-> c.leth]
Desc0 == LET idx == [xy \in { <<Tr.chips[i].x, Tr.chips[i].y>> : i \in 1..Len(Tr.chips) } |-> GridCode(xy[1], xy[2])]
         IN [xy \in DOMAIN idx |-> RecOf(Tr.chips[idx[xy]])]
Ver == Tr.ver
Triples(q) == { <<t[1], t[2], t[3]>> : t \in SeqSet(q) }
Pairs(q) == { <<t[1], t[2]>> : t \in SeqSet(q) }
NoDup(q) == Cardinality(SeqSet(q)) = Len(q)

\* ------------------------------------------------------------------ the environment
SvNumCpus == AddH(SvBase, 188)       \* byte 0xbc: number of working cores
\* no route, no reply to open, open rejected, Ethernet chip <-> target time-out
Refusals == { <<135>>, <<139>>, <<140>>, <<142>> }
Regions(x, y) ==
    { <<SvP2PDims, LE2(Tr.w * 256 + Tr.h)>>, <<SvIobufSz, HalvesToBytes(<<0, Tr.chips[GridCode(x, y)].isz>>)>>,
      <<SvVcpuBase, HalvesToBytes(Tr.chips[GridCode(x, y)].vbase)>>, <<SvNumCpus, <<st.desc[<<x, y>>].nc>> >> }
    \cup { <<VcpuAddr(Tr.chips[GridCode(x, y)].vbase, v.p), v.bytes>> : v \in { u \in SeqSet(Tr.vcpus) : u.x = x /\ u.y = y } }
    \cup { <<blk.addr, BlockBytes(blk)>> : blk \in { u \in SeqSet(Tr.blocks) : u.x = x /\ u.y = y } }
    \cup { <<RtrDiag, CounterBytes(d.words)>> : d \in { u \in SeqSet(Tr.diags) : u.x = x /\ u.y = y } }
P2POK(x, y, po, data) ==
    /\ po % 4 = 0 /\ Len(data) % 4 = 0
    /\ \A j \in 0..(Len(data) \div 4) - 1 :
         /\ data[4 * j + 4] = 0
         /\ \A k \in 0..7 :
              LET ix == po \div 4 + j  col == ix \div 32  row == (ix % 32) * 8 + k
                  ent == EntryOf(Word24(data, 4 * j), k)  code == GridCode(col, row)
              IN IF code = 0 THEN ent = P2PNone
                 ELSE IF <<col, row>> = <<x, y>> THEN ent = P2PSelf ELSE ent \in 0..5
MemOK(x, y, addr, data) ==
    LET po == OffH(addr, RtrP2P) IN
    IF po >= 0 /\ po < 32768 THEN P2POK(x, y, po, data)
    ELSE \E rg \in Regions(x, y) :
            LET o == OffH(addr, rg[1])
            IN o >= 0 /\ o + Len(data) <= Len(rg[2]) /\ data = SubSeq(rg[2], o + 1, o + Len(data))
Defined(x, y, addr, n) ==
    LET po == OffH(addr, RtrP2P) IN
    \/ po >= 0 /\ po < 32768
    \/ \E rg \in Regions(x, y) : LET o == OffH(addr, rg[1]) IN o >= 0 /\ o + n <= Len(rg[2])
EnvChecks(e) ==
    LET cmd == e[2]  x == e[3]  y == e[4]  p == e[5]  rc == e[9]  ra == e[10]  rd == e[11]
        code == GridCode(x, y)
    IN IF code = 0 THEN [EnvNoSuchChipDoesNotAnswerOK |-> rc # <<128>>]
       ELSE IF code = -1 THEN [EnvUnresponsiveChipIsSilent |-> rc = <<>>]
       ELSE IF code = -2 THEN [EnvUnreachableChipIsRefused |-> rc \in Refusals /\ ra = <<>> /\ rd = <<>>]
       ELSE CASE cmd = 31 ->
                   [EnvInfoReplyEncodesState |->
                       /\ rc = <<128>> /\ Len(ra) = 3 /\ Len(rd) = 24
                       /\ DecodeInfo([arg1 |-> ra[1], arg2 |-> ra[2], arg3 |-> ra[3], data |-> rd]) = st.desc[<<x, y>>]
                       /\ rd = EncodeInfoData(st.desc[<<x, y>>])
                       /\ ra[1] = WithJunk(EncodeInfoArg1(st.desc[<<x, y>>]), <<ra[1][1] \div 1024, (ra[1][2] \div 32) % 8>>)]
              [] cmd = 2 ->
                   \* a read outside everything the machine defines for probing (system variables, P2P table,
                   \* this chip's status blocks, console blocks, router counters) is the reader's error, not
                   \* the environment's: e.g. another chip's status-block address used on this chip
                   IF ~Defined(x, y, e[6], e[7][2]) THEN [ReadsOnlyDefinedMemory |-> FALSE]
                   ELSE
                   [EnvReadIsMemory |-> /\ rc = <<128>> /\ ra = <<>> /\ e[7][1] = 0 /\ Len(rd) = e[7][2]
                                        /\ MemOK(x, y, e[6], rd)]
              [] cmd = 0 ->
                   [EnvSverReplyEncodesVersion |->
                       /\ rc = <<128>> /\ Len(ra) = 3
                       /\ [arg1 |-> ra[1], arg2 |-> ra[2], arg3 |-> ra[3], data |-> rd] = EncodeSver(Ver, x, y, p)]
              [] OTHER -> [EnvCommandModelled |-> FALSE]

\* ------------------------------------------------------------------ rig
Planned == [AsPlanned |-> Len(st.done) < Len(Tr.plan) /\ Tr.plan[Len(st.done) + 1] = Ev[1]]
VcpuOf(x, y, p) == (CHOOSE v \in SeqSet(Tr.vcpus) : v.x = x /\ v.y = y /\ v.p = p).bytes
BlocksOf(x, y) == { u \in SeqSet(Tr.blocks) : u.x = x /\ u.y = y }
Resv(cn) == <<cn[3], cn[4], cn[6]>>
\* Console text.  The documentation of get_iobuf fixes the encoding of the console: "the string in the IOBUF,
\* decoded from UTF-8".  UTF-8 (RFC 3629) writes a Unicode scalar value - 0..10FFFF without the surrogates
\* D800..DFFF - as one to four bytes; distinct texts have distinct byte forms, so "the text read back is the
\* machine's" is: the text consists of scalar values and its UTF-8 form is the machine's console, byte for byte.
IsScalar(cp) == cp \in 0..55295 \/ cp \in 57344..1114111
Utf8Char(cp) ==
    IF cp < 128 THEN <<cp>>
    ELSE IF cp < 2048 THEN <<192 + cp \div 64, 128 + (cp % 64)>>
    ELSE IF cp < 65536 THEN <<224 + cp \div 4096, 128 + ((cp \div 64) % 64), 128 + (cp % 64)>>
    ELSE <<240 + cp \div 262144, 128 + ((cp \div 4096) % 64), 128 + ((cp \div 64) % 64), 128 + (cp % 64)>>
Utf8(cps) == FoldLeft(LAMBDA acc, cp : acc \o Utf8Char(cp), <<>>, cps)
\* e: a "chip" event (one ChipInfo), c: the record of that chip
ChipClauses(e, c) ==
    [CoreCountsTrue  |-> e[4] = c.nc,
     CoreStatesTrue  |-> e[5] = c.states,
     WorkingLinksTrue |-> SeqSet(e[6]) = c.links /\ NoDup(e[6]),
     FreeMemoryTrue  |-> e[7] = c.sdram /\ e[8] = c.sram,
     RouterBlocksTrue |-> e[9] = c.rtr,
     EthernetTrue    |-> e[10] = c.eth /\ e[12] = c.leth /\ (c.eth => e[11] = IpString(c.ip))]
Checks(e) ==
  CASE e[1] = "probe" -> [ProbeFromRespondingChip |-> GridCode(e[2], e[3]) > 0]
    [] e[1] = "scp" -> EnvChecks(e)
    [] e[1] = "chip" ->
        LET xy == <<e[2], e[3]>> IN
        IF xy \notin DOMAIN st.desc THEN [ChipsExactlyResponding |-> FALSE]
        ELSE [ChipsExactlyResponding |-> xy \notin st.seen] @@ ChipClauses(e, st.desc[xy])
    [] e[1] = "chipq" ->
        LET xy == <<e[3], e[4]>>  ans == e[5] IN
        Planned @@
        (IF xy \notin DOMAIN st.desc THEN [QuestionAboutRespondingChip |-> FALSE]
         ELSE LET c == st.desc[xy] IN
              CASE e[2] = "links" -> [WorkingLinksTrue |-> SeqSet(ans) = c.links /\ NoDup(ans)]
                [] e[2] = "ncores" -> [CoreCountsTrue |-> ans = c.nc]
                [] e[2] = "ip" -> [EthernetTrue |-> ans = IF c.eth THEN <<IpString(c.ip)>> ELSE <<>>]
                [] e[2] = "info" -> [ChipsExactlyResponding |-> <<ans[2], ans[3]>> = xy] @@ ChipClauses(ans, c)
                [] OTHER -> [UnknownQuestion |-> FALSE])
    [] e[1] = "change" ->
        [ChangeIsOfRespondingChips |-> \A i \in 1..Len(e[2]) : <<e[2][i].x, e[2][i].y>> \in DOMAIN st.desc]
    [] e[1] = "sys_chips" ->
        Planned @@ [ChipsExactlyResponding |-> Pairs(e[2]) = DOMAIN st.desc /\ NoDup(e[2])]
    [] e[1] = "sysinfo" ->
        Planned @@
        [ChipsExactlyResponding |-> st.seen = DOMAIN st.desc,
         ExtentCoversChips |-> \A xy \in DOMAIN st.desc : xy[1] < e[2] /\ xy[2] < e[3]]
    [] e[1] = "sys_dead_chips" ->
        Planned @@ [SysDeadChipsTrue |-> Pairs(e[4]) = ((0..e[2] - 1) \X (0..e[3] - 1)) \ DOMAIN st.desc /\ NoDup(e[4])]
    [] e[1] = "sys_links" ->
        Planned @@ [WorkingLinksTrue |-> Triples(e[2]) = LinksOf(st.desc) /\ NoDup(e[2])]
    [] e[1] = "sys_dead_links" ->
        Planned @@ [WorkingLinksTrue |-> Triples(e[2]) = { <<xy[1], xy[2], l>> : xy \in DOMAIN st.desc, l \in LinkIds } \ LinksOf(st.desc)
                                         /\ NoDup(e[2])]
    [] e[1] = "sys_cores" ->
        Planned @@ [CoreStatesTrue |-> /\ NoDup(e[2])
                                       /\ { <<t[1], t[2], t[3], t[4]>> : t \in SeqSet(e[2]) } =
                                          UNION { { <<xy[1], xy[2], i - 1, st.desc[xy].states[i]>> : i \in 1..st.desc[xy].nc } : xy \in DOMAIN st.desc }]
    [] e[1] = "sys_eth" ->
        Planned @@ [EthernetTrue |-> /\ NoDup(e[2])
                                     /\ Triples(e[2]) = { <<xy[1], xy[2], IpString(st.desc[xy].ip)>> : xy \in { z \in DOMAIN st.desc : st.desc[z].eth } }]
    [] e[1] = "contains" ->
        LET q == e[3]  xy == <<q[1], q[2]>>  live == xy \in DOMAIN st.desc IN
        Planned @@
        [ContainsTrue |-> e[4] = CASE e[2] = "chip" -> live
                                   [] e[2] = "link" -> live /\ q[3] \in st.desc[xy].links
                                   [] e[2] = "core" -> live /\ q[3] \in 0..st.desc[xy].nc - 1
                                   [] e[2] = "state" -> live /\ q[3] \in 0..st.desc[xy].nc - 1 /\ st.desc[xy].states[q[3] + 1] = q[4]
                                   [] OTHER -> FALSE]
    [] e[1] = "machine" ->
        LET mw == e[3]  mh == e[4]  dc == Pairs(e[5])  dl == Triples(e[6]) IN
        Planned @@
        [MachineHasExactlyThoseChips |-> /\ ModelChips(mw, mh, dc) = DOMAIN st.desc
                                         /\ Pairs(e[7]) = DOMAIN st.desc /\ NoDup(e[7]),
         MachineLinksTrue |-> /\ ModelLinks(mw, mh, dc, dl) = LinksOf(st.desc)
                              /\ Triples(e[8]) = LinksOf(st.desc) /\ NoDup(e[8]),
         MachineQuantitiesTrue |-> { <<t[1], t[2], t[3]>> : t \in SeqSet(e[9]) } =
                                   { <<xy[1], xy[2], [cores |-> st.desc[xy].nc, sdram |-> st.desc[xy].sdram, sram |-> st.desc[xy].sram]>> : xy \in DOMAIN st.desc }]
    [] e[1] = "constraints" ->
        LET cs == e[2]  rseq == [i \in 1..Len(cs) |-> Resv(cs[i])] IN
        Planned @@
        [ReservationsAreCoreRanges |-> \A i \in 1..Len(cs) : /\ cs[i][1] = "ReserveResourceConstraint" /\ cs[i][2] = "cores"
                                                             /\ cs[i][5] = <<>> /\ 0 <= cs[i][3] /\ cs[i][3] < cs[i][4],
         ReservationsCoverExactlyNonIdleCores |-> CoverExactly(SeqSet(rseq), st.desc),
         ReservationsDisjoint |-> DisjointPerChip(rseq, st.desc)]
    [] e[1] = "targets" ->
        Planned @@ [TargetLengthsTrue |-> /\ NoDup(e[2])
                                          /\ Triples(e[2]) = { <<xy[1], xy[2], st.desc[xy].rtr>> : xy \in DOMAIN st.desc }]
    [] e[1] = "status" ->
        LET want == DecodeVcpu(VcpuOf(e[2], e[3], e[4]))  got == e[5]
            Same(F) == \A f \in F : got[f] = want[f] IN
        Planned @@
        [StatusIsMachines_registers |-> Same({"registers", "program_state_register", "stack_pointer", "link_register"}),
         StatusIsMachines_state     |-> Same({"rt_code", "phys_cpu", "cpu_state", "app_id", "version"}),
         StatusIsMachines_mailboxes_errors |-> Same({"mbox_ap_msg", "mbox_mp_msg", "mbox_ap_cmd", "mbox_mp_cmd", "sw_count", "sw_file", "sw_line"}),
         StatusIsMachines_name_buffer_user |-> Same({"time", "app_name", "iobuf_address", "user_vars"}),
         StatusIsMachines_nothing_else |-> DOMAIN got = DOMAIN want]
    [] e[1] = "iobuf" ->
        Planned @@
        [IobufIsMachines |-> e[5] = WalkIobuf(BlocksOf(e[2], e[3]), DecodeVcpu(VcpuOf(e[2], e[3], e[4])).iobuf_address,
                                              Cardinality(BlocksOf(e[2], e[3])))]
    [] e[1] = "iobuf_text" ->
        Planned @@
        [IobufTextIsMachines |-> /\ e[5] = "str"
                                 /\ \A i \in 1..Len(e[6]) : IsScalar(e[6][i])
                                 /\ Utf8(e[6]) = WalkIobuf(BlocksOf(e[2], e[3]), DecodeVcpu(VcpuOf(e[2], e[3], e[4])).iobuf_address,
                                                           Cardinality(BlocksOf(e[2], e[3])))]
    [] e[1] = "diag" ->
        Planned @@
        [CountersAreMachines |-> e[4] = CountersOf((CHOOSE d \in SeqSet(Tr.diags) : d.x = e[2] /\ d.y = e[3]).words)]
    [] e[1] = "version" ->
        LET want == VersionOf(Ver, e[2], e[3], e[4])  got == e[5] IN
        Planned @@
        [VersionDecoded |-> /\ got.software_version = want.software_version
                            /\ got.software_version_labels = want.software_version_labels
                            /\ got.version_string = want.version_string,
         VersionReplyFields |-> /\ got.position = want.position /\ got.physical_cpu = want.physical_cpu
                                /\ got.virt_cpu = want.virt_cpu /\ got.buffer_size = want.buffer_size
                                /\ got.build_date = want.build_date]
    [] e[1] = "raise" -> [NoException |-> FALSE]
    [] e[1] = "end" -> [AllPlannedResultsPresent |-> st.done = Tr.plan]
    [] OTHER -> [UnknownEvent |-> FALSE]

Apply(e) ==
    CASE e[1] = "probe" -> [st EXCEPT !.seen = {}]
      [] e[1] = "chip" -> [st EXCEPT !.seen = @ \cup {<<e[2], e[3]>>}]
      [] e[1] \in {"scp", "end", "raise"} -> st
      [] e[1] = "change" ->
           LET new == [xy \in { <<e[2][i].x, e[2][i].y>> : i \in 1..Len(e[2]) } |->
                          RecOf(e[2][CHOOSE i \in 1..Len(e[2]) : <<e[2][i].x, e[2][i].y>> = xy])]
           IN [st EXCEPT !.desc = new @@ st.desc]
      [] OTHER -> [st EXCEPT !.done = Append(@, e[1])]

Bad == LET ck == Checks(Ev) IN {c \in DOMAIN ck : ~ck[c]}
TInit == tid \in 1..Len(Traces) /\ ei = 1 /\ st = [desc |-> Desc0, seen |-> {}, done |-> <<>>] /\ verdict = <<>>
TStep == /\ ei <= Len(Tr.ev) /\ verdict = <<>> /\ tid' = tid
         /\ IF Bad = {} THEN ei' = ei + 1 /\ st' = Apply(Ev) /\ verdict' = verdict
            ELSE /\ PrintT("REJECT|" \o ToString(tid) \o "|" \o ToString(ei) \o "|" \o ToString(Bad))
                 /\ verdict' = <<ei, Bad>> /\ ei' = ei /\ st' = st
TSpec == TInit /\ [][TStep]_vars
=============================================================================
