------------------------------ MODULE RouterLoad ------------------------------
(***************************************************************************)
(* C10 - routing entries installed in a chip's router are the entries      *)
(* given.  Pure operators only; written from the property statement, the   *)
(* SpiNNaker conventions quoted in rig's documentation (route word = one   *)
(* bit per route, 16-byte load records, the router copy in SDRAM) and not  *)
(* from how rig computes anything.                                         *)
(*                                                                         *)
(* Part (i): routing trees -> tables.                                      *)
(*   A tree travels flat exactly as in RoutingTree.tla:                    *)
(*     nodes  : sequence of <<x, y>>, node 1 is the root                   *)
(*     edges  : sequence of <<parent, dir, child>>                         *)
(*     leaves : sequence of <<node, route, vertex>>, route = -1 for a leaf *)
(*              without route                                              *)
(*   keys[i] = <<keylo, keyhi, masklo, maskhi>> is the key and mask of     *)
(*   tree i (16-bit halves).  Entries are                                  *)
(*     <<keylo, keyhi, masklo, maskhi, route bit mask, source bit mask>>   *)
(*   with bit r for route/direction r in 0..23 and bit 24 of the source    *)
(*   mask for "unknown" (None), as in KeyMask.tla / RoutingTableTrace.tla. *)
(***************************************************************************)
EXTENDS RoutingTree, KeyMask

Unknown == 24

RECURSIVE SumPow2(_)
SumPow2(bitset) == IF bitset = {} THEN 0
                   ELSE LET one == CHOOSE bb \in bitset : TRUE IN Pow2(one) + SumPow2(bitset \ {one})

\* the directions tree tr leaves its node nd by: hops to children and leaf routes; a leaf without
\* route contributes nothing
ExitsAt(tr, nd) == { hop[2] : hop \in { hop \in SeqSet(tr.edges) : hop[1] = nd } }
                   \cup { lf[2] : lf \in { lf \in SeqSet(tr.leaves) : lf[1] = nd /\ lf[2] # -1 } }
\* the directions tree tr enters its node nd from: the opposite of the direction of the hop into
\* it; unknown at the root (nothing hops into it)
EntriesAt(tr, nd) == LET into == Parents(tr, nd)
                     IN IF into = {} THEN {Unknown} ELSE { Opp(hop[2]) : hop \in into }

\* every (tree, node) as a visit of a chip under the tree's key and mask
Visits(trees, keys) ==
    UNION { { [chip |-> trees[ti].nodes[nd], km |-> keys[ti],
               outs |-> ExitsAt(trees[ti], nd), ins |-> EntriesAt(trees[ti], nd)] :
              nd \in 1..Len(trees[ti].nodes) } : ti \in 1..Len(trees) }

EntryFor(km, visits) == << km[1], km[2], km[3], km[4],
                           SumPow2(UNION { vv.outs : vv \in visits }),
                           SumPow2(UNION { vv.ins : vv \in visits }) >>

\* chip -> SET of entries: for every chip a tree visits, one entry per key and mask whose route is
\* exactly the set of directions the trees (with that key and mask) leave the chip by and whose
\* sources are exactly the directions they enter it from
TablesOf(trees, keys) ==
    LET vis == Visits(trees, keys) IN
    [ ch \in { vv.chip : vv \in vis } |->
        LET here == { vv \in vis : vv.chip = ch }
        IN { EntryFor(km, { vv \in here : vv.km = km }) : km \in { vv.km : vv \in here } } ]

\* two trees with the same key and mask fork differently on a chip
MultiSource(trees, keys) ==
    LET vis == Visits(trees, keys)
    IN \E uu \in vis : \E vv \in vis : uu.chip = vv.chip /\ uu.km = vv.km /\ uu.outs # vv.outs

\* clauses on a returned {chip: entries}, given as a sequence of <<x, y, entries>>
KM(ent) == <<ent[1], ent[2], ent[3], ent[4]>>
TablesExact(out, want) ==
    /\ { <<oo[1], oo[2]>> : oo \in SeqSet(out) } = DOMAIN want
    /\ \A oo \in SeqSet(out) : <<oo[1], oo[2]>> \in DOMAIN want => SeqSet(oo[3]) = want[<<oo[1], oo[2]>>]
OneEntryPerKeyMask(out) ==
    /\ \A ii, jj \in 1..Len(out) : ii < jj => <<out[ii][1], out[ii][2]>> # <<out[jj][1], out[jj][2]>>
    /\ \A oo \in SeqSet(out) : Cardinality({ KM(oo[3][ii]) : ii \in 1..Len(oo[3]) }) = Len(oo[3])

(***************************************************************************)
(* Part (ii): loading.                                                     *)
(*   A given entry is <<keylo, keyhi, masklo, maskhi, routes>>, routes =   *)
(*   the sequence of route numbers (0..23) of the entry's route set.       *)
(*   Router contents are SETS of                                           *)
(*     <<index, keylo, keyhi, masklo, maskhi, routelo, routehi, app>>      *)
(*   for the entries in use.  Bytes are integers 0..255; memory that was   *)
(*   never written reads as -1.                                            *)
(***************************************************************************)
RtrEntries == 1024
LE16(val) == << val % 256, val \div 256 >>
Rec16(idx, pad, rlo, rhi, klo, khi, mlo, mhi) ==
    LE16(idx) \o LE16(pad) \o LE16(rlo) \o LE16(rhi) \o LE16(klo) \o LE16(khi) \o LE16(mlo) \o LE16(mhi)

\* the hardware route word of a set of routes: one bit per route
RouteWord(routes) == SumPow2(SeqSet(routes))
RouteLo(routes) == RouteWord(routes) % 65536
RouteHi(routes) == RouteWord(routes) \div 65536

\* the record to be staged for the entry at (0-based) position pos of the table
StagedRecord(pos, gv) == Rec16(pos, 0, RouteLo(gv[5]), RouteHi(gv[5]), gv[1], gv[2], gv[3], gv[4])

ByteAt(mem, off) == IF off + 1 \in 1..Len(mem) THEN mem[off + 1] ELSE -1
Slice(mem, off, len) == [ jj \in 1..len |-> ByteAt(mem, off + jj - 1) ]
Overlay(mem, off, bytes) ==
    LET top == IF Len(mem) > off + Len(bytes) THEN Len(mem) ELSE off + Len(bytes)
    IN [ jj \in 1..top |-> IF jj > off /\ jj <= off + Len(bytes) THEN bytes[jj - off]
                           ELSE IF jj <= Len(mem) THEN mem[jj] ELSE -1 ]

\* index, pad, key and mask fields of every staged record / the route word of every staged record
StagingRecordsExact(mem, bufoff, given) ==
    \A pos \in 0..(Len(given) - 1) :
        LET want == StagedRecord(pos, given[pos + 1])  got == Slice(mem, bufoff + 16 * pos, 16)
        IN SubSeq(got, 1, 4) = SubSeq(want, 1, 4) /\ SubSeq(got, 9, 16) = SubSeq(want, 9, 16)
RouteWordIsSumOfBits(mem, bufoff, given) ==
    \A pos \in 0..(Len(given) - 1) :
        SubSeq(Slice(mem, bufoff + 16 * pos, 16), 5, 8) = SubSeq(StagedRecord(pos, given[pos + 1]), 5, 8)

\* the block of router entries that holds exactly the given entries, in order, owned by app
InstalledBlock(base, app, given) ==
    { << base + pos - 1, given[pos][1], given[pos][2], given[pos][3], given[pos][4],
         RouteLo(given[pos][5]), RouteHi(given[pos][5]), app >> : pos \in 1..Len(given) }
AfterLoad(before, base, app, given) ==
    { rr \in before : rr[1] \notin base..(base + Len(given) - 1) } \cup InstalledBlock(base, app, given)

(* What the machine does (the environment; SC&MP as documented): *)
\* router-load command: count records are read from the staging address; record k goes to entry
\* base + its index field with its key, mask and route word, owned by app; later records win
U16(bytes, at) == bytes[at] + 256 * bytes[at + 1]
MachineInstall(before, mem, count, app, bufoff, base) ==
    LET recs == [ kk \in 0..(count - 1) |-> Slice(mem, bufoff + 16 * kk, 16) ]
        posn(kk) == base + U16(recs[kk], 1)
        tup(kk) == << posn(kk), U16(recs[kk], 9), U16(recs[kk], 11), U16(recs[kk], 13), U16(recs[kk], 15),
                      U16(recs[kk], 5), U16(recs[kk], 7), app >>
        all == 0..(count - 1)
        targets == { posn(kk) : kk \in all }
        last == IF Cardinality(targets) = count THEN all
                ELSE { kk \in all : \A later \in (kk + 1)..(count - 1) : posn(later) # posn(kk) }
    IN { rr \in before : rr[1] \notin targets } \cup { tup(kk) : kk \in last }
\* allocation of router entries: a block is given only if it lies in 1..1023 and none of its entries is in use
AllocSound(before, count, base) ==
    base = 0 \/ ( /\ base >= 1 /\ base + count - 1 <= RtrEntries - 1
                  /\ \A rr \in before : rr[1] \notin base..(base + count - 1) )
\* free-by-application: exactly the entries owned by app go
AfterFree(before, app) == { rr \in before : rr[8] # app }
\* the router copy in SDRAM: 16 bytes per entry; a used entry is <index, app id (core 0), route word, key, mask>,
\* an unused one has the top byte of its route word all ones
CopyRecordOK(contents, idx, rec) ==
    LET used == { rr \in contents : rr[1] = idx } IN
    IF used = {} THEN rec[8] = 255
    ELSE \E rr \in used : rec = Rec16(idx, rr[8], rr[6], rr[7], rr[2], rr[3], rr[4], rr[5])
CopyMatchesRouter(contents, off, bytes) ==
    LET first == off \div 16  final == (off + Len(bytes) - 1) \div 16 IN
    /\ off >= 0 /\ off + Len(bytes) <= 16 * RtrEntries
    /\ \A idx \in first..final :
          \* only records lying completely inside this read are judged (rig reads whole records)
          (16 * idx >= off /\ 16 * idx + 16 <= off + Len(bytes))
             => CopyRecordOK(contents, idx, SubSeq(bytes, 16 * idx - off + 1, 16 * idx - off + 16))

\* what get_routing_table_entries returned: total = length of the list, items = its used elements
\* <<index, keylo, keyhi, masklo, maskhi, routes, app, core>>
ReadBackSame(contents, total, items) ==
    /\ total = RtrEntries
    /\ Len(items) = Cardinality(contents)
    /\ { << it[1], it[2], it[3], it[4], it[5], RouteLo(it[6]), RouteHi(it[6]) >> : it \in SeqSet(items) }
         = { << rr[1], rr[2], rr[3], rr[4], rr[5], rr[6], rr[7] >> : rr \in contents }
=============================================================================
