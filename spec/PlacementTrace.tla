--------------------------- MODULE PlacementTrace ---------------------------
(***************************************************************************)
(* Trace specification for C02.  One trace = one problem (fields of        *)
(* Placement.tla plus `placer`) and one event per placer run:              *)
(*   <<"placed", name, pl>>    the placement returned                      *)
(*   <<"raise",  name, class>> the exception raised                        *)
(*   <<"swap",   name, pl>>    (Python annealing kernel only) the          *)
(*                             placement after an annealing step           *)
(***************************************************************************)
EXTENDS Placement, Json, IOUtils

Traces == JsonDeserialize(IOEnv.TRACE_FILE)
VARIABLES tid, ei, verdict
vars == <<tid, ei, verdict>>
Tr == Traces[tid]
Ev == Tr.ev[ei]

Checks(e) ==
  CASE e[1] = "placed" ->
        [EveryVertexOnAWorkingChip |-> EveryVertexOnAWorkingChip(Tr, e[3]),
         WithinResources   |-> EveryVertexOnAWorkingChip(Tr, e[3]) => WithinResources(Tr, e[3]),
         LocationsHonoured |-> EveryVertexOnAWorkingChip(Tr, e[3]) => LocationsHonoured(Tr, e[3]),
         SameChipHonoured  |-> EveryVertexOnAWorkingChip(Tr, e[3]) => SameChipHonoured(Tr, e[3])]
    [] e[1] = "swap" ->
        [SwapKeepsFeasible |-> Feasible(Tr, e[3])]
    [] e[1] = "raise" ->
        [OnlyDocumentedErrors |-> e[3] \in {"InsufficientResourceError", "InvalidConstraintError"},
         MustSucceed          |-> ~Easy(Tr)]
    [] OTHER -> [UnknownEvent |-> FALSE]

Bad == {c \in DOMAIN Checks(Ev) : ~Checks(Ev)[c]}
TInit == tid \in 1..Len(Traces) /\ ei = 1 /\ verdict = <<>>
TStep == /\ ei <= Len(Tr.ev) /\ verdict = <<>> /\ tid' = tid
         /\ IF Bad = {} THEN ei' = ei + 1 /\ verdict' = verdict
            ELSE /\ PrintT("REJECT|" \o ToString(tid) \o "|" \o ToString(ei) \o "|" \o ToString(Bad))
                 /\ verdict' = <<ei, Bad>> /\ ei' = ei
TSpec == TInit /\ [][TStep]_vars
=============================================================================
