------------------------------ MODULE Packets ------------------------------
(***************************************************************************)
(* Wire layout of SDP and SCP packets (C15), written from the SpiNNaker    *)
(* datagram documentation, as sequences of bytes:                          *)
(*   0,1  padding (zero)            6  dest y      10,11 cmd_rc (LE)       *)
(*   2    flags 0x87 reply/0x07     7  dest x      12,13 seq    (LE)       *)
(*   3    tag                       8  src y       14..  present arguments *)
(*   4    dest port(3) | cpu(5)     9  src x             (4 bytes LE each) *)
(*   5    src  port(3) | cpu(5)                    then  payload           *)
(* 32-bit arguments travel as 4-byte sequences (TLC integers are 32-bit).  *)
(* An absent argument is <<>>.                                             *)
(***************************************************************************)
EXTENDS Integers, Sequences, FiniteSets, TLC

Byte == 0..255
Min(a, b) == IF a < b THEN a ELSE b
LE16(n) == << n % 256, n \div 256 >>
SubSeqFrom(q, i) == SubSeq(q, i, Len(q))

SdpHeader(f) ==
    << 0, 0, IF f.reply = 1 THEN 135 ELSE 7, f.tag,
       f.dport * 32 + f.dcpu, f.sport * 32 + f.scpu, f.dy, f.dx, f.sy, f.sx >>
EncodeSDP(f) == SdpHeader(f) \o f.data
EncodeSCP(f) == SdpHeader(f) \o LE16(f.cmd) \o LE16(f.seq) \o f.args[1] \o f.args[2] \o f.args[3] \o f.data

DecodeSdpHeader(b) ==
    [reply |-> IF b[3] = 135 THEN 1 ELSE 0, tag |-> b[4],
     dport |-> b[5] \div 32, dcpu |-> b[5] % 32, sport |-> b[6] \div 32, scpu |-> b[6] % 32,
     dy |-> b[7], dx |-> b[8], sy |-> b[9], sx |-> b[10]]
DecodeSDP(b) == DecodeSdpHeader(b) @@ [data |-> SubSeqFrom(b, 11)]
\* take only as many arguments as both the caller allows and the data contains
DecodeSCP(b, nargs) ==
    LET rest == SubSeqFrom(b, 15)
        k    == Min(Min(nargs, 3), Len(rest) \div 4)
        Arg(i) == IF i <= k THEN SubSeq(rest, 4 * i - 3, 4 * i) ELSE <<>>
    IN  DecodeSdpHeader(b) @@
        [cmd |-> b[11] + 256 * b[12], seq |-> b[13] + 256 * b[14],
         args |-> << Arg(1), Arg(2), Arg(3) >>, data |-> SubSeqFrom(rest, 4 * k + 1)]
=============================================================================
