----------------------------- MODULE SessionSim -----------------------------
(***************************************************************************)
(* Behaviours of SessionDesign for replay into rig (job R of the session   *)
(* model): the design machine with a history of the calls made.  TLC's     *)
(* simulator chooses the calls; a finished history is printed, as JSON,    *)
(* together with the machine state the DESIGN reached.  The harness makes  *)
(* the same calls through the real MachineController against the simulated *)
(* machine; SessionTrace.tla judges every call and, at the end, that the   *)
(* real machine is in the state the design predicted.                      *)
(***************************************************************************)
EXTENDS SessionDesign, Json

CONSTANT Depth
VARIABLE hist
SetToSeqAny(S) == SetToSeq(S)
LoadSets == { {k} : k \in AppCores } \cup { { k \in AppCores : k[1] = xy[1] /\ k[2] = xy[2] } : xy \in XY }
SInit == DInit /\ hist = <<>>
SNext ==
    \* (single cores and whole chips: the simulator picks among successor states, and 2^n core sets would crowd
    \* out every other call)
    \/ \E app \in Apps, cores \in LoadSets, wait \in BOOLEAN :
          DLoad(app, cores, wait) /\ hist' = Append(hist, <<"load", app, SetToSeqAny(cores), IF wait THEN 1 ELSE 0>>)
    \/ \E name \in {"stop", "start", "sync0", "sync1", "pause", "cont", "exit"}, app \in Apps :
          DSignal(name, app) /\ hist' = Append(hist, <<"signal", name, app>>)
    \/ \E c \in ms.core, state \in {StSync0, StSync1, StExit, StRte} :
          DProgress(c, state) /\ hist' = Append(hist, <<"progress", c[1], c[2], c[3], state>>)
    \/ \E xy \in XY, size \in Sizes, tag \in Tags, app \in Apps :
          DAlloc(xy, size, tag, app) /\ hist' = Append(hist, <<"alloc", xy[1], xy[2], size, tag, app>>)
    \/ \E a \in ms.alloc : DFree(a) /\ hist' = Append(hist, <<"free", a[1], a[2], a[3]>>)
    \/ \E xy \in XY, n \in 1..MaxEntries, app \in Apps :
          DLoadEntries(xy, n, app, app) /\ hist' = Append(hist, <<"entries", xy[1], xy[2], n, app>>)
    \/ \E xy \in XY, app \in Apps : DClear(xy, app) /\ hist' = Append(hist, <<"clear", xy[1], xy[2], app>>)
    \/ \E xy \in XY, tag \in IpTags, set \in BOOLEAN :
          DIptag(xy, tag, set) /\ hist' = Append(hist, <<"iptag", xy[1], xy[2], tag, IF set THEN 1 ELSE 0>>)
SSpec == SInit /\ [][SNext]_<<ms, who, hist>>
AsLists(m) == [core |-> SetToSeq(m.core), alloc |-> SetToSeq(m.alloc), brk |-> SetToSeq(m.brk), own |-> SetToSeq(m.own),
               ent |-> SetToSeq(m.ent), iptag |-> SetToSeq(m.iptag)]
\* evaluated as an invariant: prints a history once it has the wanted length
Emit == (Len(hist) = Depth) =>
            PrintT("INFO|" \o ToJson([hist |-> hist, final |-> AsLists(ms), chips |-> SetToSeq(ChipSet), heap |-> Heap]))
=============================================================================
