------------------------------ MODULE GlueTrace ------------------------------
(***************************************************************************)
(* Trace specification for rig's glue utilities (beyond the listed         *)
(* properties; hosted by the C05 check).  It extends the session trace     *)
(* module: a trace is a controller session against the simulated machine   *)
(* (setup chips, heap, strict_tag and the "api" / "env" events exactly as  *)
(* in SessionTrace.tla - used here to put blocks of other applications and *)
(* tags in the way before the call, and to stop the application after it)  *)
(* with three more kinds of event:                                         *)
(*                                                                         *)
(*  <<"vsdram", a, outcome, cmds, post>>   one call of                     *)
(*      sdram_alloc_for_vertices by the real controller;                   *)
(*      a = [app, core_as_tag, clear, verts] with app = the application id *)
(*      the controller's context held during the call and verts = the      *)
(*      vertices <<vid, x, y, sd, cr>> of Glue.tla (sd / cr: the vertex's  *)
(*      allocation under the resource names the CALLER passed);            *)
(*      outcome = <<"ok", views>> with views = sequence of <<vid, offset   *)
(*      of the view from the base of SDRAM, its length>> (one per key of   *)
(*      the dictionary returned) | <<"raise", class>>;                     *)
(*      cmds / post = the commands the machine executed during the call    *)
(*      and its state afterwards (Session.tla).                            *)
(*  <<"appmap", verts, outcome>>   one call of build_application_map;      *)
(*      verts = <<vid, application, x, y, cr>>, outcome = <<"ok", sequence *)
(*      of <<application, x, y, cores>>>> | <<"raise", class>>             *)
(*  <<"tables", trees, keys, w, full, reduced>>   build_routing_tables on  *)
(*      the same trees with omit_default_routes False / True: trees, keys  *)
(*      and tables as in RouterLoad.tla; each outcome <<"ok", tables>> |   *)
(*      <<"raise", class>>; w = number of low key bits that differ between *)
(*      the nets.                                                          *)
(* The order in which rig takes the vertices is rig's choice: the events   *)
(* carry it and the clauses check that it is a legal one.                  *)
(***************************************************************************)
EXTENDS SessionTrace, Glue

IsAllocCmd(c) == c[1] = 28 /\ CmdOp(c) = 0
AllocReq(c) == <<c[12][1], c[12][2], Num(c[6]), Num(c[7])>>
WriteLike(c) == c[1] \in {3, 5}
BytesOf(c) == LET lo == Num(c[5]) - SdramBase
                  n == IF c[1] = 5 THEN Num(c[7]) ELSE Num(c[6])
              IN lo..(lo + n - 1)

VsdramChecks(a, outcome, cmds, post) ==
    LET asTag == a.core_as_tag = 1
        wanted == Wanted(a.verts, asTag)
        E == Eff(cmds)
        reqs == [i \in 1..Len(E) |-> AllocReq(E[i])]
        failedAt == { i \in 1..Len(E) : E[i][10] = <<0, 0>> }
        new == post.alloc \ st.alloc
        writes == { k \in 1..Len(cmds) : WriteLike(cmds[k]) }
        ChipsWritten == { cmds[k][12] : k \in writes } \cup { <<b[1], b[2]>> : b \in new }
    IN IF ~InDomain(a.verts, asTag) THEN [InputInDomain |-> FALSE]
       ELSE
       [\* every state-changing command is an allocation of SDRAM, sent to core 0 of the vertex's chip, in the name
        \* of the controller's current application; together they ask for wanted blocks, none twice, all of them
        \* when the call returns
        VertexAllocCommands |->
            /\ \A i \in 1..Len(E) : /\ IsAllocCmd(E[i]) /\ E[i][4] = 0 /\ E[i][5] = <<0, a.app * 256>>
                                    /\ E[i][6][1] < 32768 /\ E[i][7][1] = 0
            /\ RequestsLegal(reqs, wanted, outcome[1] = "ok"),
        \* the memory error leaves the call: nothing is asked for after an allocation failed
        StopsAtFirstFailure |-> failedAt \subseteq {Len(E)},
        VertexAllocOutcome |-> IF failedAt # {} THEN Raises(outcome, "SpiNNakerMemoryError")
                               ELSE outcome[1] = "ok" /\ Len(E) = Cardinality(wanted),
        \* one view per vertex with SDRAM, none for the others; each covers exactly its block (address and length)
        ViewsCoverBlocks |-> outcome[1] = "ok" =>
                                /\ Len(outcome[2]) = Cardinality(SeqSet(outcome[2]))
                                /\ ViewsExact(SeqSet(outcome[2]), wanted, new, a.app),
        \* nothing else happens to the machine: apart from the allocations only reads, and - with clear - writes
        NothingElseDone |-> \A k \in 1..Len(cmds) : Effective(cmds[k]) \/ ReadOnly(cmds[k]) \/ WriteLike(cmds[k]),
        \* clear=True: zeros over exactly the blocks allocated by this call; clear=False: nothing is written
        ClearedExactlyTheBlocks |->
            IF a.clear = 1
            THEN /\ \A k \in writes : cmds[k][11] = <<1>> /\ (cmds[k][1] = 5 => cmds[k][6] = <<0, 0>>)
                                      /\ Num(cmds[k][5]) >= SdramBase
                 /\ \A ch \in ChipsWritten :
                        UNION { BytesOf(cmds[k]) : k \in { j \in writes : cmds[j][12] = ch } }
                          = UNION { b[3]..(b[3] + b[4] - 1) : b \in { d \in new : <<d[1], d[2]>> = ch } }
            ELSE writes = {}]

AppMapChecks(verts, outcome) ==
    [AppMapReturns |-> outcome[1] = "ok",
     \* application -> chip -> cores = exactly the cores allocated to the vertices that run the application
     AppMapExact |-> outcome[1] = "ok" => FlatMap(outcome[2]) = AppMapOf(verts),
     AppMapKeysOnce |-> outcome[1] = "ok" =>
                           /\ MapKeysOnce(outcome[2])
                           /\ \A m \in SeqSet(outcome[2]) : Cardinality(SeqSet(m[4])) = Len(m[4])]

IsMulti(o) == o[1] = "raise" /\ o[2] = "MultisourceRouteError"
TablesChecks(trees, keys, w, full, red) ==
    LET multi == RL!MultiSource(trees, keys) IN
    IF ~FixedBits(keys, w) THEN [InputInDomain |-> FALSE]
    ELSE
    [TablesNoOtherError |-> (full[1] = "ok" \/ IsMulti(full)) /\ (red[1] = "ok" \/ IsMulti(red)),
     TablesMultisourcePrecisely |-> (IsMulti(full) <=> multi) /\ (IsMulti(red) <=> multi),
     \* without omission: per chip the entries the trees demand (RouterLoad.tla), one per key and mask
     FullTablesExact |-> (full[1] = "ok" /\ ~multi) =>
                            /\ RL!TablesExact(full[2], RL!TablesOf(trees, keys)) /\ RL!OneEntryPerKeyMask(full[2]),
     \* with omission: the same entries minus some ...
     ReducedWithinFull |-> (full[1] = "ok" /\ red[1] = "ok") => ReducedWithin(full[2], red[2]),
     \* ... that do not change direction ...
     OnlyStraightOmitted |-> (full[1] = "ok" /\ red[1] = "ok") => OnlyStraightOmitted(full[2], red[2], w),
     \* ... and that default routing really stands in for: the routers are executed on every key
     OmissionPreservesRouting |-> (full[1] = "ok" /\ red[1] = "ok") => RoutingPreserved(full[2], red[2], w),
     OmitsUnaliasedStraightRoutes |-> (full[1] = "ok" /\ red[1] = "ok") => OmitsUnaliasedStraightRoutes(full[2], red[2], w)]

GChecks(e) ==
  CASE e[1] = "vsdram" ->
        LET cmds == e[4]  post == ToState(e[5])
        IN IF \E i \in 1..Len(cmds) : ~Modelled(cmds[i]) THEN [CommandsModelled |-> FALSE]
           ELSE [SimulatorFollowsMachine |-> post = Fold(st, Heap, cmds, 1),
                 SimulatorRepliesFollowMachine |-> RepliesOk(st, Heap, Chips, cmds, 1),
                 MachineInvariant |-> MachineInv(post, Heap),
                 NothingRefused |-> \A i \in 1..Len(cmds) : cmds[i][9] = 128]
                @@ VsdramChecks(e[2], e[3], cmds, post)
    [] e[1] = "appmap" -> AppMapChecks(e[2], e[3])
    [] e[1] = "tables" -> TablesChecks(e[2], e[3], e[4], e[5], e[6])
    [] OTHER -> Checks(e)

GApply(e) == IF e[1] = "vsdram" THEN ToState(e[5])
             ELSE IF e[1] \in {"appmap", "tables"} THEN st ELSE Apply(e)
GDetail(e) == IF e[1] = "vsdram"
              THEN "sdram_alloc_for_vertices args=" \o ToString(e[2]) \o " outcome=" \o ToString(e[3])
                   \o " effective commands=" \o ToString(Eff(e[4])) \o " machine before=" \o ToString(st)
              ELSE IF e[1] = "appmap" THEN "build_application_map vertices=" \o ToString(e[2]) \o " outcome=" \o ToString(e[3])
              ELSE IF e[1] = "tables" THEN "build_routing_tables full=" \o ToString(e[5]) \o " reduced=" \o ToString(e[6])
              ELSE Detail(e)
GBad == LET ck == GChecks(Ev) IN {c \in DOMAIN ck : ~ck[c]}
GStep == /\ ei <= Len(Tr.ev) /\ verdict = <<>> /\ tid' = tid
         /\ LET bad == GBad
            IN IF bad = {} THEN ei' = ei + 1 /\ st' = GApply(Ev) /\ verdict' = verdict
               ELSE /\ PrintT("REJECT|" \o ToString(tid) \o "|" \o ToString(ei) \o "|" \o ToString(bad)
                              \o "|" \o GDetail(Ev))
                    /\ verdict' = <<ei, bad>> /\ ei' = ei /\ st' = st
GTSpec == TInit /\ [][GStep]_vars
=============================================================================
