--------------------------- MODULE LoadAppDesign ---------------------------
(***************************************************************************)
(* Design job for C09: the loader's retry loop against the flood-fill      *)
(* receivers of a small machine, for every assignment of cores to          *)
(* binaries, every set of chips missing each fill, both ways of verifying  *)
(* (core count / per-core state reads) and n_tries in NTriesSet.           *)
(*                                                                         *)
(* Client (rules of load_application / flood_fill_aplx):                   *)
(*   unloaded := the whole map; while unloaded # {} and attempts <= n_tries *)
(*   do { one fill per binary of unloaded, addressed to exactly its        *)
(*   unloaded cores; then either the count of waiting cores of the         *)
(*   application equals the number requested (=> unloaded := {}), or every *)
(*   core of unloaded is read and those not waiting stay in unloaded };    *)
(*   unloaded # {} => raise naming unloaded; else start signal unless      *)
(*   asked to wait; return.                                                *)
(* Machine (module LoadApp): start / select / data / end per chip, a chip  *)
(* in the fill's miss set ignores the whole fill.                          *)
(*                                                                         *)
(* A select packet is abstracted to (chip, core set): one per chip, sent   *)
(* in increasing chip order.  An image is <<binary, set of blocks>>.       *)
(* Switches: ForeignWithCount - cores outside the request may already wait *)
(*   under the same application id even in count mode (the documented      *)
(*   precondition of use_count is then broken: ReturnedMeansAllLoaded must *)
(*   fail); OverwriteWaiting - a requested core may already wait holding   *)
(*   another binary (outside the property's domain: the per-core check     *)
(*   reads only the state; shown to fail).                                 *)
(***************************************************************************)
EXTENDS LoadApp

CONSTANTS NChips, NCores, MaxBins, MaxBlocks, MaxEarlier, NTriesSet, CountModes, PidMod,
          ForeignWithCount, OverwriteWaiting

AppId == 30
OtherBin == 99                      \* a binary loaded by an earlier call
ChipIds == 1..NChips
AllCores == ChipIds \X (1..NCores)   \* <<chip, core>>
Bins == 1..MaxBins
NoImg == <<0, {}>>
IdleCore == [state |-> StIdle, app |-> 0, img |-> NoImg]
NoFill == [bin |-> 0, stage |-> "none", nextChip |-> 0, nextBlock |-> 0, fpid |-> 0]
RxOff == [on |-> FALSE, rpid |-> 0, nb |-> 0, got |-> {}, sel |-> {}]

VARIABLES targetOf,    \* AllCores -> 0 (not requested) or the binary requested for it
          blocksOf,    \* Bins -> number of blocks of the binary
          nTries, useCount, waitFlag,
          coreTab,     \* AllCores -> [state, app, img]
          coreTab0,    \* the same before the call
          attemptNo, unloadedMap,   \* client: attempts made; binary -> set of cores believed unloaded
          todoBins, fillNow, pidCtr, \* client: binaries still to fill in this attempt; the fill in progress
          rxTab,       \* ChipIds -> receiver
          phase,       \* "loop" | "fills" | "verify" | "returned" | "raised"
          errCores     \* cores named by the loading error

vars == <<targetOf, blocksOf, nTries, useCount, waitFlag, coreTab, coreTab0, attemptNo, unloadedMap, todoBins,
          fillNow, pidCtr, rxTab, phase, errCores>>

TargetsOfBin(bn) == { c \in AllCores : targetOf[c] = bn }
FullImg(bn) == <<bn, 0..(blocksOf[bn] - 1)>>
TrulyMissing(bn) == { c \in TargetsOfBin(bn) : ~HoldsLoaded(coreTab[c], AppId, FullImg(bn)) }
Requested == { c \in AllCores : targetOf[c] # 0 }
NonEmpty(f) == [ bn \in { bn \in DOMAIN f : f[bn] # {} } |-> f[bn] ]
EmptyMap == [bn \in {} |-> {}]
UnloadedCores == UNION { unloadedMap[bn] : bn \in DOMAIN unloadedMap }

\* a core before the call: idle; or waiting under the same application id from an earlier load
EarlierSame(bn) == [state |-> StWait, app |-> AppId, img |-> FullImg(bn)]
EarlierOther == [state |-> StWait, app |-> AppId, img |-> <<OtherBin, {0}>>]
DInit ==
    /\ targetOf \in [AllCores -> 0..MaxBins]
    /\ blocksOf \in [Bins -> 1..MaxBlocks]
    /\ \A bn \in Bins : bn > 1 /\ TargetsOfBin(bn) # {} => TargetsOfBin(bn - 1) # {}   \* binaries used in order
    /\ \A bn \in Bins : TargetsOfBin(bn) = {} => blocksOf[bn] = 1                    \* unused binaries: one shape
    /\ nTries \in NTriesSet /\ useCount \in CountModes /\ waitFlag = FALSE
    /\ coreTab \in [AllCores -> {IdleCore, EarlierOther} \cup { EarlierSame(bn) : bn \in Bins }]
    /\ \A c \in AllCores :
          IF targetOf[c] = 0
          THEN coreTab[c] \in {IdleCore} \cup (IF ~useCount \/ ForeignWithCount THEN {EarlierOther} ELSE {})
          ELSE coreTab[c] \in {IdleCore, EarlierSame(targetOf[c])} \cup (IF OverwriteWaiting THEN {EarlierOther} ELSE {})
    /\ Cardinality({ c \in AllCores : coreTab[c] # IdleCore }) <= MaxEarlier
    /\ coreTab0 = coreTab
    /\ attemptNo = 0
    /\ unloadedMap = NonEmpty([bn \in Bins |-> TargetsOfBin(bn)])      \* "unloaded = application_map"
    /\ todoBins = {} /\ fillNow = NoFill /\ pidCtr = PidMod - 1          \* the counter wraps after the first fill
    /\ rxTab = [ch \in ChipIds |-> RxOff]
    /\ phase = "loop" /\ errCores = {}

\* ------------------------------------------------------------------ client: the loop
CoreCount == Cardinality(Requested)
BeginAttempt ==
    /\ phase = "loop" /\ DOMAIN unloadedMap # {} /\ attemptNo <= nTries
    /\ attemptNo' = attemptNo + 1 /\ todoBins' = DOMAIN unloadedMap /\ phase' = "fills"
    /\ UNCHANGED <<targetOf, blocksOf, nTries, useCount, waitFlag, coreTab, coreTab0, unloadedMap, fillNow, pidCtr,
                   rxTab, errCores>>
RaiseError ==
    /\ phase = "loop" /\ DOMAIN unloadedMap # {} /\ attemptNo > nTries
    /\ phase' = "raised" /\ errCores' = UnloadedCores
    /\ UNCHANGED <<targetOf, blocksOf, nTries, useCount, waitFlag, coreTab, coreTab0, attemptNo, unloadedMap, todoBins,
                   fillNow, pidCtr, rxTab>>
\* the caller's wait argument only matters here, so it is chosen here (waitFlag records it)
Finish(asked) ==
    /\ phase = "loop" /\ DOMAIN unloadedMap = {}
    /\ waitFlag' = asked
    /\ coreTab' = IF asked THEN coreTab ELSE [c \in AllCores |-> AfterSignal(coreTab[c], SigStart, AppId)]
    /\ phase' = "returned"
    /\ UNCHANGED <<targetOf, blocksOf, nTries, useCount, coreTab0, attemptNo, unloadedMap, todoBins, fillNow,
                   pidCtr, rxTab, errCores>>

\* ------------------------------------------------------------------ client + machine: one fill
ChipsOf(cs) == { c[1] : c \in cs }
NextChipAfter(cs, ch) == LET later == { k \in ChipsOf(cs) : k > ch } IN
                         IF later = {} THEN 0 ELSE CHOOSE k \in later : \A m \in later : k <= m
FFStart(bn, missing) ==
    /\ phase = "fills" /\ fillNow.stage = "none" /\ bn \in todoBins
    /\ pidCtr' = IF pidCtr < PidMod THEN pidCtr + 1 ELSE 1
    /\ LET fp == 2 * pidCtr'  first == NextChipAfter(unloadedMap[bn], 0) IN
       /\ fillNow' = [bin |-> bn, stage |-> IF first = 0 THEN "data" ELSE "sel", nextChip |-> first,
                      nextBlock |-> 0, fpid |-> fp]
       /\ rxTab' = [ch \in ChipIds |-> IF ch \in missing THEN RxOff
                                       ELSE [on |-> TRUE, rpid |-> fp, nb |-> blocksOf[bn], got |-> {}, sel |-> {}]]
    /\ UNCHANGED <<targetOf, blocksOf, nTries, useCount, waitFlag, coreTab, coreTab0, attemptNo, unloadedMap, todoBins,
                   phase, errCores>>
FFSelect ==
    /\ phase = "fills" /\ fillNow.stage = "sel"
    /\ LET ch == fillNow.nextChip
           ps == { c[2] : c \in { c \in unloadedMap[fillNow.bin] : c[1] = ch } }
           nxt == NextChipAfter(unloadedMap[fillNow.bin], ch) IN
       /\ rxTab' = [rxTab EXCEPT ![ch] = IF @.on THEN [@ EXCEPT !.sel = @ \cup ps] ELSE @]
       /\ fillNow' = [fillNow EXCEPT !.nextChip = nxt, !.stage = IF nxt = 0 THEN "data" ELSE "sel"]
    /\ UNCHANGED <<targetOf, blocksOf, nTries, useCount, waitFlag, coreTab, coreTab0, attemptNo, unloadedMap, todoBins,
                   pidCtr, phase, errCores>>
FFData ==
    /\ phase = "fills" /\ fillNow.stage = "data" /\ fillNow.nextBlock < blocksOf[fillNow.bin]
    /\ rxTab' = [ch \in ChipIds |-> IF rxTab[ch].on /\ rxTab[ch].rpid = fillNow.fpid
                                    THEN [rxTab[ch] EXCEPT !.got = @ \cup {fillNow.nextBlock}] ELSE rxTab[ch]]
    /\ fillNow' = [fillNow EXCEPT !.nextBlock = @ + 1]
    /\ UNCHANGED <<targetOf, blocksOf, nTries, useCount, waitFlag, coreTab, coreTab0, attemptNo, unloadedMap, todoBins,
                   pidCtr, phase, errCores>>
\* the end packet always carries the wait flag: the loader starts the application later by signal
Commits(ch) == rxTab[ch].on /\ rxTab[ch].rpid = fillNow.fpid /\ rxTab[ch].got = 0..(rxTab[ch].nb - 1)
FFEnd ==
    /\ phase = "fills" /\ fillNow.stage = "data" /\ fillNow.nextBlock = blocksOf[fillNow.bin]
    /\ coreTab' = [c \in AllCores |-> IF Commits(c[1]) /\ c[2] \in rxTab[c[1]].sel
                                      THEN Loaded(AppId, FlagWait, <<fillNow.bin, rxTab[c[1]].got>>) ELSE coreTab[c]]
    /\ rxTab' = [ch \in ChipIds |-> RxOff]
    /\ fillNow' = NoFill
    /\ todoBins' = todoBins \ {fillNow.bin}
    /\ phase' = IF todoBins' = {} THEN "verify" ELSE "fills"
    /\ UNCHANGED <<targetOf, blocksOf, nTries, useCount, waitFlag, coreTab0, attemptNo, unloadedMap, pidCtr, errCores>>

\* ------------------------------------------------------------------ client: verification
CountMatches == CountIn(coreTab, StWait, AppId) = CoreCount
VerifyByCount ==
    /\ phase = "verify" /\ useCount /\ CountMatches
    /\ unloadedMap' = EmptyMap /\ phase' = "loop"
    /\ UNCHANGED <<targetOf, blocksOf, nTries, useCount, waitFlag, coreTab, coreTab0, attemptNo, todoBins, fillNow, pidCtr,
                   rxTab, errCores>>
VerifyPerCore ==
    /\ phase = "verify" /\ ~(useCount /\ CountMatches)
    /\ unloadedMap' = NonEmpty([bn \in DOMAIN unloadedMap |-> { c \in unloadedMap[bn] : coreTab[c].state # StWait }])
    /\ phase' = "loop"
    /\ UNCHANGED <<targetOf, blocksOf, nTries, useCount, waitFlag, coreTab, coreTab0, attemptNo, todoBins, fillNow, pidCtr,
                   rxTab, errCores>>

DNext == \/ BeginAttempt \/ RaiseError \/ \E asked \in BOOLEAN : Finish(asked)
         \/ \E bn \in Bins, missing \in SUBSET ChipIds : FFStart(bn, missing)
         \/ FFSelect \/ FFData \/ FFEnd \/ VerifyByCount \/ VerifyPerCore
DSpec == DInit /\ [][DNext]_vars /\ WF_vars(DNext)

\* ------------------------------------------------------------------ what must hold
\* normal return: every requested core holds its complete binary under the application id, started or waiting as
\* asked; no core outside the request got an image or an application id from this call
ReturnedMeansAllLoaded ==
    phase = "returned" =>
       /\ \A c \in Requested : HoldsFinally(coreTab[c], AppId, FullImg(targetOf[c]), waitFlag)
       /\ \A c \in AllCores \ Requested : coreTab[c].img = coreTab0[c].img /\ coreTab[c].app = coreTab0[c].app
RaisedNamesExactlyMissing ==
    phase = "raised" => errCores = UNION { TrulyMissing(bn) : bn \in Bins } /\ errCores # {}
AttemptsBounded == attemptNo <= nTries + 1
\* every fill (in particular every retry) addresses exactly the cores of its binary that are missing:
\* in the first attempt everything requested, later only what is truly still missing
RetriesOnlyMissing ==
    [][(fillNow.stage = "none" /\ fillNow'.stage # "none") =>
          unloadedMap[fillNow'.bin] = (IF attemptNo = 1 THEN TargetsOfBin(fillNow'.bin) ELSE TrulyMissing(fillNow'.bin))]_vars
\* an image on a core is always a complete one of a requested binary (or was there before)
OnlyCompleteImages ==
    \A c \in AllCores : coreTab[c].img # coreTab0[c].img =>
        targetOf[c] # 0 /\ coreTab[c].img = FullImg(targetOf[c]) /\ coreTab[c].app = AppId
\* between attempts the client's belief is the truth (this is what count mode loses with foreign waiting cores)
BeliefIsTruth ==
    (phase = "loop" /\ attemptNo > 0) =>
        \A bn \in Bins : (IF bn \in DOMAIN unloadedMap THEN unloadedMap[bn] ELSE {}) = TrulyMissing(bn)
\* a core that holds its binary keeps it: a retry addressed to other cores does not disturb it
LoadedStayLoaded ==
    [][\A c \in Requested : coreTab[c].img = FullImg(targetOf[c]) /\ coreTab[c].app = AppId
          => coreTab'[c].img = coreTab[c].img /\ coreTab'[c].app = AppId
             /\ (coreTab'[c].state = coreTab[c].state \/ (coreTab[c].state = StWait /\ coreTab'[c].state = StRun
                                                           /\ phase' = "returned" /\ ~waitFlag'))]_vars
\* the start signal only when not asked to wait (no core of the application runs otherwise)
StartSignalOnlyWhenNotWaiting ==
    (\E c \in Requested : coreTab[c].state = StRun) => phase = "returned" /\ ~waitFlag
PidEvenInRange == fillNow.stage # "none" => fillNow.fpid \in 2..(2 * PidMod) /\ fillNow.fpid % 2 = 0
Terminates == <>(phase \in {"returned", "raised"})
=============================================================================
