----------------------------- MODULE BootDesign -----------------------------
(***************************************************************************)
(* Design job for C20: the boot procedure as a state machine, datagram by  *)
(* datagram, for a shrunken protocol (BlockBytes = 8, a 4-byte config area *)
(* at offset 4, three system variables one of which is the boot-managed    *)
(* clock) - every choice of options and image length for every boot of a   *)
(* short history of boots from one process.                                *)
(*                                                                         *)
(* The rule: take a FRESH copy of the defaults, apply this call's options, *)
(* pack, splice into the image, cut into blocks, send each word            *)
(* big-endian between a start and an end command.  The invariants are the  *)
(* declarative clauses of Boot.tla (the same ones the traces of the real   *)
(* boot() are judged by), so the job shows (i) the rule implies the        *)
(* property and the clauses are satisfiable, and (ii) with Leaky = TRUE -  *)
(* options merged into a dictionary that survives the call - the history   *)
(* clauses are violated, i.e. they are not vacuous.                        *)
(***************************************************************************)
EXTENDS Boot

CONSTANTS MaxBoots,     \* boots per history
          ImageLens,    \* image lengths tried (multiples of 4, at least CfgOffset + CfgLen)
          Leaky         \* TRUE: the merged options are kept in a dictionary shared between calls

DTable == << <<"hw", 1, 0, 0, 1>>, <<"led", 2, 1, 1, 1>>, <<"unix_time", 1, 3, 0, 1>> >>

\* option sets: hw absent / 0 (= its default) / 3, led absent / 258 (two significant bytes)
OptSets == { f \in UNION { [S -> {LE4(0), LE4(3), LE4(258)}] : S \in SUBSET {"hw", "led"} } :
               /\ "hw" \in DOMAIN f => f["hw"] \in {LE4(0), LE4(3)}
               /\ "led" \in DOMAIN f => f["led"] = LE4(258) }

\* an image whose bytes differ from position to position
ImageOf(len) == [i \in 1..len |-> (i * 37 + 11) % 251]

\* encoding side (the clauses of Boot.tla only ever decode)
BE32(v) == <<(v \div 16777216) % 256, (v \div 65536) % 256, (v \div 256) % 256, v % 256>>
Header(cmd, a1, a2, a3) == <<0, 1>> \o BE32(cmd) \o BE32(a1) \o BE32(a2) \o BE32(a3)
SwapWords(data) == [i \in 1..Len(data) |-> data[4 * ((i - 1) \div 4) + (3 - ((i - 1) % 4)) + 1]]
Min(x, y) == IF x < y THEN x ELSE y

VARIABLES phase,       \* "idle", "blocks", "sent"
          bootNo,      \* boots completed
          curOpts,     \* options of the call in progress
          curLen,      \* image length of the call in progress
          buffer,      \* image with the config area spliced in
          wire,        \* datagrams sent by the call in progress
          nextBlock,
          history,     \* sequence of HistEntry of the completed boots
          leaked,      \* the dictionary that survives calls (only used when Leaky)
          clock
vars == <<phase, bootNo, curOpts, curLen, buffer, wire, nextBlock, history, leaked, clock>>

Empty == [x \in {} |-> <<>>]

DInit == /\ phase = "idle" /\ bootNo = 0 /\ curOpts = Empty /\ curLen = 0 /\ buffer = <<>>
         /\ wire = <<>> /\ nextBlock = 0 /\ history = <<>> /\ leaked = Empty /\ clock = 7

Call == /\ phase = "idle" /\ bootNo < MaxBoots
        /\ \E o \in OptSets, len \in ImageLens :
              LET eff    == IF Leaky THEN o @@ leaked ELSE o
                  packed == PackedCfg(DTable, ("unix_time" :> LE4(clock)) @@ eff)
                  im     == ImageOf(len)
              IN /\ curOpts' = o /\ curLen' = len
                 /\ leaked' = IF Leaky THEN eff ELSE leaked
                 /\ buffer' = [i \in 1..len |-> IF i > CfgOffset /\ i <= CfgOffset + CfgLen
                                                THEN packed[i - CfgOffset - 1] ELSE im[i]]
                 /\ wire' = << Header(CmdStart, 0, 0, NBlocks(len) - 1) >>
        /\ phase' = "blocks" /\ nextBlock' = 0 /\ clock' = clock + 1
        /\ UNCHANGED <<bootNo, history>>

SendBlock == /\ phase = "blocks" /\ nextBlock * BlockBytes < Len(buffer)
             /\ LET lo   == nextBlock * BlockBytes + 1
                    hi   == Min(Len(buffer), (nextBlock + 1) * BlockBytes)
                    data == SubSeq(buffer, lo, hi)
                IN wire' = Append(wire, Header(CmdBlock, (BlockBytes \div 4 - 1) * 256 + nextBlock, 0, 0)
                                        \o SwapWords(data))
             /\ nextBlock' = nextBlock + 1
             /\ UNCHANGED <<phase, bootNo, curOpts, curLen, buffer, history, leaked, clock>>

SendEnd == /\ phase = "blocks" /\ nextBlock * BlockBytes >= Len(buffer)
           /\ wire' = Append(wire, Header(CmdEnd, 1, 0, 0))
           /\ phase' = "sent"
           /\ UNCHANGED <<bootNo, curOpts, curLen, buffer, nextBlock, history, leaked, clock>>

Return == /\ phase = "sent"
          /\ history' = Append(history, HistEntry(curOpts, wire))
          /\ bootNo' = bootNo + 1 /\ phase' = "idle" /\ wire' = <<>>
          /\ UNCHANGED <<curOpts, curLen, buffer, nextBlock, leaked, clock>>

DNext == Call \/ SendBlock \/ SendEnd \/ Return
DSpec == DInit /\ [][DNext]_vars /\ WF_vars(DNext)

-----------------------------------------------------------------------------
Clauses == BootClauses(DTable, curOpts, ImageOf(curLen), wire, history)

\* when the end command is out, everything the property says about one boot holds
InvStartAnnouncesBlocks == phase = "sent" => Clauses.StartAnnouncesBlocks
InvBlocksConsecutive    == phase = "sent" => Clauses.BlocksConsecutive
InvEndAfterBlocks       == phase = "sent" => Clauses.EndAfterBlocks
InvImageReassembles     == phase = "sent" => Clauses.ImageReassembles
InvConfigIsDefaultsPlusOptions == phase = "sent" => Clauses.ConfigIsDefaultsPlusOptions
InvOnlyOwnOptions       == phase = "sent" => Clauses.OnlyOwnOptions
InvConfigDependsOnOwnOptionsOnly == phase = "sent" => Clauses.ConfigDependsOnOwnOptionsOnly
\* while blocks are going out the wire is a proper prefix: start, then blocks 0..nextBlock-1
InvPrefix == phase = "blocks" =>
                /\ Len(wire) = nextBlock + 1 /\ Cmd(wire[1]) = CmdStart
                /\ \A i \in 1..nextBlock : Cmd(wire[i + 1]) = CmdBlock /\ Arg1(wire[i + 1]) % 256 = i - 1
                /\ nextBlock <= NBlocks(curLen)
\* an unfinished boot is never mistaken for a complete one
InvIncompleteRejected == (phase = "blocks" /\ Len(wire) >= 2) => ~Clauses.EndAfterBlocks
TableUsable == TableOk(DTable)

HistoryAppendOnly == [][Len(history') >= Len(history) /\ SubSeq(history', 1, Len(history)) = history]_vars
Finishes == <>(bootNo = MaxBoots /\ phase = "idle")
=============================================================================
