----------------------------- MODULE LoadAppSim -----------------------------
(***************************************************************************)
(* Behaviours of LoadAppDesign for replay into rig (job R of C09): the     *)
(* design machine at a larger size than the exhaustive job (3-4 chips,     *)
(* 3-4 cores, 2-3 binaries of 1-3 blocks, up to 4 attempts) with a history *)
(* variable recording what the ENVIRONMENT and the CALLER chose: for every *)
(* fill of every attempt which chips missed it (and, as the prediction to  *)
(* compare with, which cores the loader addressed in it), the condition of *)
(* the cores after every attempt, whether the caller asked to wait.  The   *)
(* remaining choices (which cores are requested for which binary, how many *)
(* blocks a binary has, cores already waiting from earlier loads,          *)
(* verification mode, n_tries) are variables of the design that never      *)
(* change after its initial state; Emit prints them with the history.      *)
(*                                                                         *)
(* TLC's simulator enumerates all initial states before it draws one, and  *)
(* DInit has 4^12 * ... of them at this size, so the scenario is drawn in  *)
(* a setup phase (phase = "setup", in which no action of the design is     *)
(* enabled): first the block counts of the binaries, then core by core     *)
(* whether it is requested, for which binary, and what it held before;     *)
(* SetupDone is enabled only if the state it produces satisfies DInit      *)
(* (the conjunct DInit').  From there on every                             *)
(* step is a step of DNext, so the part of a behaviour after SetupDone IS  *)
(* a behaviour of LoadAppDesign (the design's invariants are checked along *)
(* it again).  A finished behaviour is printed as one INFO line of JSON    *)
(* and replayed through the real MachineController.load_application;       *)
(* LoadAppReplayTrace.tla compares what the real call did with this line.  *)
(***************************************************************************)
EXTENDS LoadAppDesign, Json, SequencesExt, FiniteSetsExt

CONSTANTS Sparsity          \* weights of "this core is not requested" in the setup phase (variety of map density)

VARIABLES simHist,          \* [wait, nbins, sparse, fills, after]
          setupPos          \* cores decided so far in the setup phase

svars == <<targetOf, blocksOf, nTries, useCount, waitFlag, coreTab, coreTab0, attemptNo, unloadedMap, todoBins,
           fillNow, pidCtr, rxTab, phase, errCores, simHist, setupPos>>

NPos == NChips * NCores
CoreAtPos(k) == <<((k - 1) \div NCores) + 1, ((k - 1) % NCores) + 1>>
EarlierNow == Cardinality({ c \in AllCores : coreTab[c] # IdleCore })
UsedBins == { targetOf[c] : c \in AllCores } \ {0}
\* non-idle cores as <<chip, core, state, app, binary of the image>>
NonIdle(tab) == SetToSeq({ <<c[1], c[2], tab[c].state, tab[c].app, tab[c].img[1]>> : c \in { k \in AllCores : tab[k] # IdleCore } })

SInit ==
    /\ nTries \in NTriesSet /\ useCount \in CountModes /\ waitFlag = FALSE
    /\ blocksOf = [bn \in Bins |-> 1]
    /\ \E w \in BOOLEAN, nb \in Bins, sp \in Sparsity :
          simHist = [wait |-> w, nbins |-> nb, sparse |-> sp, fills |-> <<>>, after |-> <<>>]
    /\ targetOf = [c \in AllCores |-> 0]
    /\ coreTab = [c \in AllCores |-> IdleCore] /\ coreTab0 = coreTab
    /\ attemptNo = 0 /\ unloadedMap = EmptyMap /\ todoBins = {} /\ fillNow = NoFill /\ pidCtr = PidMod - 1
    /\ rxTab = [ch \in ChipIds |-> RxOff]
    /\ phase = "setup" /\ errCores = {}
    /\ setupPos = -1

\* first the shapes of the binaries that may be used (the others keep the one shape DInit allows them)
SetupBlocks ==
    /\ phase = "setup" /\ setupPos = -1
    /\ \E bo \in [Bins -> 1..MaxBlocks] : (\A bn \in Bins : bn > simHist.nbins => bo[bn] = 1) /\ blocksOf' = bo
    /\ setupPos' = 0
    /\ UNCHANGED <<targetOf, nTries, useCount, waitFlag, coreTab, coreTab0, attemptNo, unloadedMap, todoBins, fillNow,
                   pidCtr, rxTab, phase, errCores, simHist>>

\* what may be decided for the next core: <<binary or 0, condition before the call, weight index>>
\* (binaries are taken into use in order, as DInit demands; a core outside the request may wait with another binary
\*  only when cores are verified one by one; a requested core may already hold the binary requested for it)
SetupOptions ==
    LET room == EarlierNow < MaxEarlier
        top == IF UsedBins = {} THEN 1 ELSE Min({simHist.nbins, Max(UsedBins) + 1}) IN
    { <<0, "idle", w>> : w \in 1..simHist.sparse }
    \cup (IF room /\ ~useCount THEN { <<0, "other", 1>> } ELSE {})
    \cup { <<bn, "idle", w>> : bn \in 1..top, w \in 1..2 }
    \cup (IF room THEN { <<bn, "same", 1>> : bn \in 1..top } ELSE {})

SetupCore ==
    /\ phase = "setup" /\ setupPos >= 0 /\ setupPos < NPos
    /\ \E opt \in SetupOptions :
          LET c == CoreAtPos(setupPos + 1) IN
          /\ targetOf' = [targetOf EXCEPT ![c] = opt[1]]
          /\ coreTab' = [coreTab EXCEPT ![c] = CASE opt[2] = "idle" -> IdleCore
                                                 [] opt[2] = "same" -> EarlierSame(opt[1])
                                                 [] opt[2] = "other" -> EarlierOther]
          /\ coreTab0' = coreTab'
    /\ setupPos' = setupPos + 1
    /\ UNCHANGED <<blocksOf, nTries, useCount, waitFlag, attemptNo, unloadedMap, todoBins, fillNow, pidCtr, rxTab, phase,
                   errCores, simHist>>

SetupDone ==
    /\ phase = "setup" /\ setupPos = NPos
    /\ blocksOf' = [bn \in Bins |-> IF TargetsOfBin(bn) = {} THEN 1 ELSE blocksOf[bn]]
    /\ unloadedMap' = NonEmpty([bn \in Bins |-> TargetsOfBin(bn)])
    /\ phase' = "loop"
    /\ UNCHANGED <<targetOf, nTries, useCount, waitFlag, coreTab, coreTab0, attemptNo, todoBins, fillNow, pidCtr, rxTab,
                   errCores, simHist, setupPos>>
    /\ DInit'                        \* the scenario drawn is an initial state of the design

\* the design's steps, the environment's and the caller's choices recorded
RunStep ==
    \/ /\ \E bn \in Bins, missing \in SUBSET ChipIds :
             /\ FFStart(bn, missing)
             /\ simHist' = [simHist EXCEPT !.fills = Append(@, [att |-> attemptNo, bin |-> bn, miss |-> SetToSeq(missing),
                                                                cores |-> SetToSeq(unloadedMap[bn])])]
    \/ /\ (VerifyByCount \/ VerifyPerCore)
       /\ simHist' = [simHist EXCEPT !.after = Append(@, NonIdle(coreTab))]
    \/ /\ (BeginAttempt \/ RaiseError \/ Finish(simHist.wait) \/ FFSelect \/ FFData \/ FFEnd)
       /\ UNCHANGED simHist

SNext == \/ SetupBlocks \/ SetupCore \/ SetupDone
         \/ phase # "setup" /\ RunStep /\ UNCHANGED setupPos
SSpec == SInit /\ [][SNext]_svars

\* evaluated as an invariant: prints a finished behaviour (scenario, history, where the design ended)
Emit == (phase \in {"returned", "raised"}) =>
    PrintT("INFO|" \o ToJson(
        [nchips |-> NChips, ncores |-> NCores, appid |-> AppId, otherbin |-> OtherBin,
         ntries |-> nTries, usecount |-> IF useCount THEN 1 ELSE 0, wait |-> IF simHist.wait THEN 1 ELSE 0,
         blocks |-> [bn \in Bins |-> blocksOf[bn]],
         targets |-> SetToSeq({ <<c[1], c[2], targetOf[c]>> : c \in Requested }),
         init |-> NonIdle(coreTab0),
         fills |-> simHist.fills, after |-> simHist.after,
         attempts |-> attemptNo, outcome |-> phase,
         err |-> SetToSeq({ <<c[1], c[2], targetOf[c]>> : c \in errCores }),
         final |-> NonIdle(coreTab)]))
=============================================================================
