------------------------------ MODULE History ------------------------------
(***************************************************************************)
(* Histories of library calls made by ONE process (C17).                   *)
(*                                                                         *)
(* Written from the property statement: a call of a library function       *)
(*   - leaves the objects passed to it unchanged,                          *)
(*   - returns, for the same arguments and the same seeded random          *)
(*     generator, the same result whatever was called before in the        *)
(*     process - in particular the result the same call gives when it is   *)
(*     the very first call of a fresh interpreter,                         *)
(* and from the mechanisms the statement names as the places where a       *)
(* process can remember: default arguments that are dictionaries, sets or  *)
(* lists (they must stay as they were when the module was imported) and    *)
(* the memo of hexagon rings keyed by radius (it may only ever gain        *)
(* entries, and the entry for radius r is the ring of radius r).           *)
(*                                                                         *)
(* Nothing here knows what any function computes.  Values are compared for *)
(* equality only, so they may travel as digests (strings) in traces of the *)
(* real library and as the values themselves in the design model.          *)
(*                                                                         *)
(* A call is a record                                                      *)
(*    fn      name of the function                                         *)
(*    seed    seed of the random generator(s) the call may draw from       *)
(*    args    sequence of <<parameter, value before, value after>>         *)
(*    res     the result (or the class of the exception raised)            *)
(*    defs    set of <<default-argument name, value before, value after>>  *)
(*            for every mutable default-argument object of the library     *)
(*    cbefore, cafter   the ring memo before / after: set of               *)
(*            <<radius, entry>>                                            *)
(*    cring   set of <<radius, ring of that radius>> for every radius in   *)
(*            the memo after the call                                      *)
(* A probe is a call that additionally carries                             *)
(*    fresh      the result of the same call made first in a fresh         *)
(*               interpreter                                               *)
(*    freshdefs  set of <<default-argument name, value>> in that fresh     *)
(*               interpreter before the call                               *)
(*                                                                         *)
(* The abstract state of a history:                                        *)
(*    memo      set of <<key, result>>: first result seen for a key        *)
(*    defaults  set of <<name, value>>: first value seen for a default     *)
(*    cache     the ring memo after the latest call                        *)
(*    n, probes number of calls / probes so far                            *)
(***************************************************************************)
EXTENDS Integers, Sequences, FiniteSets, TLC

SeqSet(q) == { q[i] : i \in 1..Len(q) }

EmptyHistory == [memo |-> {}, defaults |-> {}, cache |-> {}, n |-> 0, probes |-> 0]

\* what "the same call" means: the same function, the same value of every argument (as it was when
\* the call was made) and the same seed
Key(call) == <<call.fn, [i \in 1..Len(call.args) |-> <<call.args[i][1], call.args[i][2]>>], call.seed>>

Known(hist, name) == \E d \in hist.defaults : d[1] = name

CallClauses(hist, call) ==
  [ \* the objects passed to the call are afterwards what they were before
    ArgsUnchanged       |-> \A a \in SeqSet(call.args) : a[2] = a[3],
    \* no call modifies a mutable default argument ...
    DefaultsUnchanged   |-> \A d \in call.defs : d[2] = d[3],
    \* ... and nothing else did since the process started
    DefaultsAsAtStart   |-> \A d \in call.defs : \A s \in hist.defaults : s[1] = d[1] => s[2] = d[2],
    \* the memo never loses or alters an entry: not during a call, not between calls
    CacheOnlyGains      |-> hist.cache \subseteq call.cbefore /\ call.cbefore \subseteq call.cafter,
    \* every entry is the ring of its radius
    CacheEntriesCorrect |-> call.cafter \subseteq call.cring,
    \* the same call made earlier in this history gave the same result
    Functional          |-> \A m \in hist.memo : m[1] = Key(call) => m[2] = call.res ]

ProbeClauses(hist, call) ==
  CallClauses(hist, call) @@
  [ \* ... and so did the same call made first in a fresh interpreter
    FreshAgrees         |-> call.fresh = call.res,
    \* the default arguments this process sees are those a fresh interpreter sees
    DefaultsAsFresh     |-> \A d \in call.defs : \A f \in call.freshdefs : f[1] = d[1] => f[2] = d[2] ]

ApplyCall(hist, call, isProbe) ==
  [ memo     |-> hist.memo \cup { <<Key(call), call.res>> },
    defaults |-> hist.defaults \cup { <<d[1], d[2]>> : d \in { d \in call.defs : ~Known(hist, d[1]) } },
    cache    |-> call.cafter,
    n        |-> hist.n + 1,
    probes   |-> hist.probes + (IF isProbe THEN 1 ELSE 0) ]

\* invariant of the abstract state: the memo is a function of the key
MemoIsFunction(hist) == \A m1, m2 \in hist.memo : m1[1] = m2[1] => m1[2] = m2[2]
=============================================================================
