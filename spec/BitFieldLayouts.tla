--------------------------- MODULE BitFieldLayouts ---------------------------
(***************************************************************************)
(* Layouts of a bit field as predicates (replay job of C08).               *)
(*                                                                         *)
(* BitFieldDesign.tla defines the layouts assign_fields may produce as a   *)
(* SET (ValidLayouts: every assignment of positions, filtered), which is   *)
(* the clearest way to say it but can only be enumerated for a handful of  *)
(* bits and fields.  The replay job works at 8 bits and 6 fields, and asks *)
(* two questions of it: "is THIS layout one of them?" and "is there any?". *)
(* Both are written here as predicates; the job BitFieldSim_agree.cfg      *)
(* checks exhaustively, at a small scope, that they say what the set says  *)
(* (ExactLayout(lay) <=> lay \in ValidLayouts, HasLayout <=> set # {}).    *)
(*                                                                         *)
(* F is a set of field records, lay a set of layout entries, nbits the     *)
(* length of the bit field (records as in BitField.tla).                   *)
(***************************************************************************)
EXTENDS BitField

\* the documentation promises an automatic-length field "a length long enough for the largest value
\* assigned"; an explicit length is the length
LenAllowed(f, x) == IF f.flen > 0 THEN x.len = f.flen ELSE x.len >= f.need
\* one entry for every field and no other, explicit positions and lengths honoured, automatic lengths
\* sufficient, everything inside the bit field, fields that can be present together disjoint
AllowedLayout(lay, F, nbits) ==
    /\ Cardinality(lay) = Cardinality(F)
    /\ \A f \in F : \E x \in lay : /\ SameField(x, f) /\ LenAllowed(f, x)
                                  /\ (f.fstart >= 0 => x.loc = f.fstart)
    /\ \A x \in lay : \E f \in F : SameField(x, f)
    /\ LayoutDisjoint(lay, nbits)
\* ... and no automatic-length field wider than it needs to be: the layouts of BitFieldDesign!ValidLayouts
ExactLayout(lay, F, nbits) ==
    /\ AllowedLayout(lay, F, nbits)
    /\ \A f \in F : \A x \in lay : SameField(x, f) => x.len = Width(f)

\* is there a layout at all?  (One with sufficient lengths can be narrowed to one with the exact lengths.)
\*  Fields are placed one after the other (explicitly positioned ones first, then
\* the widest), each at every position that keeps it clear of the compatible fields placed before.
NextToPlace(todo) ==
    LET fixed == { f \in todo : f.fstart >= 0 }
        pool == IF fixed # {} THEN fixed ELSE todo
    IN  CHOOSE f \in pool : \A g \in pool : Width(g) <= Width(f)
RECURSIVE CanPlaceAll(_, _, _)
CanPlaceAll(todo, lay, nbits) ==
    IF todo = {} THEN TRUE
    ELSE LET f == NextToPlace(todo)
             n == Width(f)
         IN  \E b \in 0..(nbits - n) :
                /\ f.fstart >= 0 => b = f.fstart
                /\ \A y \in lay : Compatible(y.cond, f.cond) => Disjoint(b, n, y.loc, y.len)
                /\ CanPlaceAll(todo \ {f}, lay \cup {[id |-> f.id, cond |-> f.cond, loc |-> b, len |-> n]}, nbits)
\* (fields that can be present together need the sum of their widths: said first, it spares most of the search)
HasLayout(F, nbits) == (F = {} \/ Fits(F, nbits)) /\ CanPlaceAll(F, {}, nbits)
=============================================================================
