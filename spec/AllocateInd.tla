----------------------------- MODULE AllocateInd -----------------------------
(***************************************************************************)
(* C05, Apalache: an INDUCTIVE invariant of the greedy scan (AllocateScan) *)
(* for unbounded capacity, request sizes, reservation positions and        *)
(* alignment - the bounds TLC's exhaustive job (AllocateDesign: Cap <= 7,  *)
(* sizes <= 3) cannot lift.  Only the lengths of the three sequences are   *)
(* bounded (<= 3 reservations, requests, grants: Gen(3)).                  *)
(*                                                                         *)
(*   apalache-mc check --cinit=ConstInit --init=IndInit --next=DNext       *)
(*                     --inv=IndInv --length=1 AllocateInd.tla             *)
(* checks IndInit => IndInv (length 0) and IndInv /\ DNext => IndInv'      *)
(* (length 1);  --init=StartInit --inv=IndInv --length=0 checks that the   *)
(* scan's real initial states satisfy it.  IndInv => Sound by conjunct.    *)
(***************************************************************************)
EXTENDS AllocateScan, Apalache

ConstInit == Cap \in Nat

TypeOK ==
    /\ Len(res) <= 3 /\ Len(reqs) <= 3 /\ Len(given) <= 3
    /\ \A i \in DOMAIN res : 0 <= res[i][1] /\ res[i][1] < res[i][2] /\ res[i][2] <= Cap
    /\ \A i \in DOMAIN reqs : reqs[i] >= 0
    /\ al >= 1 /\ ptr >= 0 /\ idx >= 1 /\ idx <= Len(reqs) + 1
    /\ phase \in {"scan", "done", "failed"}
    /\ laststart >= -1

IndInv ==
    /\ TypeOK
    /\ Len(given) = idx - 1
    /\ Sound
    /\ \A i \in DOMAIN given : given[i][2] <= ptr       \* everything granted lies below the bump pointer

IndInit ==
    /\ res = Gen(3) /\ reqs = Gen(3) /\ given = Gen(3)
    /\ al = Gen(1) /\ ptr = Gen(1) /\ idx = Gen(1) /\ laststart = Gen(1)
    /\ phase \in {"scan", "done", "failed"}
    /\ IndInv

\* the states the scan really starts in (any reservations, requests and alignment)
StartInit ==
    /\ res = Gen(3) /\ reqs = Gen(3) /\ al = Gen(1)
    /\ \A i \in DOMAIN res : 0 <= res[i][1] /\ res[i][1] < res[i][2] /\ res[i][2] <= Cap
    /\ \A i \in DOMAIN reqs : reqs[i] >= 0
    /\ al >= 1
    /\ ptr = 0 /\ idx = 1 /\ given = <<>> /\ phase = "scan" /\ laststart = -1

\* a WRONG scan, expected to be refuted: on overlap the pointer is advanced by one unit only when the proposal is
\* granted without re-checking (the grant happens although a reservation overlaps)
GrantUnchecked == /\ phase = "scan" /\ idx <= Len(reqs) /\ Proposal[2] <= Cap
                  /\ given' = Append(given, Proposal) /\ ptr' = Proposal[2] /\ idx' = idx + 1
                  /\ laststart' = -1
                  /\ UNCHANGED <<res, reqs, al, phase>>
WrongNext == Fail \/ Skip \/ GrantUnchecked \/ Done
=============================================================================
