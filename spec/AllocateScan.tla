---------------------------- MODULE AllocateScan ----------------------------
(***************************************************************************)
(* The greedy scan of C05 as rig codes it - a bump pointer aligned         *)
(* upwards; on overlap with reservations jump to the stop of the LAST      *)
(* overlapping reservation in list order and retry.  Each loop iteration   *)
(* is one action.  Shared by AllocateDesign (TLC, exhaustive at small      *)
(* constants) and AllocateInd (Apalache, inductive invariant for unbounded *)
(* capacity and request sizes).                                            *)
(***************************************************************************)
EXTENDS Allocate

CONSTANTS
    \* @type: Int;
    Cap

VARIABLES
    \* @type: Seq(<<Int, Int>>);
    res,      \* sequence of reserved ranges (list order matters to the algorithm)
    \* @type: Seq(Int);
    reqs,     \* sequence of request sizes
    \* @type: Int;
    al,       \* alignment
    \* @type: Int;
    ptr,
    \* @type: Int;
    idx,
    \* @type: Seq(<<Int, Int>>);
    given,
    \* @type: Str;
    phase,
    \* @type: Int;
    laststart

vars == <<res, reqs, al, ptr, idx, given, phase, laststart>>

\* @type: <<Int, Int>>;
Proposal == LET s == AlignUp(ptr, al) IN <<s, s + reqs[idx]>>
Overlapping == { i \in DOMAIN res : Overlap(Proposal, res[i]) }
MaxOfSet(S) == CHOOSE m \in S : \A n \in S : n <= m

\* one iteration of the while loop
Fail == /\ phase = "scan" /\ idx <= Len(reqs) /\ Proposal[2] > Cap
        /\ phase' = "failed" /\ UNCHANGED <<res, reqs, al, ptr, idx, given, laststart>>
Skip == /\ phase = "scan" /\ idx <= Len(reqs) /\ Proposal[2] <= Cap /\ Overlapping # {}
        /\ ptr' = res[MaxOfSet(Overlapping)][2]          \* the last overlapping one in list order wins
        /\ laststart' = Proposal[1]
        /\ UNCHANGED <<res, reqs, al, idx, given, phase>>
Grant == /\ phase = "scan" /\ idx <= Len(reqs) /\ Proposal[2] <= Cap /\ Overlapping = {}
         /\ given' = Append(given, Proposal) /\ ptr' = Proposal[2] /\ idx' = idx + 1
         /\ laststart' = -1
         /\ UNCHANGED <<res, reqs, al, phase>>
Done == /\ phase = "scan" /\ idx > Len(reqs) /\ phase' = "done"
        /\ UNCHANGED <<res, reqs, al, ptr, idx, given, laststart>>
DNext == Fail \/ Skip \/ Grant \/ Done

\* @type: Set(<<Int, Int>>);
ResSet == { res[i] : i \in DOMAIN res }
Sound == \A i \in DOMAIN given :
            /\ RLen(given[i]) = reqs[i] /\ Within(given[i], Cap) /\ AlignedTo(given[i], al)
            /\ \A r \in ResSet : ~Overlap(given[i], r)
            /\ \A j \in DOMAIN given : i # j => ~Overlap(given[i], given[j])
=============================================================================
