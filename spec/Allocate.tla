------------------------------ MODULE Allocate ------------------------------
(***************************************************************************)
(* Resource allocation on one chip (C05): half-open integer ranges.        *)
(***************************************************************************)
EXTENDS Integers, Sequences, FiniteSets, TLC

\* ranges are <<start, stop>>, half open
\* (the type annotations are for Apalache, which checks AllocateInd.tla; TLC ignores them)
\* @type: (<<Int, Int>>) => Int;
RLen(r) == r[2] - r[1]
\* @type: (<<Int, Int>>, <<Int, Int>>) => Bool;
Overlap(a, b) == (IF a[1] > b[1] THEN a[1] ELSE b[1]) < (IF a[2] < b[2] THEN a[2] ELSE b[2])
\* @type: (<<Int, Int>>, Int) => Bool;
Within(r, cap) == 0 <= r[1] /\ r[1] <= r[2] /\ r[2] <= cap
\* @type: (<<Int, Int>>, Int) => Bool;
AlignedTo(r, al) == r[1] % al = 0
AlignUp(v, al) == ((v + al - 1) \div al) * al
\* units of 0..cap-1 not covered by any reservation in the set R
\* @type: (Set(<<Int, Int>>), Int) => Int;
FreeUnits(R, cap) == Cardinality({ i \in 0..(cap - 1) : \A r \in R : ~(r[1] <= i /\ i < r[2]) })
\* every reservation sits at one end of 0..cap
\* @type: (Set(<<Int, Int>>), Int) => Bool;
OnlyAtEnds(R, cap) == \A r \in R : r[1] = 0 \/ r[2] = cap
=============================================================================
