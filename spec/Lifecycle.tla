----------------------------- MODULE Lifecycle -----------------------------
(***************************************************************************)
(* The life cycle of one application on a SpiNNaker machine, from probing  *)
(* the machine to stopping the application (beyond the listed properties;  *)
(* hosted by the C09 check).  The machine is the machine of Session.tla    *)
(* (cores, SDRAM blocks with tags, router positions and entries, IP tags,  *)
(* what each signal does); this module adds what a WHOLE deployment        *)
(* promises, written from rig's documentation:                             *)
(*                                                                         *)
(*  get_system_info   "discover the integrity and resource availability":  *)
(*      per working chip the number of cores, the state of each core, the  *)
(*      largest free block of SDRAM and of multicast router entries.       *)
(*  place_and_route_wrapper(..., system_info)   "ensure placement,         *)
(*      allocation and routing only use working and unused chips, cores,   *)
(*      memory and links"; "restrict placement and allocation to only idle *)
(*      cores"; tables are minimised to the space available.               *)
(*  with mc.application(app_id):   "all commands in this block will use    *)
(*      app_id"; "on leaving the block send_signal('stop') is              *)
(*      automatically called" - however the block is left.                 *)
(*  sdram_alloc / load_routing_tables   "all unfreed SDRAM allocations     *)
(*      associated with an application are automatically freed when the    *)
(*      'stop' signal is sent"; "the routing table entries will be removed *)
(*      automatically when the associated application is stopped".         *)
(*                                                                         *)
(* A probe pr is a set of <<x, y, idle, sdram, rtr>>: the chips that       *)
(* answered, the set of their application cores reported idle, the free    *)
(* SDRAM and the free router entries reported.                             *)
(* Grants gr = what the calls made so far in this life cycle asked the     *)
(* machine for in the application's name:                                  *)
(*    cores   set of <<x, y, p>>           (load_application's targets)    *)
(*    blocks  set of <<x, y, size, tag>>   (sdram_alloc_for_vertices)      *)
(*    ents    sequence of <<x, y, count>>  (load_routing_tables)           *)
(***************************************************************************)
EXTENDS Session

\* ------------------------------------------------------------------ the probe
\* what a probe of the machine in state s must report
ProbeOf(s, chips, heap) ==
    { <<ch[1], ch[2], { p \in 1..(ch[3] - 1) : CoreSt(s, <<ch[1], ch[2], p>>)[1] = StIdle },
        heap - BrkOf(s, ch[1], ch[2]), LargestFree(s, ch[1], ch[2])>> : ch \in chips }
PrOn(pr, x, y) == { c \in pr : c[1] = x /\ c[2] = y }
PrIdle(pr) == UNION { { <<c[1], c[2], p>> : p \in c[3] } : c \in pr }
PrSdram(pr, x, y) == IF PrOn(pr, x, y) = {} THEN 0 ELSE (CHOOSE c \in PrOn(pr, x, y) : TRUE)[4]
PrRtr(pr, x, y) == IF PrOn(pr, x, y) = {} THEN 0 ELSE (CHOOSE c \in PrOn(pr, x, y) : TRUE)[5]

\* ------------------------------------------------------------------ grants
NoGrants == [cores |-> {}, blocks |-> {}, ents |-> <<>>]
EntsGranted(gr, x, y) ==
    FoldLeft(LAMBDA acc, g : IF g[1] = x /\ g[2] = y THEN acc + g[3] ELSE acc, 0, gr.ents)

HeldCores(s, app) == { <<c[1], c[2], c[3]>> : c \in { d \in s.core : d[5] = app } }
RtrHeld(s, app, x, y) ==
    Cardinality({ o[3] : o \in { q \in s.own : q[1] = x /\ q[2] = y /\ q[4] = app } }
                \cup { e[3] : e \in { f \in s.ent : f[1] = x /\ f[2] = y /\ f[4] = app } })
XYs(s, app) == { <<o[1], o[2]>> : o \in { q \in s.own : q[4] = app } } \cup { <<e[1], e[2]>> : e \in { f \in s.ent : f[4] = app } }

\* Everything the application holds was granted to it by a call of this life cycle and lies inside what the
\* probe reported as free: its cores were reported idle, its blocks lie in the SDRAM reported free (the heap is
\* handed out from the break upwards: the free part reported is the top of the heap), it holds no more router
\* positions on a chip than were reported free there.
OnlyFreeResourcesUsed(s, heap, app, pr, gr) ==
    /\ HeldCores(s, app) \subseteq gr.cores
    /\ HeldCores(s, app) \subseteq PrIdle(pr)
    /\ \A b \in s.alloc : b[6] = app =>
          /\ <<b[1], b[2], b[4], b[5]>> \in gr.blocks
          /\ b[3] >= heap - PrSdram(pr, b[1], b[2]) /\ b[3] + b[4] <= heap
    /\ \A xy \in XYs(s, app) : /\ RtrHeld(s, app, xy[1], xy[2]) <= EntsGranted(gr, xy[1], xy[2])
                               /\ RtrHeld(s, app, xy[1], xy[2]) <= PrRtr(pr, xy[1], xy[2])

\* ------------------------------------------------------------------ the others
\* everything on the machine that is not held in the application's name
Others(s, app) == [core  |-> { c \in s.core : c[5] # app },  alloc |-> { b \in s.alloc : b[6] # app },
                   own   |-> { o \in s.own : o[4] # app },   ent   |-> { e \in s.ent : e[4] # app },
                   iptag |-> s.iptag]
Isolated(s, s0, app) == Others(s, app) = Others(s0, app)
NothingLeft(s, app) == Holdings(s, app) = NoHoldings

\* a signal moves exactly the cores of its application that are in the matching state (s -> t)
SignalMoves(name, state) ==
    CASE name = "sync0" /\ state = StSync0 -> StRun
      [] name = "sync1" /\ state = StSync1 -> StRun
      [] name = "start" /\ state = StWait  -> StRun
      [] name = "pause" /\ state = StRun   -> StPause
      [] name = "cont"  /\ state = StPause -> StRun
      [] OTHER -> state
ReleasesExactly(s, t, name, app) ==
    name \in {"sync0", "sync1", "start", "pause", "cont"} =>
        /\ \A c \in s.core : CoreSt(t, <<c[1], c[2], c[3]>>) =
                                <<IF c[5] = app THEN SignalMoves(name, c[4]) ELSE c[4], c[5]>>
        /\ Cardinality(t.core) = Cardinality(s.core)

\* ------------------------------------------------------------------ contents of the application's blocks
\* A block's contents as far as the trace determines them: a sequence of bytes, -1 where nothing is known.
Unknown(n) == [i \in 1..n |-> 0 - 1]
Zeros(n) == [i \in 1..n |-> 0]
Put(old, pos, data) == [i \in 1..Len(old) |-> IF i > pos /\ i <= pos + Len(data) THEN data[i - pos] ELSE old[i]]
Agrees(data, known) == /\ Len(data) = Len(known)
                       /\ \A i \in 1..Len(data) : known[i] = 0 - 1 \/ data[i] = known[i]
=============================================================================
