-------------------------------- MODULE Boot --------------------------------
(***************************************************************************)
(* Booting a SpiNNaker board over UDP (C20): what one boot has to put on   *)
(* the wire, and what a history of boots from one process may not do.      *)
(*                                                                         *)
(* Written from the property statement, the protocol notes in the          *)
(* BootCommand docstrings of rig/machine_control/boot.py and the bundled   *)
(* rig/boot/sark.struct - not from the way boot() computes things.         *)
(*                                                                         *)
(* Everything is a sequence of bytes (0..255).  32-bit quantities that may *)
(* exceed TLC's integers travel as 4-byte sequences.                       *)
(*                                                                         *)
(* Datagram layout ("!H4I", network byte order), 18 bytes of header:       *)
(*    bytes  1.. 2   protocol version = 1                                  *)
(*    bytes  3.. 6   command: 1 start, 3 send block, 5 end                 *)
(*    bytes  7..10   arg1   (block: bits 7:0 = block number,               *)
(*                           bits 31:8 = words in the block - 1; end: 1)   *)
(*    bytes 11..14   arg2                                                  *)
(*    bytes 15..18   arg3   (start: number of blocks - 1)                  *)
(*    bytes 19..     data, each 32-bit word of the image sent big-endian,  *)
(*                   i.e. the four bytes of every image word reversed      *)
(*                                                                         *)
(* BlockBytes, CfgOffset, CfgLen are 1024, 384, 128 for the real protocol; *)
(* the design job shrinks them.                                            *)
(***************************************************************************)
EXTENDS Integers, Sequences, FiniteSets, TLC

CONSTANTS BlockBytes,   \* most data bytes one block may carry (a multiple of 4)
          CfgOffset,    \* offset of the configuration area in the image
          CfgLen        \* length of the configuration area

HeaderLen == 18
CmdStart == 1
CmdBlock == 3
CmdEnd   == 5

Pow256(n) == IF n = 0 THEN 1 ELSE IF n = 1 THEN 256 ELSE IF n = 2 THEN 65536 ELSE 16777216
\* byte number i (0 = least significant) of a value below 2^31
LEByte(v, i) == (v \div Pow256(i)) % 256
LE4(v) == <<LEByte(v, 0), LEByte(v, 1), LEByte(v, 2), LEByte(v, 3)>>
\* big-endian 32-bit field starting at byte i of datagram d, for values below 2^31 (else -1)
BE32At(d, i) == IF i + 3 > Len(d) \/ d[i] >= 128 THEN -1
                ELSE ((d[i] * 256 + d[i+1]) * 256 + d[i+2]) * 256 + d[i+3]
Version(d) == IF Len(d) < 2 THEN -1 ELSE d[1] * 256 + d[2]
Cmd(d)  == BE32At(d, 3)
Arg1(d) == BE32At(d, 7)
Arg3(d) == BE32At(d, 15)
DataLen(d) == Len(d) - HeaderLen

\* number of blocks an image of n bytes needs
NBlocks(n) == (n + BlockBytes - 1) \div BlockBytes

(***************************************************************************)
(* The data of one block datagram with the word-wise byte swap undone.     *)
(***************************************************************************)
Unswap(d) == [i \in 1..(IF DataLen(d) > 0 /\ DataLen(d) % 4 = 0 THEN DataLen(d) ELSE 0) |->
                 d[HeaderLen + 4 * ((i - 1) \div 4) + (3 - ((i - 1) % 4)) + 1]]
\* concatenation of the un-swapped data of datagrams lo..hi of dg (by halving: no deep recursion)
RECURSIVE Flatten(_, _, _)
Flatten(dg, lo, hi) == IF lo > hi THEN <<>>
                       ELSE IF lo = hi THEN Unswap(dg[lo])
                       ELSE LET mid == (lo + hi) \div 2
                            IN Flatten(dg, lo, mid) \o Flatten(dg, mid + 1, hi)
\* what the board reassembles from a datagram sequence: everything between the first and the last
Reassembled(dg) == Flatten(dg, 2, Len(dg) - 1)
\* the configuration area of a reassembled image (positions 0..CfgLen-1), -1 where nothing was sent
CfgOf(img) == [p \in 0..(CfgLen - 1) |-> IF CfgOffset + p + 1 <= Len(img) THEN img[CfgOffset + p + 1] ELSE -1]

(***************************************************************************)
(* System variables.  A table is a sequence of lines                       *)
(*    <<name, bytes per element, offset, default (< 2^31), elements>>      *)
(* as the struct file documents them; an array line packs only its first   *)
(* element.  Options are a function  name -> 4 little-endian bytes.        *)
(* Fields that boot itself fills in (the clock and the root-chip mark) are *)
(* not part of the property: they are masked wherever areas are compared.  *)
(***************************************************************************)
BootManaged == {"unix_time", "boot_sig", "root_chip"}

LineAt(tbl, p) == {k \in 1..Len(tbl) : tbl[k][3] <= p /\ p < tbl[k][3] + tbl[k][2]}
Masked(tbl, p) == \E k \in LineAt(tbl, p) : tbl[k][1] \in BootManaged
\* byte p of the packed defaults with the options applied (little-endian fields, gaps are zero)
PackedByte(tbl, opts, p) ==
    IF LineAt(tbl, p) = {} THEN 0
    ELSE LET k == CHOOSE k \in LineAt(tbl, p) : TRUE
             f == tbl[k]
         IN IF f[1] \in DOMAIN opts THEN opts[f[1]][p - f[3] + 1] ELSE LEByte(f[4], p - f[3])
PackedCfg(tbl, opts) == [p \in 0..(CfgLen - 1) |-> PackedByte(tbl, opts, p)]
SameUnmasked(tbl, a, b) == \A p \in 0..(CfgLen - 1) : Masked(tbl, p) \/ a[p] = b[p]
\* lines wholly inside the configuration area (the fields a board receives)
CfgLines(tbl) == {k \in 1..Len(tbl) : tbl[k][3] + tbl[k][2] <= CfgLen}
FieldOf(tbl, cfg, k) == [i \in 1..tbl[k][2] |-> cfg[tbl[k][3] + i - 1]]
Prefix(bytes, n) == [i \in 1..n |-> bytes[i]]

\* Fields of the config area that this call did not ask for, that an earlier boot of the process
\* was given with a value other than the default, and that carry exactly that earlier value now.
LeakedNames(tbl, opts, cfg, hist) ==
    { tbl[k][1] : k \in { k \in CfgLines(tbl) :
        \E j \in 1..Len(hist) :
            LET name == tbl[k][1]
                was  == Prefix(hist[j].opts[name], tbl[k][2])
            IN /\ name \in DOMAIN hist[j].opts /\ name \notin DOMAIN opts /\ name \notin BootManaged
               /\ was # Prefix(LE4(tbl[k][4]), tbl[k][2])
               /\ FieldOf(tbl, cfg, k) = was } }

(***************************************************************************)
(* One boot.  tbl: system-variable table; opts: this call's options;       *)
(* image: the boot image as given; dg: the datagrams sent, in order;       *)
(* hist: sequence of records [opts, cfg] of the earlier boots of the       *)
(* process (cfg = the configuration area each of them sent).               *)
(* Every clause is total: a malformed datagram sequence makes clauses      *)
(* false, never undefined.                                                 *)
(***************************************************************************)
BootClauses(tbl, opts, image, dg, hist) ==
  LET n    == NBlocks(Len(image))
      nb   == Len(dg) - 2                       \* datagrams between the first and the last
      img  == IF Len(dg) >= 3 THEN Reassembled(dg) ELSE <<>>
      cfg  == CfgOf(img)
  IN
  [ \* first datagram: start command announcing the block count (as "blocks - 1" in arg3)
    StartAnnouncesBlocks |->
        /\ Len(dg) >= 1 /\ Len(dg[1]) = HeaderLen /\ Version(dg[1]) = 1 /\ Cmd(dg[1]) = CmdStart
        /\ Arg3(dg[1]) = n - 1,
    \* then exactly n block datagrams numbered 0..n-1 in order, each at most BlockBytes of whole words
    BlocksConsecutive |->
        /\ nb = n
        /\ \A i \in 0..(nb - 1) :
              LET d == dg[i + 2]
              IN /\ Len(d) > HeaderLen /\ Version(d) = 1 /\ Cmd(d) = CmdBlock
                 /\ Arg1(d) >= 0 /\ Arg1(d) % 256 = i
                 /\ DataLen(d) <= BlockBytes /\ DataLen(d) % 4 = 0,
    \* the last datagram, and only the last, is the end command with argument 1
    EndAfterBlocks |->
        /\ Len(dg) >= 2
        /\ LET d == dg[Len(dg)] IN Len(d) = HeaderLen /\ Version(d) = 1 /\ Cmd(d) = CmdEnd /\ Arg1(d) = 1
        /\ \A i \in 2..(Len(dg) - 1) : Cmd(dg[i]) # CmdEnd /\ Cmd(dg[i]) # CmdStart,
    \* un-swapped and concatenated, the blocks are the image byte for byte outside the config area
    ImageReassembles |->
        /\ Len(img) = Len(image)
        /\ \A i \in 1..Len(image) :
              (i <= CfgOffset \/ i > CfgOffset + CfgLen) => img[i] = image[i],
    \* the config area is the packed defaults with exactly this call's options applied
    ConfigIsDefaultsPlusOptions |->
        SameUnmasked(tbl, cfg, PackedCfg(tbl, opts)),
    \* nothing an earlier boot was given shows up here unasked
    OnlyOwnOptions |->
        LeakedNames(tbl, opts, cfg, hist) = {},
    \* the config area is a function of this call's options: equal options, equal area
    ConfigDependsOnOwnOptionsOnly |->
        \A j \in 1..Len(hist) : hist[j].opts = opts => SameUnmasked(tbl, hist[j].cfg, cfg)
  ]

\* what a boot leaves in the history
HistEntry(opts, dg) == [opts |-> opts, cfg |-> CfgOf(IF Len(dg) >= 3 THEN Reassembled(dg) ELSE <<>>)]

(***************************************************************************)
(* Returned struct definitions.  sv: the fields of the returned "sv"       *)
(* struct as <<name, bytes per element, offset, default as 4 little-endian *)
(* bytes, elements>>.  They must be the table's lines carrying the values  *)
(* that went out: this call's options where given, the documented default  *)
(* otherwise, and for every field inside the config area exactly the bytes *)
(* that were sent (that also ties the boot-managed fields).                *)
(***************************************************************************)
ReturnedAgree(tbl, opts, dg, sv) ==
  LET cfg == CfgOf(IF Len(dg) >= 3 THEN Reassembled(dg) ELSE <<>>)
  IN /\ \A i \in 1..Len(sv) :
          LET r == sv[i]
          IN /\ Len(r) = 5 /\ Len(r[4]) = 4
             /\ \E k \in 1..Len(tbl) :
                   /\ tbl[k][1] = r[1] /\ tbl[k][2] = r[2] /\ tbl[k][3] = r[3] /\ tbl[k][5] = r[5]
                   /\ IF r[1] \in DOMAIN opts THEN r[4] = opts[r[1]]
                      ELSE r[1] \in BootManaged \/ r[4] = LE4(tbl[k][4])
             /\ (r[3] + r[2] <= CfgLen) =>
                   /\ \A b \in 1..r[2] : cfg[r[3] + b - 1] = r[4][b]
                   /\ \A b \in (r[2] + 1)..4 : r[4][b] = 0
     /\ \A k \in 1..Len(tbl) : \E i \in 1..Len(sv) : sv[i][1] = tbl[k][1]
     /\ \A name \in DOMAIN opts : \E i \in 1..Len(sv) : sv[i][1] = name

\* The same question asked of the returned fields (any offset, so also variables that are not sent):
\* names this call did not ask for whose returned default is what an earlier boot was given.
LeakedReturnedNames(tbl, opts, sv, hist) ==
    { sv[i][1] : i \in { i \in 1..Len(sv) :
        LET name == sv[i][1]
        IN /\ name \notin DOMAIN opts /\ name \notin BootManaged
           /\ \E j \in 1..Len(hist) :
                 /\ name \in DOMAIN hist[j].opts /\ sv[i][4] = hist[j].opts[name]
                 /\ \A k \in 1..Len(tbl) : tbl[k][1] = name => LE4(tbl[k][4]) # sv[i][4] } }

(***************************************************************************)
(* The "sv" struct of the bundled rig/boot/sark.struct, line by line       *)
(* (pack letters C/v/V = 1/2/4 bytes).  Below offset 128 no two lines      *)
(* overlap and every byte is covered.  __PAD4 occurs twice in the file.    *)
(***************************************************************************)
SvBundled == TLCEval(<<
    <<"p2p_addr", 2, 0, 0, 1>>, <<"p2p_dims", 2, 2, 0, 1>>, <<"dbg_addr", 2, 4, 0, 1>>,
    <<"p2p_up", 1, 6, 0, 1>>, <<"last_id", 1, 7, 0, 1>>, <<"eth_addr", 2, 8, 0, 1>>,
    <<"hw_ver", 1, 10, 0, 1>>, <<"eth_up", 1, 11, 0, 1>>, <<"p2pb_repeats", 1, 12, 4, 1>>,
    <<"p2p_sql", 1, 13, 4, 1>>, <<"clk_div", 1, 14, 51, 1>>, <<"tp_scale", 1, 15, 0, 1>>,
    <<"clock_ms", 4, 16, 0, 1>>, <<"clock_ms_h", 4, 20, 0, 1>>, <<"time_ms", 2, 24, 0, 1>>,
    <<"ltpc_period", 2, 26, 0, 1>>, <<"unix_time", 4, 28, 0, 1>>, <<"tp_timer", 4, 32, 0, 1>>,
    <<"cpu_clk", 2, 36, 200, 1>>, <<"mem_clk", 2, 38, 130, 1>>, <<"forward", 1, 40, 63, 1>>,
    <<"retry", 1, 41, 0, 1>>, <<"peek_time", 1, 42, 100, 1>>, <<"led_period", 1, 43, 1, 1>>,
    <<"netinit_bc_wait", 1, 44, 50, 1>>, <<"netinit_phase", 1, 45, 0, 1>>,
    <<"p2p_root", 2, 46, 0, 1>>, <<"led0", 4, 48, 1, 1>>, <<"led1", 4, 52, 0, 1>>,
    <<"__PAD2", 4, 56, 0, 1>>, <<"random", 4, 60, 0, 1>>, <<"root_chip", 1, 64, 0, 1>>,
    <<"num_buf", 1, 65, 7, 1>>, <<"boot_delay", 1, 66, 10, 1>>, <<"soft_wdog", 1, 67, 3, 1>>,
    <<"__PAD3", 4, 68, 0, 1>>, <<"sysram_heap", 4, 72, 1024, 1>>,
    <<"sdram_heap", 4, 76, 1048576, 1>>, <<"iobuf_size", 4, 80, 16384, 1>>,
    <<"sys_bufs", 4, 84, 8388608, 1>>, <<"sysbuf_size", 4, 88, 32768, 1>>,
    <<"boot_sig", 4, 92, 0, 1>>, <<"mem_ptr", 4, 96, 0, 1>>, <<"lock", 1, 100, 0, 1>>,
    <<"link_en", 1, 101, 63, 1>>, <<"last_biff_id", 1, 102, 0, 1>>, <<"bt_flags", 1, 103, 0, 1>>,
    <<"shm_root.free", 4, 104, 0, 1>>, <<"shm_root.count", 2, 108, 0, 1>>,
    <<"shm_root.max", 2, 110, 0, 1>>, <<"utmp0", 4, 112, 0, 1>>, <<"utmp1", 4, 116, 0, 1>>,
    <<"utmp2", 4, 120, 0, 1>>, <<"utmp3", 4, 124, 0, 1>>, <<"status_map", 1, 128, 0, 20>>,
    <<"p2v_map", 1, 148, 0, 20>>, <<"v2p_map", 1, 168, 0, 20>>, <<"num_cpus", 1, 188, 0, 1>>,
    <<"rom_cpus", 1, 189, 0, 1>>, <<"__PAD4", 2, 190, 0, 1>>, <<"sdram_base", 4, 192, 0, 1>>,
    <<"sysram_base", 4, 196, 0, 1>>, <<"sdram_sys", 4, 200, 0, 1>>, <<"vcpu_base", 4, 204, 0, 1>>,
    <<"sys_heap", 4, 208, 0, 1>>, <<"rtr_copy", 4, 212, 0, 1>>, <<"hop_table", 4, 216, 0, 1>>,
    <<"alloc_tag", 4, 220, 0, 1>>, <<"rtr_free", 2, 224, 0, 1>>, <<"p2p_active", 2, 226, 0, 1>>,
    <<"app_data", 4, 228, 0, 1>>, <<"shm_buf", 4, 232, 0, 1>>, <<"mbox_flags", 4, 236, 0, 1>>,
    <<"ip_addr", 4, 240, 0, 1>>, <<"fr_copy", 4, 244, 0, 1>>, <<"board_info", 4, 248, 0, 1>>,
    <<"__PAD4", 4, 252, 0, 1>> >>)

\* a table is usable when the lines wholly or partly below CfgLen do not overlap one another
TableOk(tbl) == \A p \in 0..(CfgLen - 1) : Cardinality(LineAt(tbl, p)) <= 1
=============================================================================
