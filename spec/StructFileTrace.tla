--------------------------- MODULE StructFileTrace ---------------------------
(***************************************************************************)
(* Trace specification for rig.machine_control.struct_file (beyond the     *)
(* listed properties): one struct-file text, read by read_struct_file, and *)
(* a history of calls on the Struct objects that came out of it, on deep   *)
(* copies of them and on the objects of further reads of the same text.    *)
(*                                                                         *)
(* Setup: text - the bytes of the file; bundled = 1 iff it is the          *)
(*   sark.struct that rig ships; glossary - for the bundled file, the      *)
(*   names of Boot.tla's table as <<string, its bytes>> (TLC cannot take   *)
(*   a string apart).                                                      *)
(* Objects are numbered in the order they came to exist (the structs of a  *)
(*   read in the order of their names); every event ends with `all`, what  *)
(*   every object looks like afterwards:                                   *)
(*   <<name, size, base, fields>>, fields sorted by name, each             *)
(*   <<name, pack_chars, offset, printf, default, length>> with numbers as *)
(*   8 little-endian bytes and strings as sequences of bytes.              *)
(* Events:                                                                 *)
(*   <<"parse", outcome, all>>                read_struct_file(text)       *)
(*   <<"reparse", outcome, all>>              once more; new objects       *)
(*   <<"copy", obj, outcome, all>>            copy.deepcopy(obj)           *)
(*   <<"update", obj, kwargs, outcome, all>>  update_default_values, kw   *)
(*   <<"pack", obj, outcome, all>>            outcome <<"ok", bytes>>      *)
(*   <<"getitem", obj, name, outcome, all>>   outcome <<"ok", field>>      *)
(*   <<"contains", obj, name, <<0 or 1>>, all>>                            *)
(*   <<"len", obj, <<n>>, all>>, <<"keys", obj, names, all>>  (where the   *)
(*                                            class offers them)           *)
(*   outcome = <<"ok", ...>> or <<"raise", class name>>.                   *)
(***************************************************************************)
EXTENDS StructFile, Json, IOUtils

B == INSTANCE Boot WITH BlockBytes <- 1024, CfgOffset <- 384, CfgLen <- 128

Traces == JsonDeserialize(IOEnv.TRACE_FILE)
VARIABLES tid, ei, st, verdict
vars == <<tid, ei, st, verdict>>
Tr == Traces[tid]
Ev == Tr.ev[ei]
SeqSet(q) == { q[i] : i \in 1..Len(q) }

Glossed(str) == LET g == {x \in SeqSet(Tr.glossary) : x[1] = str}
                IN IF g = {} THEN <<>> ELSE (CHOOSE x \in g : TRUE)[2]
\* the bundled file's sv struct is, line by line, the table Boot.tla (C20) works from
IsBootsTable(structs) ==
    \E j \in 1..Len(structs) :
        LET s == structs[j]  t == B!SvBundled
        IN /\ s.name = Glossed("sv") /\ s.size = Bytes8(256) /\ Len(s.fields) = Len(t)
           /\ \A k \in 1..Len(t) :
                 LET f == s.fields[k]
                 IN /\ f[1] = Glossed(t[k][1]) /\ f[1] # <<>> /\ f[2][1] = 1 /\ LetterWidth(f[2][2]) = t[k][2]
                    /\ f[3] = Bytes8(t[k][3]) /\ f[5] = Bytes8(t[k][4]) /\ f[6] = Bytes8(t[k][5])

ReadChecks(outcome, new) ==
    LET m == st.meaning
    IN [ReadVerdict |-> CASE m.verdict = "ok" -> outcome = <<"ok">>
                          [] m.verdict = "bad" -> Len(outcome) = 2 /\ outcome[1] = "raise" /\ new = <<>>
                          [] OTHER -> TRUE,
        ReadIsTheTextsMeaning |-> (m.verdict = "ok" /\ outcome = <<"ok">>) => ReadAgrees(m.structs, new),
        BundledFileIsBootsTable |-> Tr.bundled = 1 => m.verdict = "ok" /\ IsBootsTable(m.structs)]

ObjOk(o) == o \in 1..Len(st.objs)
Checks(e) ==
  LET all == e[Len(e)]
      objs == st.objs
  IN
  CASE e[1] = "parse" ->
        [StartsFromNothing |-> objs = <<>>] @@ ReadChecks(e[2], all)
    [] e[1] = "reparse" ->
        [OldObjectsUntouched |-> Len(all) >= Len(objs) /\ SubSeq(all, 1, Len(objs)) = objs]
        @@ ReadChecks(e[2], SubSeq(all, Len(objs) + 1, Len(all)))
    [] e[1] = "copy" ->
        [CopyEqualsOriginal |-> ObjOk(e[2]) /\ e[3] = <<"ok">> /\ all = Append(objs, objs[e[2]])]
    [] e[1] = "update" ->
        LET o == e[2]  kw == e[3]  outcome == e[4]
            fields == objs[o][4]
        IN [UpdateOutcome |-> /\ ObjOk(o)
                              /\ IF AllKnown(fields, kw) THEN outcome = <<"ok">> ELSE outcome = <<"raise", "KeyError">>,
            UpdateChangesNamedDefaultsOnly |->
                /\ ObjOk(o) /\ Len(all) = Len(objs) /\ Len(all[o]) = 4
                /\ all[o][1] = objs[o][1] /\ all[o][2] = objs[o][2] /\ all[o][3] = objs[o][3]
                /\ IF outcome = <<"ok">> THEN all[o][4] = Updated(fields, kw)
                   ELSE PartlyUpdated(fields, kw, all[o][4]),
            OtherObjectsUntouched |-> Len(all) = Len(objs) /\ \A j \in 1..Len(objs) : j # o => all[j] = objs[j]]
    [] e[1] = "pack" ->
        LET o == e[2]  outcome == e[3]
        IN [PackIsTheStructsMeaning |->
                /\ ObjOk(o)
                /\ PackSpecified(objs[o][2], objs[o][4]) =>
                      /\ Len(outcome) = 2 /\ outcome[1] = "ok" /\ PackAgrees(objs[o][2], objs[o][4], outcome[2]),
            PackLeavesState |-> all = objs]
    [] e[1] = "getitem" ->
        LET o == e[2]  outcome == e[4]
            hit == {i \in 1..Len(objs[o][4]) : objs[o][4][i][1] = e[3]}
        IN [GetItemIsTheField |-> /\ ObjOk(o)
                                  /\ IF hit = {} THEN Len(outcome) = 2 /\ outcome[1] = "raise"
                                     ELSE \E i \in hit : outcome = <<"ok", objs[o][4][i]>>,
            LookupLeavesState |-> all = objs]
    [] e[1] = "contains" ->
        [ContainsIsMembership |-> ObjOk(e[2]) /\ e[4] = <<IF e[3] \in Names(objs[e[2]][4]) THEN 1 ELSE 0>>,
         LookupLeavesState |-> all = objs]
    [] e[1] = "len" ->
        [LenCountsFields |-> ObjOk(e[2]) /\ e[3] = <<Len(objs[e[2]][4])>>, LookupLeavesState |-> all = objs]
    [] e[1] = "keys" ->
        [KeysAreTheNames |-> ObjOk(e[2]) /\ Len(e[3]) = Len(objs[e[2]][4]) /\ SeqSet(e[3]) = Names(objs[e[2]][4]),
         LookupLeavesState |-> all = objs]
    [] OTHER -> [KnownEvent |-> FALSE]

Bad == LET ck == Checks(Ev) IN {c \in DOMAIN ck : ~ck[c]}
TInit == /\ tid \in 1..Len(Traces) /\ ei = 1 /\ verdict = <<>>
         /\ st = [meaning |-> Meaning(Traces[tid].text), objs |-> <<>>]
TStep == /\ ei <= Len(Tr.ev) /\ verdict = <<>> /\ tid' = tid
         /\ LET bad == Bad
            IN IF bad = {} THEN ei' = ei + 1 /\ st' = [st EXCEPT !.objs = Ev[Len(Ev)]] /\ verdict' = verdict
               ELSE /\ PrintT("REJECT|" \o ToString(tid) \o "|" \o ToString(ei) \o "|" \o ToString(bad) \o "|"
                              \o Ev[1] \o " " \o ToString(Ev[2]) \o " text verdict " \o st.meaning.verdict)
                    /\ verdict' = <<ei, bad>> /\ ei' = ei /\ st' = st
TSpec == TInit /\ [][TStep]_vars
=============================================================================
