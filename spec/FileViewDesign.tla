--------------------------- MODULE FileViewDesign ---------------------------
(***************************************************************************)
(* Design job for C13.  One allocation RootLo..RootHi-1 inside a memory    *)
(* window 0..WinLen-1 whose other bytes belong to neighbours; a root view  *)
(* of the allocation and views sliced from it (and from slices).  Every    *)
(* step is one operation carried out by the RULES of module FileView       *)
(* (clip the count to the bytes left, nothing at a negative position,      *)
(* clip slice bounds into the parent, guards on closed / freed); the step  *)
(* leaves in "issued" the controller accesses it made.  TLC explores every *)
(* history of at most MaxSteps operations and checks that the rules imply  *)
(* the property: accesses stay in the issuing view and in the allocation,  *)
(* neighbours' bytes never change, a read returns what was last written    *)
(* through any view, positions advance by the bytes transferred, a         *)
(* truncated transfer ends exactly at the end, a slice covers exactly the  *)
(* addresses named by Python's (clip-free, set-based) slicing definition,  *)
(* dead views do nothing.  Each write stores a fresh stamp (the step       *)
(* number) so that "last written" is unambiguous.                          *)
(***************************************************************************)
EXTENDS FileView

CONSTANTS WinLen, RootLo, RootHi,
          Offsets,     \* seek offsets tried with every whence
          Counts,      \* read counts (a negative one = the default, everything)
          WLens,       \* write lengths
          Bounds,      \* integer slice bounds (an absent bound is always tried as well)
          MinPos, MaxPos,   \* positions kept within MinPos..MaxPos (state constraint on seeks)
          MaxViews, MaxSteps,
          KeepHistory  \* TRUE only for simulation runs whose behaviours are replayed into rig

VARIABLES fmem,     \* the memory window
          views,    \* sequence of views; views[1] is the root
          freed,
          lastw,    \* ghost: for every address the byte most recently written there (file semantics)
          steps,
          issued,   \* what the last step did: [by, kind, accs, result, warn, oldpos]
          hist      \* the operations so far <<kind, view, arguments>> (stays empty unless KeepHistory)

vars == <<fmem, views, freed, lastw, steps, issued, hist>>

InitMem == [i \in 1..WinLen |-> 0]
Nothing == [by |-> 1, kind |-> "init", accs |-> <<>>, result |-> <<>>, warn |-> FALSE, oldpos |-> 0]

DInit == /\ fmem = InitMem /\ lastw = InitMem
         /\ views = <<NewView(RootLo, RootHi)>>
         /\ freed = FALSE /\ steps = 0 /\ issued = Nothing /\ hist = <<>>

Alive(v) == ~views[v].closed /\ ~freed
Tick == steps < MaxSteps /\ steps' = steps + 1
SetPos(v, p) == [views EXCEPT ![v].pos = p]
Did(v, kd, ar, ac, rs, wn) ==
    /\ issued' = [by |-> v, kind |-> kd, accs |-> ac, result |-> rs, warn |-> wn, oldpos |-> views[v].pos]
    /\ hist' = IF KeepHistory THEN Append(hist, <<kd, v, ar>>) ELSE hist

DSeek(v, off, wh) ==
    LET t == SeekTarget(views[v], off, wh) IN
    /\ Tick /\ Alive(v) /\ t \in MinPos..MaxPos
    /\ views' = SetPos(v, t) /\ Did(v, "seek", <<off, wh>>, <<>>, <<off, wh>>, FALSE)
    /\ UNCHANGED <<fmem, freed, lastw>>
\* a target before the start may be refused
DSeekRefused(v, off, wh) ==
    /\ Tick /\ Alive(v) /\ SeekTarget(views[v], off, wh) < 0
    /\ Did(v, "seekrefused", <<off, wh>>, <<>>, <<>>, FALSE)
    /\ UNCHANGED <<fmem, views, freed, lastw>>
DRead(v, n) ==
    LET vw == views[v]
        k == ReadCount(vw, n)
        a == vw.lo + vw.pos
        data == IF k > 0 THEN FileBytes(fmem, a, k) ELSE <<>>
    IN /\ Tick /\ Alive(v)
       /\ views' = SetPos(v, vw.pos + k)
       /\ Did(v, "read", <<n>>, IF k > 0 THEN << <<"r", a, k, data, 0, 0>> >> ELSE <<>>, data, ReadTruncated(vw, n))
       /\ UNCHANGED <<fmem, freed, lastw>>
DWrite(v, m) ==
    LET vw == views[v]
        data == [i \in 1..m |-> steps + 1]
        k == WriteCount(vw, m)
        a == vw.lo + vw.pos
        ac == IF k > 0 THEN << <<"w", a, k, SubSeq(data, 1, k), 0, 0>> >> ELSE <<>>
    IN /\ Tick /\ Alive(v)
       /\ fmem' = MemAfter(fmem, ac)                   \* the memory changes through the access only
       \* ghost, by file positions: position vw.pos + i - 1 of the view's file receives data[i]
       /\ lastw' = [j \in 1..WinLen |-> IF \E i \in 1..k : j = vw.lo + vw.pos + i THEN data[j - vw.lo - vw.pos]
                                        ELSE lastw[j]]
       /\ views' = SetPos(v, vw.pos + k)
       /\ Did(v, "write", <<m>>, ac, <<k>>, WriteTruncated(vw, m))
       /\ UNCHANGED freed
\* slicing is an observer: it works on closed views and on freed allocations too
DSlice(v, a, b) ==
    LET rg == SliceRange(views[v], a, b) IN
    /\ Tick /\ Len(views) < MaxViews
    /\ views' = Append(views, NewView(rg[1], rg[2]))
    /\ Did(v, "slice", <<a, b>>, <<>>, <<a, b>>, FALSE)
    /\ UNCHANGED <<fmem, freed, lastw>>
DClose(v) ==
    /\ Tick /\ Alive(v)
    /\ views' = [views EXCEPT ![v].closed = TRUE] /\ Did(v, "close", <<>>, <<>>, <<>>, FALSE)
    /\ UNCHANGED <<fmem, freed, lastw>>
DFree ==
    /\ Tick /\ ~freed /\ freed' = TRUE
    /\ Did(1, "free", <<>>, << <<"f", views[1].lo, 0, <<>>, 0, 0>> >>, <<>>, FALSE)
    /\ UNCHANGED <<fmem, views, lastw>>
\* seek / tell / read / write / flush / address on a closed view or a freed allocation
DFail(v) ==
    /\ Tick /\ ~Alive(v)
    /\ Did(v, "fail", <<>>, <<>>, <<>>, FALSE)
    /\ UNCHANGED <<fmem, views, freed, lastw>>

OptBounds == {<<>>} \cup { <<i>> : i \in Bounds }
Ids == 1..Len(views)
DoSeek == \E v \in Ids, off \in Offsets, wh \in 0..2 : DSeek(v, off, wh)
DoSeekRefused == \E v \in Ids, off \in Offsets, wh \in 0..2 : DSeekRefused(v, off, wh)
DoRead == \E v \in Ids, n \in Counts : DRead(v, n)
DoWrite == \E v \in Ids, m \in WLens : DWrite(v, m)
DoSlice == \E v \in Ids, a \in OptBounds, b \in OptBounds : DSlice(v, a, b)
DoClose == \E v \in Ids : DClose(v)
DoFail == \E v \in Ids : DFail(v)
DNext == DoSeek \/ DoSeekRefused \/ DoRead \/ DoWrite \/ DoSlice \/ DoClose \/ DFree \/ DoFail
DSpec == DInit /\ [][DNext]_vars

\* ------------------------------------------------------------------ what the rules must imply
By == views[issued.by]
\* every access lies inside the issuing view ...
Confined == AllInside(issued.accs, By.lo, By.hi)
\* ... every view lies inside the allocation, so no access leaves the allocation ...
Nested == \A v \in 1..Len(views) : RootLo <= views[v].lo /\ views[v].lo <= views[v].hi /\ views[v].hi <= RootHi
InAllocation == AllInside(issued.accs, RootLo, RootHi)
\* ... and the neighbours' bytes are never touched
NeighboursIntact == \A j \in 1..WinLen : (j - 1 < RootLo \/ j - 1 >= RootHi) => fmem[j] = InitMem[j]
\* a step changes memory only inside the view that made it
OnlyOwnRange == [][\A j \in 1..WinLen : fmem'[j] # fmem[j] =>
                       (views'[issued'.by].lo <= j - 1 /\ j - 1 < views'[issued'.by].hi)]_vars
\* the memory is what file semantics says was last written, and a read returns exactly that
MemoryIsLastWritten == fmem = lastw
ReadsLastWritten == issued.kind = "read" =>
                       /\ Len(issued.result) = By.pos - issued.oldpos
                       /\ \A i \in 1..Len(issued.result) : issued.result[i] = lastw[By.lo + issued.oldpos + i]
\* positions advance by the bytes transferred (the lengths of the accesses made), and only then
Transferred == LET F[i \in 0..Len(issued.accs)] == IF i = 0 THEN 0 ELSE F[i - 1] + Max(0, issued.accs[i][3])
               IN F[Len(issued.accs)]
PositionAdvances == issued.kind \in {"read", "write"} => By.pos = issued.oldpos + Transferred
PositionStays == issued.kind \in {"slice", "close", "free", "fail", "seekrefused", "init"} => By.pos = issued.oldpos
\* a warning is given exactly for a transfer cut short by the end, which then stops exactly at the end
\* (or transfers nothing when begun beyond the end)
TruncationStopsAtEnd == issued.warn =>
                           /\ issued.kind \in {"read", "write"}
                           /\ IF issued.oldpos <= VLen(By) THEN By.pos = VLen(By) ELSE By.pos = issued.oldpos
\* without a warning a read/write at a position >= 0 transferred everything that was asked for: checked
\* through the count the step reports
NeverPastEnd == issued.kind \in {"read", "write"} /\ Transferred > 0 => (0 <= issued.oldpos /\ By.pos <= VLen(By))
\* what a seek means, said without the rule: from the start the position is the offset; from the current
\* position the view moved by the offset; from the end the distance to the end is minus the offset
SeekMeaning == issued.kind = "seek" =>
                  LET off == issued.result[1]  wh == issued.result[2] IN
                  /\ wh = 0 => By.pos = off
                  /\ wh = 1 => By.pos - issued.oldpos = off
                  /\ wh = 2 => VLen(By) - By.pos = -off
\* a slice covers exactly the addresses Python's slicing names.  Clip-free definition: index i of a
\* sequence of length n is selected by [a:b] iff it is not before a and before b, where a negative
\* bound counts from the end.
Selected(i, n, a, b) == /\ (a # <<>> => i >= (IF a[1] >= 0 THEN a[1] ELSE n + a[1]))
                        /\ (b # <<>> => i < (IF b[1] >= 0 THEN b[1] ELSE n + b[1]))
SliceNamesExactly ==
    issued.kind = "slice" =>
        LET nv == views[Len(views)]  a == issued.result[1]  b == issued.result[2] IN
        /\ { j \in 0..(WinLen - 1) : nv.lo <= j /\ j < nv.hi }
              = { By.lo + i : i \in { i \in 0..(VLen(By) - 1) : Selected(i, VLen(By), a, b) } }
        /\ By.lo <= nv.lo /\ nv.hi <= By.hi /\ nv.pos = 0 /\ ~nv.closed
\* dead views do nothing and never change
DeadIsSilent == issued.kind = "fail" => issued.accs = <<>>
DeadViewsInert == [][\A v \in 1..Len(views) : (views[v].closed \/ freed) =>
                        ((views'[v].pos = views[v].pos /\ fmem' = fmem) \/ issued'.by # v)]_vars
OnceClosedAlwaysClosed == [][/\ \A v \in 1..Len(views) : views[v].closed => views'[v].closed
                             /\ freed => freed']_vars
\* the free command names the allocation
FreeNamesAllocation == issued.kind = "free" => issued.accs = << <<"f", RootLo, 0, <<>>, 0, 0>> >>

\* simulation runs print each complete behaviour's operations for the replay job
Emit == (KeepHistory /\ steps = MaxSteps) => PrintT("INFO|" \o ToString(hist))

\* constant values for the configurations (TLC's cfg syntax has no negative numbers)
QOffsets == {-2, 0, 1, 4}
QCounts == {-1, 0, 2, 5}
QWLens == {0, 2, 5}
QBounds == {-4, -1, 2, 5}
TOffsets == {-3, -1, 0, 1, 2, 4, 6}
TCounts == {-1, 0, 1, 3, 6}
TWLens == {0, 1, 3, 6}
TBounds == {-6, -3, -1, 0, 1, 2, 4, 6}
MinusTwo == -2
MinusThree == -3
=============================================================================
