---------------------------- MODULE HexDesign ----------------------------
(***************************************************************************)
(* Design job for C11.                                                     *)
(*  1. Theorems about the fabric, evaluated by TLC as ASSUMEs over every   *)
(*     torus size up to N x N: BFS distance is translation invariant (so   *)
(*     the trace specification may use the table computed from the origin),*)
(*     and the usual closed forms equal BFS distance.                      *)
(*  2. The walk state machine: from every source, along every three-axis   *)
(*     vector that a correct implementation may return (lands on the       *)
(*     destination with exactly Dist hops), taking the dimensions in any   *)
(*     order, every step is a hop between adjacent chips over the link it  *)
(*     is labelled with, and the walk ends on the destination after        *)
(*     exactly Dist steps.                                                 *)
(***************************************************************************)
EXTENDS Hex, TLC

CONSTANTS N,        \* torus sizes 1..N x 1..N for the theorems
          WN        \* torus sizes 1..WN x 1..WN for the walk machine

Sizes(n) == (1..n) \X (1..n)

TranslationInvariant ==
    \A wh \in Sizes(N) :
        LET W == wh[1]  H == wh[2]  D0 == TorusDistFrom(<<0, 0>>, W, H)
        IN  \A a \in Chips(W, H) :
               LET Da == TorusDistFrom(a, W, H)
               IN  \A b \in Chips(W, H) : Da[b] = D0[<<(b[1] - a[1]) % W, (b[2] - a[2]) % H>>]

TorusClosedFormIsBfs ==
    \A wh \in Sizes(N) :
        LET W == wh[1]  H == wh[2]  D0 == TorusDistFrom(<<0, 0>>, W, H)
        IN  /\ DOMAIN D0 = Chips(W, H)                     \* every chip is reached
            /\ \A b \in Chips(W, H) : D0[b] = TorusClosed(b[1], b[2], W, H)

MeshClosedFormIsBfs ==
    LET M == MeshDistFromOrigin(N)
    IN  \A c \in DOMAIN M : M[c] = MeshClosed(c[1], c[2])

RingSizes ==
    LET M == MeshDistFromOrigin(N)
    IN  \A r \in 1..N : Cardinality({c \in DOMAIN M : M[c] = r}) = 6 * r

ASSUME TranslationInvariant
ASSUME TorusClosedFormIsBfs
ASSUME MeshClosedFormIsBfs
ASSUME RingSizes
ASSUME \A l \in Links : Opp(Opp(l)) = l /\ VecX(Opp(l)) = -VecX(l) /\ VecY(Opp(l)) = -VecY(l)

(***************************************************************************)
(* Walk machine.                                                           *)
(***************************************************************************)
VARIABLES w, h, src, dst, vec, pos, rem, steps, last   \* last = <<from, link, to>> of the last step

vars == <<w, h, src, dst, vec, pos, rem, steps, last>>

Bound == WN          \* components of candidate vectors range over -Bound..Bound
LegalVectors(W, H, a, b) ==
    LET D == TorusDistFrom(a, W, H)[b]
    IN { v \in (-Bound..Bound) \X (-Bound..Bound) \X (-Bound..Bound) :
           /\ Hops(v) = D
           /\ (a[1] + XyzToXy(v)[1]) % W = b[1]
           /\ (a[2] + XyzToXy(v)[2]) % H = b[2] }

Init == /\ \E wh \in Sizes(WN) : w = wh[1] /\ h = wh[2]
        /\ src \in Chips(w, h) /\ dst \in Chips(w, h)
        /\ vec \in LegalVectors(w, h, src, dst)
        /\ pos = src /\ rem = vec /\ steps = 0 /\ last = <<>>

\* one unit step along dimension d in the direction of the sign of rem[d]
LinkFor(d, positive) ==
    CASE d = 1 -> IF positive THEN 0 ELSE 3
      [] d = 2 -> IF positive THEN 2 ELSE 5
      [] d = 3 -> IF positive THEN 4 ELSE 1      \* +z is (-1, -1): south-west

Step(d) == /\ rem[d] # 0
           /\ LET l == LinkFor(d, rem[d] > 0)
                  n == Nbr(pos, l, w, h)
              IN /\ pos' = n
                 /\ last' = <<pos, l, n>>
                 /\ rem' = [rem EXCEPT ![d] = IF rem[d] > 0 THEN rem[d] - 1 ELSE rem[d] + 1]
                 /\ steps' = steps + 1
           /\ UNCHANGED <<w, h, src, dst, vec>>

Next == \E d \in 1..3 : Step(d)
Spec == Init /\ [][Next]_vars

Arrives    == rem = <<0, 0, 0>> => pos = dst /\ steps = TorusDistFrom(src, w, h)[dst]
NeverLong  == steps <= TorusDistFrom(src, w, h)[dst]
Adjacent   == last # <<>> => \E l \in Links : Nbr(last[1], l, w, h) = last[3] /\ l = last[2]
\* a legal vector exists for every pair, so the quantification above is never vacuous
ASSUME \A wh \in Sizes(WN) : \A a \in Chips(wh[1], wh[2]) : \A b \in Chips(wh[1], wh[2]) :
          LegalVectors(wh[1], wh[2], a, b) # {}
=============================================================================
