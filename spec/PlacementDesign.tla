--------------------------- MODULE PlacementDesign ---------------------------
(***************************************************************************)
(* Design job for C02: the two mechanisms every rig placer is built from,  *)
(* as a state machine over NChips chips with two resources and NV          *)
(* vertices:                                                               *)
(*   PlaceNext  cyclic first-fit (sequential.place, and - with an          *)
(*              advance-only cursor - the annealer's initial placement and *)
(*              the random placer): the next vertex goes on the first chip *)
(*              from the cursor on which it fits, else the run fails;      *)
(*   Swap       the annealing move: exchange a set of vertices of one chip *)
(*              with a set of vertices of another chip (either may be      *)
(*              empty), accepted only if neither chip goes negative.       *)
(* Invariants: no chip is ever over-committed; a finished run is feasible; *)
(* and the success guarantee - if every vertex needs at most one unit of   *)
(* one resource and the total free capacity suffices, first-fit never      *)
(* fails.  The cfg PlacementDesign_tworesources drops the single-resource  *)
(* condition and is expected to FAIL: it shows that condition is needed.   *)
(***************************************************************************)
EXTENDS Integers, FiniteSets, TLC

CONSTANTS NChips, NV, MaxCap, MaxDemand, Cyclic, RequireSingleResource
ChipIds == 1..NChips
Verts == 1..NV
Res == 1..2
Vec(n) == [Res -> 0..n]

VARIABLES cap, dem, at, cursor, nextv, phase
vars == <<cap, dem, at, cursor, nextv, phase>>

Load(c, r) == LET F[S \in SUBSET Verts] == IF S = {} THEN 0
                     ELSE LET v == CHOOSE v \in S : TRUE IN (IF at[v] = c THEN dem[v][r] ELSE 0) + F[S \ {v}]
              IN F[Verts]
FreeOf(c, r) == cap[c][r] - Load(c, r)
Fits(v, c) == \A r \in Res : dem[v][r] <= FreeOf(c, r)

DInit == /\ cap \in [ChipIds -> Vec(MaxCap)] /\ dem \in [Verts -> Vec(MaxDemand)]
         /\ at = [v \in Verts |-> 0] /\ cursor = 1 /\ nextv = 1 /\ phase = "placing"

\* chips in the order first-fit tries them, starting at the cursor
Order == IF Cyclic THEN [i \in 1..NChips |-> ((cursor - 1 + i - 1) % NChips) + 1]
         ELSE [i \in 1..(NChips - cursor + 1) |-> cursor + i - 1]
FirstFit(v) == LET idx == { i \in DOMAIN Order : Fits(v, Order[i]) }
               IN IF idx = {} THEN 0 ELSE Order[CHOOSE i \in idx : \A j \in idx : i <= j]
PlaceNext == /\ phase = "placing" /\ nextv <= NV
             /\ LET c == FirstFit(nextv) IN
                IF c = 0 THEN phase' = "failed" /\ UNCHANGED <<at, cursor, nextv>>
                ELSE at' = [at EXCEPT ![nextv] = c] /\ cursor' = c /\ nextv' = nextv + 1 /\ UNCHANGED phase
             /\ UNCHANGED <<cap, dem>>
StartAnneal == /\ phase = "placing" /\ nextv > NV /\ phase' = "annealing" /\ UNCHANGED <<cap, dem, at, cursor, nextv>>
Swap(A, a, B, b) ==
    /\ phase = "annealing" /\ a # b
    /\ \A v \in A : at[v] = a
    /\ \A v \in B : at[v] = b
    /\ at' = [v \in Verts |-> IF v \in A THEN b ELSE IF v \in B THEN a ELSE at[v]]
    \* accepted only if nothing goes negative afterwards
    /\ \A r \in Res : /\ cap[a][r] - (Load(a, r) - (LET F[S \in SUBSET A] == IF S = {} THEN 0 ELSE LET v == CHOOSE v \in S : TRUE IN dem[v][r] + F[S \ {v}] IN F[A])
                                               + (LET F[S \in SUBSET B] == IF S = {} THEN 0 ELSE LET v == CHOOSE v \in S : TRUE IN dem[v][r] + F[S \ {v}] IN F[B])) >= 0
                      /\ cap[b][r] - (Load(b, r) - (LET F[S \in SUBSET B] == IF S = {} THEN 0 ELSE LET v == CHOOSE v \in S : TRUE IN dem[v][r] + F[S \ {v}] IN F[B])
                                               + (LET F[S \in SUBSET A] == IF S = {} THEN 0 ELSE LET v == CHOOSE v \in S : TRUE IN dem[v][r] + F[S \ {v}] IN F[A])) >= 0
    /\ UNCHANGED <<cap, dem, cursor, nextv, phase>>
SwapAny == \E a, b \in ChipIds : \E A, B \in SUBSET Verts : (A \cup B # {}) /\ Swap(A, a, B, b)
Finish == /\ phase = "annealing" /\ phase' = "done" /\ UNCHANGED <<cap, dem, at, cursor, nextv>>
DNext == PlaceNext \/ StartAnneal \/ SwapAny \/ Finish
DSpec == DInit /\ [][DNext]_vars

NonNegative == \A c \in ChipIds : \A r \in Res : FreeOf(c, r) >= 0
FeasibleWhenDone == phase = "done" => \A v \in Verts : at[v] \in ChipIds
Total(f) == LET F[S \in SUBSET DOMAIN f] == IF S = {} THEN 0 ELSE LET x == CHOOSE x \in S : TRUE IN f[x] + F[S \ {x}]
            IN F[DOMAIN f]
EasyProblem == /\ \A v \in Verts : \A r \in Res : dem[v][r] <= 1
               /\ RequireSingleResource => \A v \in Verts : dem[v][2] = 0
               /\ \A r \in Res : Total([v \in Verts |-> dem[v][r]]) <= Total([c \in ChipIds |-> cap[c][r]])
\* the success guarantee (for the cyclic scan; an advance-only scan additionally needs the cursor
\* never to have passed a chip with room, which holds for unit demands: a chip is left only when full)
EasyNeverFails == phase = "failed" => ~EasyProblem
=============================================================================
