------------------------------ MODULE BootTrace ------------------------------
(***************************************************************************)
(* Trace specification for C20.  One trace = the boots made by ONE process *)
(* (a fresh one), in order.                                                *)
(* Events:                                                                 *)
(*   <<"boot", r>>  one call of boot() / MachineController.boot(); r is a   *)
(*                  record with                                            *)
(*        via     "boot" | "mc" | "mc_if_needed"                           *)
(*        host, port   the board this call was asked to boot               *)
(*        opts    this call's options, <<name, 4 little-endian bytes>>...  *)
(*                (what the caller wrote: the sv_overrides dictionary as   *)
(*                the caller defined it plus the keyword options)          *)
(*        image   the boot image file, byte by byte                        *)
(*        dg      every datagram given to the boot socket, byte by byte    *)
(*        dst     where each of them went, <<host, port>>                  *)
(*        result  <<"return">> or <<"raise", exception class>>             *)
(*        sv      fields of the returned "sv" struct (see ReturnedAgree)   *)
(*        svdef   the struct file this call named: the bundled one except  *)
(*                for these defaults, <<name, value below 2^31>>...        *)
(*                (absent or empty: the bundled file)                      *)
(*   <<"end", n>>   the process made n calls                               *)
(*   <<"end", n, again>>  ... and again[k] is what the struct definitions  *)
(*                  returned by call k say now, at the end of the process  *)
(* State st: the history - HistEntry of every boot so far, with the        *)
(* defaults of the struct file it named.                                   *)
(***************************************************************************)
EXTENDS Boot, Json, IOUtils

ASSUME TableOk(SvBundled)

Traces == JsonDeserialize(IOEnv.TRACE_FILE)
VARIABLES tid, ei, st, verdict
vars == <<tid, ei, st, verdict>>
Tr == Traces[tid]
Ev == Tr.ev[ei]

OptFun(q) == [name \in {q[i][1] : i \in 1..Len(q)} |-> q[CHOOSE i \in 1..Len(q) : q[i][1] = name][2]]
Returned(r) == r.result[1] = "return"

\* The system-variable table of the struct file a call named: the documented layout, with the defaults the
\* caller's file gives.
SvDef(r) == IF "svdef" \in DOMAIN r THEN r.svdef ELSE <<>>
TblOf(r) == IF Len(SvDef(r)) = 0 THEN SvBundled
            ELSE LET dv == OptFun(SvDef(r))
                 IN [k \in 1..Len(SvBundled) |->
                        IF SvBundled[k][1] \in DOMAIN dv
                        THEN <<SvBundled[k][1], SvBundled[k][2], SvBundled[k][3], dv[SvBundled[k][1]], SvBundled[k][5]>>
                        ELSE SvBundled[k]]

Checks(e) ==
  CASE e[1] = "boot" ->
        LET r == e[2]
            o == OptFun(r.opts)
        \* a boot may fail only when the environment made one of its send() calls fail (r.fault = 1); a boot that
        \* returns - fault or not - is judged in full
        IN IF ~Returned(r) THEN [BootCompletes |-> r.fault = 1]
           ELSE LET tb == TblOf(r)
                    bc == BootClauses(tb, o, r.image, r.dg, st)
                    cfg == CfgOf(IF Len(r.dg) >= 3 THEN Reassembled(r.dg) ELSE <<>>)
                IN \* a leak also counts when it shows only in the returned structs (variables that are not sent)
                [ OnlyOwnOptions       |-> bc.OnlyOwnOptions /\ LeakedReturnedNames(tb, o, r.sv, st) = {},
                  \* equal options AND equal struct file: equal area (the defaults come from the struct file)
                  ConfigDependsOnOwnOptionsOnly |->
                      \A j \in 1..Len(st) : (st[j].opts = o /\ st[j].svdef = SvDef(r))
                                                  => SameUnmasked(tb, st[j].cfg, cfg) ] @@
                bc @@
                [ BootCompletes        |-> TRUE,
                  ReturnedStructsAgree |-> ReturnedAgree(tb, o, r.dg, r.sv),
                  \* every datagram of this boot goes to the board this boot was asked to boot
                  SentToBootedBoard    |-> /\ Len(r.dst) = Len(r.dg)
                                           /\ \A i \in 1..Len(r.dst) : r.dst[i] = <<r.host, r.port>> ]
    [] e[1] = "end" ->
        \* (every event before this one was a boot, and each was judged - returned or not)
        [ AllBootsJudged |-> e[2] = ei - 1 /\ ei = Len(Tr.ev),
          \* "the struct definitions returned describe the same values": what call k returned still describes
          \* the values of call k after the later boots of the process (the caller keeps them, e.g. in its
          \* MachineController) - nothing returned earlier is rewritten by a later boot
          ReturnedStructsStayPut |->
              Len(e) < 3 \/ /\ Len(e[3]) = ei - 1
                            /\ \A k \in 1..Len(e[3]) : Tr.ev[k][1] = "boot" => e[3][k] = Tr.ev[k][2].sv ]
    [] OTHER -> [UnknownEvent |-> FALSE]

Apply(e) == IF e[1] = "boot" /\ Returned(e[2])
            THEN Append(st, HistEntry(OptFun(e[2].opts), e[2].dg) @@ [svdef |-> SvDef(e[2])])
            ELSE st

\* diagnosis only: which fields leaked (empty unless OnlyOwnOptions fails)
Detail(e) == IF e[1] = "boot" /\ Returned(e[2])
             THEN LET cfg == CfgOf(IF Len(e[2].dg) >= 3 THEN Reassembled(e[2].dg) ELSE <<>>)
                  IN ToString(LeakedNames(TblOf(e[2]), OptFun(e[2].opts), cfg, st)
                              \cup LeakedReturnedNames(TblOf(e[2]), OptFun(e[2].opts), e[2].sv, st))
             ELSE ""

Bad == LET ck == Checks(Ev) IN {c \in DOMAIN ck : ~ck[c]}
TInit == tid \in 1..Len(Traces) /\ ei = 1 /\ st = <<>> /\ verdict = <<>>
TStep == /\ ei <= Len(Tr.ev) /\ verdict = <<>> /\ tid' = tid
         /\ LET bad == Bad
            IN IF bad = {} THEN ei' = ei + 1 /\ st' = Apply(Ev) /\ verdict' = verdict
               ELSE /\ PrintT("REJECT|" \o ToString(tid) \o "|" \o ToString(ei) \o "|" \o ToString(bad)
                              \o "|" \o Detail(Ev))
                    /\ verdict' = <<ei, bad>> /\ ei' = ei /\ st' = st
TSpec == TInit /\ [][TStep]_vars
=============================================================================
