------------------------------ MODULE BootTrace ------------------------------
(***************************************************************************)
(* Trace specification for C20.  One trace = the boots made by ONE process *)
(* (a fresh one), in order.                                                *)
(* Events:                                                                 *)
(*   <<"boot", r>>  one call of boot() / MachineController.boot(); r is a   *)
(*                  record with                                            *)
(*        via     "boot" | "mc" | "mc_if_needed"                           *)
(*        host, port   the board this call was asked to boot               *)
(*        opts    this call's options, <<name, 4 little-endian bytes>>...  *)
(*                (what the caller wrote: the sv_overrides dictionary as   *)
(*                the caller defined it plus the keyword options)          *)
(*        image   the boot image file, byte by byte                        *)
(*        dg      every datagram given to the boot socket, byte by byte    *)
(*        dst     where each of them went, <<host, port>>                  *)
(*        result  <<"return">> or <<"raise", exception class>>             *)
(*        sv      fields of the returned "sv" struct (see ReturnedAgree)   *)
(*   <<"end", n>>   the process made n calls                               *)
(* State st: the history - HistEntry of every boot so far.                 *)
(***************************************************************************)
EXTENDS Boot, Json, IOUtils

ASSUME TableOk(SvBundled)

Traces == JsonDeserialize(IOEnv.TRACE_FILE)
VARIABLES tid, ei, st, verdict
vars == <<tid, ei, st, verdict>>
Tr == Traces[tid]
Ev == Tr.ev[ei]

OptFun(q) == [name \in {q[i][1] : i \in 1..Len(q)} |-> q[CHOOSE i \in 1..Len(q) : q[i][1] = name][2]]
Returned(r) == r.result[1] = "return"

Checks(e) ==
  CASE e[1] = "boot" ->
        LET r == e[2]
            o == OptFun(r.opts)
        \* a boot may fail only when the environment made one of its send() calls fail (r.fault = 1); a boot that
        \* returns - fault or not - is judged in full
        IN IF ~Returned(r) THEN [BootCompletes |-> r.fault = 1]
           ELSE LET bc == BootClauses(SvBundled, o, r.image, r.dg, st)
                IN \* a leak also counts when it shows only in the returned structs (variables that are not sent)
                [ OnlyOwnOptions       |-> bc.OnlyOwnOptions /\ LeakedReturnedNames(SvBundled, o, r.sv, st) = {} ] @@
                bc @@
                [ BootCompletes        |-> TRUE,
                  ReturnedStructsAgree |-> ReturnedAgree(SvBundled, o, r.dg, r.sv),
                  \* every datagram of this boot goes to the board this boot was asked to boot
                  SentToBootedBoard    |-> /\ Len(r.dst) = Len(r.dg)
                                           /\ \A i \in 1..Len(r.dst) : r.dst[i] = <<r.host, r.port>> ]
    [] e[1] = "end" ->
        \* (every event before this one was a boot, and each was judged - returned or not)
        [ AllBootsJudged |-> e[2] = ei - 1 /\ ei = Len(Tr.ev) ]
    [] OTHER -> [UnknownEvent |-> FALSE]

Apply(e) == IF e[1] = "boot" /\ Returned(e[2]) THEN Append(st, HistEntry(OptFun(e[2].opts), e[2].dg)) ELSE st

\* diagnosis only: which fields leaked (empty unless OnlyOwnOptions fails)
Detail(e) == IF e[1] = "boot" /\ Returned(e[2])
             THEN LET cfg == CfgOf(IF Len(e[2].dg) >= 3 THEN Reassembled(e[2].dg) ELSE <<>>)
                  IN ToString(LeakedNames(SvBundled, OptFun(e[2].opts), cfg, st)
                              \cup LeakedReturnedNames(SvBundled, OptFun(e[2].opts), e[2].sv, st))
             ELSE ""

Bad == LET ck == Checks(Ev) IN {c \in DOMAIN ck : ~ck[c]}
TInit == tid \in 1..Len(Traces) /\ ei = 1 /\ st = <<>> /\ verdict = <<>>
TStep == /\ ei <= Len(Tr.ev) /\ verdict = <<>> /\ tid' = tid
         /\ LET bad == Bad
            IN IF bad = {} THEN ei' = ei + 1 /\ st' = Apply(Ev) /\ verdict' = verdict
               ELSE /\ PrintT("REJECT|" \o ToString(tid) \o "|" \o ToString(ei) \o "|" \o ToString(bad)
                              \o "|" \o Detail(Ev))
                    /\ verdict' = <<ei, bad>> /\ ei' = ei /\ st' = st
TSpec == TInit /\ [][TStep]_vars
=============================================================================
