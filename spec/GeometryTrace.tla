--------------------------- MODULE GeometryTrace ---------------------------
(***************************************************************************)
(* Trace specification for C11: every value returned by rig's geometry     *)
(* functions is one event, judged against the BFS distance tables of Hex.  *)
(*                                                                         *)
(* A trace is [w, h, ev]; w = h = 0 for the mesh functions.  Events are    *)
(* tuples whose first element names the function:                          *)
(*   <<"tlen", s, d, n>>       shortest_torus_path_length(s, d, w, h) = n  *)
(*   <<"tvec", s, d, v>>       shortest_torus_path(s, d, w, h) = v         *)
(*   <<"mlen", s, d, n>>       shortest_mesh_path_length(s, d) = n         *)
(*   <<"mvec", s, d, v>>       shortest_mesh_path(s, d) = v                *)
(*   <<"mlenbig", s, d, n>>    shortest_mesh_path_length far out in the    *)
(*                             mesh: every number as <<hi, lo>>, meaning   *)
(*                             hi * 2^30 + lo with 0 <= lo < 2^30          *)
(*   <<"mvecbig", s, d, v>>    shortest_mesh_path(s, d) = v (or, with s = 0,  *)
(*                             minimise_xyz(d) = v) far out, as <<hi, lo>>  *)
(*   <<"min",  v, r>>          minimise_xyz(v) = r                         *)
(*   <<"ldf",  v, start, ww, wh, path>>  longest_dimension_first(v, start, *)
(*                             ww, wh) = path (ww / wh = 0 for None);      *)
(*                             path is a sequence of <<link, x, y>>        *)
(*   <<"link", l, vx, vy, opp, back>>   Links(l).to_vector() = (vx, vy),   *)
(*                             .opposite = opp, from_vector(vx, vy) = back *)
(*   <<"fromvec", x, y, l, r>> from_vector(raw difference between chip     *)
(*                             (x, y) and its neighbour over l) = r        *)
(*   <<"hex", r, sx, sy, seq>> list(concentric_hexagons(r, (sx, sy)))      *)
(*   <<"lb", ax, ay, bx, by, dead, res>>  links_between(a, b, machine with  *)
(*                             dead links `dead`) = res (set of links)     *)
(*   <<"raise", fn, args, class>>  a geometry function raised              *)
(* s, d, v, r are three-axis <<x, y, z>> tuples.                           *)
(***************************************************************************)
EXTENDS Hex, TLC, Json, IOUtils

\* Integers beyond TLC's 32 bits, as <<hi, lo>> = hi * 2^30 + lo, 0 <= lo < 2^30 (hi may be negative).
B30 == 1073741824
BNorm(hi, lo) == IF lo < 0 THEN <<hi - 1, lo + B30>> ELSE IF lo >= B30 THEN <<hi + 1, lo - B30>> ELSE <<hi, lo>>
BigOf(n) == BNorm(0, n)
BAdd(a, b) == BNorm(a[1] + b[1], a[2] + b[2])
BSub(a, b) == BNorm(a[1] - b[1], a[2] - b[2])
BIsNeg(a) == a[1] < 0
BAbs(a) == IF BIsNeg(a) THEN BSub(<<0, 0>>, a) ELSE <<a[1], a[2]>>
BLess(a, b) == a[1] < b[1] \/ (a[1] = b[1] /\ a[2] < b[2])
BMax2(a, b) == IF BLess(a, b) THEN b ELSE a
\* Hex.MeshClosed (shown equal to the breadth-first distance by HexDesign) on such numbers ...
MeshClosedBig(dx, dy) == IF BIsNeg(dx) = BIsNeg(dy) THEN BMax2(BAbs(dx), BAbs(dy)) ELSE BAdd(BAbs(dx), BAbs(dy))
\* ... and it IS the same function where both can be evaluated
ASSUME \A dx, dy \in -6..6 : MeshClosedBig(BigOf(dx), BigOf(dy)) = BigOf(MeshClosed(dx, dy))
ASSUME BSub(BigOf(5), BigOf(7)) = BigOf(-2) /\ BAdd(<<3, B30 - 1>>, BigOf(1)) = <<4, 0>> /\ BAbs(<<-1, 1>>) = <<0, B30 - 1>>

CONSTANTS MaxW,     \* largest torus dimension appearing in the traces
          MeshN     \* mesh window: offsets within -MeshN..MeshN

Traces == JsonDeserialize(IOEnv.TRACE_FILE)

\* distance tables (constant level: computed once)
TorusTab == TLCEval([W \in 1..MaxW |-> TLCEval([H \in 1..MaxW |-> TorusDistFrom(<<0, 0>>, W, H)])])
MeshTab  == TLCEval(MeshDistFromOrigin(MeshN))

\* Tori larger than the tables: the torus is the mesh folded by the lattice {(i*W, j*H)}, so its graph distance is
\* the least mesh distance to any image of the destination.  A mesh distance is at least the larger coordinate
\* and the image inside the torus is nearer than Max2(W, H), so only images with both coordinates below that
\* bound can be nearest.  (MeshClosed is shown equal to the breadth-first mesh distance by HexDesign.)
TorusCover(dx, dy, W, H) ==
    LET x0 == dx % W   y0 == dy % H   bound == Max2(W, H)
        cands == { MeshClosed(x0 + i * W, y0 + j * H) :
                     i \in (-(bound \div W) - 1)..(bound \div W), j \in (-(bound \div H) - 1)..(bound \div H) }
    IN  CHOOSE m \in cands : \A n \in cands : m <= n
\* ... and it IS the breadth-first distance on every torus of the tables (thin ones included)
ASSUME \A W \in 1..MaxW, H \in 1..MaxW : \A c \in DOMAIN TorusTab[W][H] : TorusCover(c[1], c[2], W, H) = TorusTab[W][H][c]

TorusDist(a, b, W, H) == IF W <= MaxW /\ H <= MaxW THEN TorusTab[W][H][<<(b[1] - a[1]) % W, (b[2] - a[2]) % H>>]
                         ELSE TorusCover(b[1] - a[1], b[2] - a[2], W, H)
MeshDist(a, b)        == MeshTab[<<b[1] - a[1], b[2] - a[2]>>]

VARIABLES tid, ei, verdict
vars == <<tid, ei, verdict>>

Tr == Traces[tid]
Ev == Tr.ev[ei]
TW == Tr.w
TH == Tr.h

\* position after applying a three-axis vector v to the 2-D chip a
Land(a, v, ww, wh) == << IF ww = 0 THEN a[1] + XyzToXy(v)[1] ELSE (a[1] + XyzToXy(v)[1]) % ww,
                         IF wh = 0 THEN a[2] + XyzToXy(v)[2] ELSE (a[2] + XyzToXy(v)[2]) % wh >>
NbrW(c, k, ww, wh) == << IF ww = 0 THEN c[1] + VecX(k) ELSE (c[1] + VecX(k)) % ww,
                         IF wh = 0 THEN c[2] + VecY(k) ELSE (c[2] + VecY(k)) % wh >>

\* which dimension a link steps along (1 = x, 2 = y, 3 = z)
DimOf(k) == CASE k \in {0, 3} -> 1 [] k \in {2, 5} -> 2 [] k \in {1, 4} -> 3

Checks(e) ==
  CASE e[1] = "tlen" ->
        [LenIsDist |-> e[4] = TorusDist(XyzToXy(e[2]), XyzToXy(e[3]), TW, TH)]
    [] e[1] = "tvec" ->
        [VectorLands   |-> Land(XyzToXy(e[2]), e[4], TW, TH) =
                              <<XyzToXy(e[3])[1] % TW, XyzToXy(e[3])[2] % TH>>,
         VectorMinimal |-> Hops(e[4]) = TorusDist(XyzToXy(e[2]), XyzToXy(e[3]), TW, TH)]
    [] e[1] = "mlen" ->
        [LenIsDist |-> e[4] = MeshDist(XyzToXy(e[2]), XyzToXy(e[3]))]
    [] e[1] = "mlenbig" ->      \* the same far out in the mesh: coordinates and result as <<hi, lo>> (hi * 2^30 + lo)
        LET S == e[2]  D == e[3]
            dx == BSub(BSub(D[1], D[3]), BSub(S[1], S[3]))
            dy == BSub(BSub(D[2], D[3]), BSub(S[2], S[3]))
        IN [LenIsDist |-> <<e[4][1], e[4][2]>> = MeshClosedBig(dx, dy)]
    [] e[1] = "mvecbig" ->      \* shortest_mesh_path / minimise_xyz far out in the mesh, every number as <<hi, lo>>
        LET S == e[2]  D == e[3]  vec == e[4]
            dx == BSub(BSub(D[1], D[3]), BSub(S[1], S[3]))
            dy == BSub(BSub(D[2], D[3]), BSub(S[2], S[3]))
            Lim(i) == <<vec[i][1], vec[i][2]>>
        IN [VectorLands   |-> BSub(Lim(1), Lim(3)) = dx /\ BSub(Lim(2), Lim(3)) = dy,
            VectorMinimal |-> BAdd(BAdd(BAbs(Lim(1)), BAbs(Lim(2))), BAbs(Lim(3))) = MeshClosedBig(dx, dy)]
    [] e[1] = "mvec" ->
        [VectorLands   |-> Land(XyzToXy(e[2]), e[4], 0, 0) = XyzToXy(e[3]),
         VectorMinimal |-> Hops(e[4]) = MeshDist(XyzToXy(e[2]), XyzToXy(e[3]))]
    [] e[1] = "min" ->
        [VectorLands   |-> XyzToXy(e[3]) = XyzToXy(e[2]),
         VectorMinimal |-> Hops(e[3]) = MeshTab[XyzToXy(e[2])]]
    [] e[1] = "ldf" ->
        LET v == e[2]  start == e[3]  ww == e[4]  wh == e[5]  path == e[6]
            At(i) == IF i = 0 THEN start ELSE <<path[i][2], path[i][3]>>
        IN [PathLength   |-> Len(path) = Hops(v),
            PathAdjacent |-> \A i \in 1..Len(path) : \E k \in Links : NbrW(At(i-1), k, ww, wh) = At(i),
            PathLabels   |-> \A i \in 1..Len(path) :
                                 path[i][1] \in Links /\ NbrW(At(i-1), path[i][1], ww, wh) = At(i),
            PathEnds     |-> At(Len(path)) = Land(start, v, ww, wh)]
    [] e[1] = "link" ->
        [LinkVector   |-> e[3] = VecX(e[2]) /\ e[4] = VecY(e[2]),
         LinkOpposite |-> e[5] = Opp(e[2]),
         LinkFromVec  |-> e[6] = e[2]]
    [] e[1] = "fromvec" ->
        [LinkFromVec |-> Nbr(<<e[2], e[3]>>, e[5], TW, TH) = Nbr(<<e[2], e[3]>>, e[4], TW, TH)]
    [] e[1] = "lb" ->       \* <<"lb", ax, ay, bx, by, deadlinks, result>>  links_between(a, b, machine)
        LET a == <<e[2], e[3]>>  b == <<e[4], e[5]>>
            dead == { <<e[6][i][1], e[6][i][2], e[6][i][3]>> : i \in 1..Len(e[6]) }
        IN [LinksBetween |-> { e[7][i] : i \in 1..Len(e[7]) } =
                               { k \in Links : Nbr(a, k, TW, TH) = b /\ <<a[1], a[2], k>> \notin dead }]
    [] e[1] = "raise" -> [NoException |-> FALSE]
    [] e[1] = "hex" ->
        LET r == e[2]  c0 == <<e[3], e[4]>>  seq == e[5]
            D(i) == MeshTab[<<seq[i][1] - c0[1], seq[i][2] - c0[2]>>]
        IN [RingsInRange  |-> \A i \in 1..Len(seq) :
                                 Abs(seq[i][1] - c0[1]) <= MeshN /\ Abs(seq[i][2] - c0[2]) <= MeshN
                                 /\ D(i) <= r,
            RingsComplete |-> Len(seq) = Cardinality({c \in DOMAIN MeshTab : MeshTab[c] <= r}),
            RingsOnce     |-> \A i, j \in 1..Len(seq) : i < j => seq[i] # seq[j],
            RingsNearestFirst |-> \A i \in 1..(Len(seq) - 1) :
                                 Abs(seq[i][1] - c0[1]) <= MeshN /\ Abs(seq[i][2] - c0[2]) <= MeshN /\
                                 Abs(seq[i+1][1] - c0[1]) <= MeshN /\ Abs(seq[i+1][2] - c0[2]) <= MeshN
                                 => D(i) <= D(i+1)]
    [] OTHER -> [UnknownEvent |-> FALSE]

\* informational only (never a verdict): is the walk dimension-ordered, longest first?
Bad == {c \in DOMAIN Checks(Ev) : ~Checks(Ev)[c]}

Init == tid \in 1..Len(Traces) /\ ei = 1 /\ verdict = <<>>
Step == /\ ei <= Len(Tr.ev) /\ verdict = <<>> /\ tid' = tid
        /\ IF Bad = {} THEN ei' = ei + 1 /\ verdict' = verdict
           ELSE /\ PrintT("REJECT|" \o ToString(tid) \o "|" \o ToString(ei) \o "|" \o ToString(Bad))
                /\ verdict' = <<ei, Bad>> /\ ei' = ei
Spec == Init /\ [][Step]_vars
=============================================================================
