---------------------------- MODULE MemoryTrace ----------------------------
(***************************************************************************)
(* Trace specification for C07.  One trace = a session of memory           *)
(* operations of the real MachineController against the simulated machine. *)
(* Setup: bufsize; windows: sequence of [chip |-> <<x, y>>, origin |->     *)
(* <<hi, lo>>, init |-> bytes].                                            *)
(* Events                                                                  *)
(*  <<"cmd", kind, x, y, addr, n, typ, data, rdata, rc, vx, vy, core>>     *)
(*      one SCP command as the simulator executed it, kind in "read",      *)
(*      "write", "fill", "link_read", "link_write"; addr = <<hi, lo>>;     *)
(*      data = bytes carried (fill: the 4 bytes of the word); rdata =      *)
(*      bytes returned; (vx, vy) the chip a link command reached           *)
(*  <<"op", kind, x, y, addr, n, data, result, core>>                      *)
(*      the client-level call that the commands since the previous "op"    *)
(*      belong to: kind "read" (result = bytes returned), "write"          *)
(*      (data = bytes given), "fillw" / "fillb" (data = pattern bytes      *)
(*      expected by the documentation of fill), result "ok" or the         *)
(*      exception class name; kinds "sread" / "swrite" / "sconf" (a value  *)
(*      too long for its field) are struct-field                           *)
(*      accesses whose addr is <<base, offset, core, blocksize>>: the      *)
(*      field lives at base + offset + core * blocksize (base = the struct *)
(*      base, or the per-core block base of that chip)                     *)
(*  <<"final", w, bytes>>   the simulator's memory in window w at the end  *)
(* State st: [mem: per window contents, acc: set of <<window, off, n,      *)
(* iswrite>> accesses since the last "op"].                                *)
(***************************************************************************)
EXTENDS Memory, Json, IOUtils

Traces == JsonDeserialize(IOEnv.TRACE_FILE)
VARIABLES tid, ei, st, verdict
vars == <<tid, ei, st, verdict>>
Tr == Traces[tid]
Ev == Tr.ev[ei]

Wins == 1..Len(Tr.windows)
\* the window holding [addr, addr + n) of chip c, or 0
WinOf(c, addr, n) ==
    LET ok == { w \in Wins : Tr.windows[w].chip = c /\
                   InRange(Tr.windows[w].init, Offset(addr, Tr.windows[w].origin), n) }
    IN IF ok = {} THEN 0 ELSE CHOOSE w \in ok : TRUE

IsRead(k) == k \in {"read", "link_read", "sread"}
\* <<hi, lo>> plus a small non-negative integer
AddTo(a, k) == << a[1] + ((a[2] + k) \div 65536), (a[2] + k) % 65536 >>
OpAddr(e) == IF e[2] \in {"sread", "swrite", "sconf"} THEN AddTo(e[5][1], e[5][2] + e[5][3] * e[5][4]) ELSE e[5]
\* the memory tightly coupled to each core (instruction memory below 0x8000, data memory at 0x004xxxxx) exists once
\* per core at the same addresses: a window on it belongs to <<x, y, core>>, a command / call reaches the memory of
\* the core it is addressed to (the last field of the event)
Local(a) == a[1] = 64 \/ (a[1] = 0 /\ a[2] < 32768)
Target(e) == IF e[2] \in {"link_read", "link_write"} THEN <<e[11], e[12]>>
             ELSE IF Local(e[5]) /\ e[13] # 0 THEN <<e[3], e[4], e[13]>> ELSE <<e[3], e[4]>>
OpChip(e) == IF Local(OpAddr(e)) /\ e[9] # 0 THEN <<e[3], e[4], e[9]>> ELSE <<e[3], e[4]>>

Checks(e) ==
  CASE e[1] = "cmd" ->
        LET kind == e[2]  addr == e[5]  n == e[6]  typ == e[7]
            w == WinOf(Target(e), addr, n)
            off == IF w = 0 THEN 0 ELSE Offset(addr, Tr.windows[w].origin)
        IN [InObservedWindow |-> w # 0,
            AcceptedByMachine |-> e[10] = 128,
            \* (a fill carries no data: its length is not bounded by the data buffer)
            WithinBuffer  |-> kind # "fill" => n <= Tr.bufsize,
            AccessTypeAllowed |-> kind \in {"read", "write"} => TypeAllowed(addr, n, typ),
            LinkWholeWords |-> kind \in {"link_read", "link_write", "fill"} => (Low2(addr) = 0 /\ n % 4 = 0),
            WriteCarriesData |-> kind \in {"write", "link_write"} => Len(e[8]) = n,
            \* the environment: a read returns what the model's memory holds
            EnvReadReturnsMemory |-> (w # 0 /\ IsRead(kind)) => e[9] = Slice(st.mem[w], off, n)]
    [] e[1] = "op" ->
        LET kind == e[2]  addr == OpAddr(e)  n == e[6]
            w == WinOf(OpChip(e), addr, n)
            off == IF w = 0 THEN 0 ELSE Offset(addr, Tr.windows[w].origin)
            \* per-core fields: the controller may first look up the chip's per-core block base, a 4-byte
            \* pointer whose address is e[5][5]; those reads are not part of the transfer proper
            hasaux == kind \in {"sread", "swrite", "sconf"} /\ Len(e[5]) >= 5
            auxw == IF hasaux THEN WinOf(<<e[3], e[4]>>, e[5][5], 4) ELSE 0
            auxoff == IF auxw = 0 THEN 0 ELSE Offset(e[5][5], Tr.windows[auxw].origin)
            IsAux(a) == hasaux /\ auxw # 0 /\ a[1] = auxw /\ a[2] = auxoff /\ a[3] = 4 /\ ~a[4]
            proper == { a \in st.acc : ~IsAux(a) }
            mine == { <<a[2], a[3]>> : a \in { a \in proper : a[1] = w } }
        IN IF kind = "sconf"
           \* a value too long for its field: whatever the call does (store a part, refuse), it writes nothing
           \* outside the field
           THEN [ConfinedToField |-> w # 0 /\ \A a \in proper : ~a[4] \/ (a[1] = w /\ a[2] >= off /\ a[2] + a[3] <= off + n)]
           ELSE IF e[8] # "ok" THEN [NoException |-> FALSE]
           ELSE
           [InObservedWindow |-> w # 0,
            \* every byte of the range is transferred and nothing outside it is touched, on any chip
            CoversExactly |-> w # 0 => CoversExactly(mine, off, n) /\ \A a \in proper : a[1] = w \/ a[3] = 0,
            OnlyReads  |-> IsRead(kind) => \A a \in proper : ~a[4],
            OnlyWrites |-> ~IsRead(kind) => \A a \in proper : a[4],
            \* the environment: the pointer the controller looked up is the block base the model was given
            EnvBlockBase |-> (hasaux /\ auxw # 0) => Slice(st.mem[auxw], auxoff, 4) = WordBytes(e[5][1]),
            ReturnsStoredBytes |-> (IsRead(kind) /\ w # 0) => e[7] = Slice(st.mem[w], off, n),
            StoresGivenBytes   |-> (~IsRead(kind) /\ w # 0) => Slice(st.mem[w], off, n) = e[7]]
    [] e[1] = "final" ->
        [EnvFinalMemory |-> e[3] = st.mem[e[2]]]
    [] OTHER -> [UnknownEvent |-> FALSE]

Apply(e) ==
  CASE e[1] = "cmd" ->
        LET w == WinOf(Target(e), e[5], e[6])
            off == IF w = 0 THEN 0 ELSE Offset(e[5], Tr.windows[w].origin)
            wr == ~IsRead(e[2])
            newbytes == IF e[2] = "fill" THEN FillPattern(<<e[8][4] * 256 + e[8][3], e[8][2] * 256 + e[8][1]>>, e[6])
                        ELSE e[8]
        IN [mem |-> IF w # 0 /\ wr THEN [st.mem EXCEPT ![w] = Store(@, off, newbytes)] ELSE st.mem,
            acc |-> st.acc \cup {<<w, off, e[6], wr>>}]
    [] e[1] = "op" -> [st EXCEPT !.acc = {}]
    [] OTHER -> st

Bad == {c \in DOMAIN Checks(Ev) : ~Checks(Ev)[c]}
TInit == /\ tid \in 1..Len(Traces) /\ ei = 1 /\ verdict = <<>>
         /\ st = [mem |-> [w \in 1..Len(Traces[tid].windows) |-> Traces[tid].windows[w].init], acc |-> {}]
TStep == /\ ei <= Len(Tr.ev) /\ verdict = <<>> /\ tid' = tid
         /\ IF Bad = {} THEN ei' = ei + 1 /\ st' = Apply(Ev) /\ verdict' = verdict
            ELSE /\ PrintT("REJECT|" \o ToString(tid) \o "|" \o ToString(ei) \o "|" \o ToString(Bad))
                 /\ verdict' = <<ei, Bad>> /\ ei' = ei /\ st' = st
TSpec == TInit /\ [][TStep]_vars
=============================================================================
