---------------------------- MODULE SessionTrace ----------------------------
(***************************************************************************)
(* Trace specification for whole controller sessions (beyond the listed    *)
(* properties).  One trace = one MachineController driven through a random *)
(* session against the simulated machine: loads, signals, counting and     *)
(* polling, SDRAM allocation (plain, cleared, as a file-like view, failing) *)
(* and freeing, router entries loaded / read back / cleared, IP tags, LEDs, *)
(* status and chip-info reads, application blocks, interleaved with the    *)
(* applications' own progress.                                             *)
(*                                                                         *)
(* Setup: chips <<x, y, number of cores>>, heap (bytes of SDRAM heap per   *)
(* chip), strict_tag (judge the tag_in_use flag of the memory error).      *)
(* Events:                                                                 *)
(*   <<"api", name, args, outcome, cmds, post>>   one call of a method;    *)
(*       cmds = the commands the machine executed during it (Session.tla), *)
(*       post = the machine's state afterwards (lists of the tuples of     *)
(*       Session.tla), outcome = <<"ok", ...>> | <<"raise", class, ...>>   *)
(*   <<"env", x, y, p, state, post>>   a core's application moves on       *)
(*   <<"design", state>>   (job R) the state SessionDesign reached by the  *)
(*       same calls, as printed by TLC's simulator (SessionSim.tla)        *)
(* Three kinds of clause:                                                  *)
(*   Simulator* / MachineInvariant  the environment follows the machine    *)
(*       model (so the harness' simulator is itself validated)             *)
(*   *Command(s)     rig sent exactly what the call obliges it to send     *)
(*   *Outcome / *IsMachines / *Effect   rig returned / achieved exactly    *)
(*       what the machine's state determines                               *)
(***************************************************************************)
EXTENDS Session, Json, IOUtils

Traces == JsonDeserialize(IOEnv.TRACE_FILE)
VARIABLES tid, ei, st, verdict
vars == <<tid, ei, st, verdict>>
Tr == Traces[tid]
Ev == Tr.ev[ei]
Chips == SeqSet(Tr.chips)
Heap == Tr.heap

ToState(p) == [core |-> SeqSet(p.core), alloc |-> SeqSet(p.alloc), brk |-> SeqSet(p.brk), own |-> SeqSet(p.own),
               ent |-> SeqSet(p.ent), iptag |-> SeqSet(p.iptag)]

Is(c, cmd, dest, p, a1, a2, a3) == c[1] = cmd /\ c[12] = dest /\ c[4] = p /\ c[5] = a1 /\ c[6] = a2 /\ c[7] = a3
Root == <<255, 255>>
Eff(cmds) == SelectSeq(cmds, Effective)
Raises(outcome, class) == Len(outcome) >= 2 /\ outcome[1] = "raise" /\ outcome[2] = class
CountCmd(c, state, app) == Is(c, 22, Root, 0, <<0, 1>>, <<96 + state, 65280 + app>>, <<0, 65535>>)
SignalCmd(c, name, app) == Is(c, 22, Root, 0, <<0, SigType(name)>>, <<SigCode[name], 65280 + app>>, <<0, 65535>>)
RECURSIVE SumCounts(_, _, _)
SumCounts(states, app, i) == IF i > Len(states) THEN 0
                             ELSE CountIn(st, Chips, StateCode[states[i]], app) + SumCounts(states, app, i + 1)
Pow4 == <<1, 4, 16, 64>>
RECURSIVE LedWord(_, _, _)
LedWord(leds, code, i) == IF i > Len(leds) THEN 0 ELSE code * Pow4[leds[i] + 1] + LedWord(leds, code, i + 1)
ReadOnly(c) == c[1] \in {0, 2}           \* version query (made once, for the buffer size) or memory read
Passive(c) == c[1] \in {0, 2, 3, 5, 17, 31} \/ IsCount(c) \/ (c[1] = 26 /\ c[5][1] % 256 = 2) \/ c[1] = 25

\* the two effective commands of loading n entries for app on chip xy, given the state before
EntriesOk(E, xy, app, entries, outcomeOk) ==
    LET n == Len(entries)
        base == RtrBase(st, xy[1], xy[2], n)
    IN /\ Len(E) >= 1 /\ Is(E[1], 28, xy, 0, <<0, app * 256 + 3>>, Word(n), <<0, 0>>)
       /\ IF base = 0 THEN Len(E) = 1 /\ ~outcomeOk
          ELSE /\ Len(E) = 2 /\ E[2][1] = 29 /\ E[2][12] = xy /\ E[2][4] = 0
               /\ E[2][5] = <<n, app * 256 + 2>> /\ E[2][7] = Word(base)
               /\ E[2][11] = [i \in 1..n |-> <<base + i - 1>> \o entries[i]]

ApiChecks(name, a, outcome, cmds) ==
  CASE name = "send_signal" ->
        [SignalCommand |-> IF a.sig \in DOMAIN SigCode
                           THEN outcome = <<"ok">> /\ Len(cmds) = 1 /\ SignalCmd(cmds[1], a.sig, a.app)
                           ELSE Raises(outcome, "ValueError") /\ cmds = <<>>]
    [] name = "count" ->
        IF \E i \in 1..Len(a.states) : a.states[i] \notin DOMAIN StateCode
        THEN [CountRejectsUnknownState |-> Raises(outcome, "ValueError")]
        ELSE [CountCommands |-> /\ Len(cmds) = Len(a.states)
                                /\ \A i \in 1..Len(cmds) : CountCmd(cmds[i], StateCode[a.states[i]], a.app),
              CountIsMachines |-> outcome = <<"ok", SumCounts(a.states, a.app, 1)>>]
    [] name = "wait" ->
        LET n == CountIn(st, Chips, StateCode[a.state], a.app)
            slept == (Len(cmds) - 1) * a.poll
        IN [WaitPolls |-> Len(cmds) >= 1 /\ \A i \in 1..Len(cmds) : CountCmd(cmds[i], StateCode[a.state], a.app),
            WaitResult |-> outcome = <<"ok", n>>,
            WaitStopsWhenReached |-> n >= a.count => Len(cmds) = 1,
            \* gives up no earlier than the time-out and at most one polling interval after it
            WaitHonoursTimeout |-> n < a.count => (a.timeout <= slept /\ slept <= a.timeout + a.poll)]
    [] name = "sdram_alloc" ->
        LET fails == AllocFails(st, Heap, a.x, a.y, a.size, a.tag, a.app)
            off == BrkOf(st, a.x, a.y)
            rest == { k \in 2..Len(cmds) : TRUE }
            ByteRange(c) == LET lo == Num(c[5]) - SdramBase
                            n == IF c[1] = 5 THEN Num(c[7]) ELSE Num(c[6])
                        IN lo..(lo + n - 1)
        IN [AllocCommand |-> /\ Len(cmds) >= 1 /\ Len(Eff(cmds)) = 1
                             /\ Is(cmds[1], 28, <<a.x, a.y>>, 0, <<0, a.app * 256>>, Word(a.size), Word(a.tag)),
            AllocOutcome |-> IF fails THEN Raises(outcome, "SpiNNakerMemoryError")
                             ELSE outcome = IF a.filelike = 1 THEN <<"ok", off, a.size>> ELSE <<"ok", off>>,
            \* clear=True: zeros written over exactly the block; otherwise nothing is written at all
            ClearedExactly |-> ~fails =>
                 IF a.clear = 1
                 THEN /\ \A k \in rest : \/ ReadOnly(cmds[k])
                                         \/ /\ cmds[k][1] \in {3, 5} /\ cmds[k][12] = <<a.x, a.y>>
                                            /\ cmds[k][11] = <<1>>
                                            /\ (cmds[k][1] = 5 => cmds[k][6] = <<0, 0>>)
                      /\ UNION { ByteRange(cmds[k]) : k \in { j \in rest : ~ReadOnly(cmds[j]) } } = off..(off + a.size - 1)
                 ELSE Len(cmds) = 1,
            FailureOnlyReads |-> fails => \A k \in rest : ReadOnly(cmds[k]),
            \* the error says whether the tag was the reason
            TagInUseHonest |-> (fails /\ Tr.strict_tag = 1 /\ Raises(outcome, "SpiNNakerMemoryError")) =>
                 outcome[3] = (IF TagInUse(st, a.x, a.y, a.tag, a.app) THEN 1 ELSE 0)]
    [] name = "sdram_free" ->
        [FreeCommand |-> /\ outcome = <<"ok">> /\ Len(cmds) = 1
                         /\ Is(cmds[1], 28, <<a.x, a.y>>, 0, <<0, 1>>, Word(SdramBase + a.off), <<0, 0>>)]
    [] name = "iptag_set" ->
        [IptagCommand |-> /\ outcome = <<"ok">> /\ Len(cmds) = 1
                          /\ Is(cmds[1], 26, <<a.x, a.y>>, 0, <<1, a.tag>>, Word(a.port),
                                <<a.ip[4] * 256 + a.ip[3], a.ip[2] * 256 + a.ip[1]>>)]
    [] name = "iptag_clear" ->
        [IptagCommand |-> /\ outcome = <<"ok">> /\ Len(cmds) = 1
                          /\ Is(cmds[1], 26, <<a.x, a.y>>, 0, <<3, a.tag>>, <<0, 0>>, <<0, 0>>)]
    [] name = "iptag_get" ->
        LET set == { t \in st.iptag : t[1] = a.x /\ t[2] = a.y /\ t[3] = a.tag }
        IN [IptagCommand |-> Len(cmds) = 1 /\ Is(cmds[1], 26, <<a.x, a.y>>, 0, <<2, a.tag>>, <<0, 1>>, <<0, 0>>),
            IptagIsMachines |-> /\ Len(outcome) = 4 /\ outcome[1] = "ok"
                                /\ IF set = {} THEN outcome[4] < 32768
                                   ELSE LET t == CHOOSE t \in set : TRUE
                                        IN /\ outcome[4] >= 32768 /\ outcome[3] = t[6]
                                           /\ outcome[2] = <<t[5] % 256, t[5] \div 256, t[4] % 256, t[4] \div 256>>]
    [] name = "set_led" ->
        [LedCommand |-> /\ outcome = <<"ok">> /\ Len(cmds) = 1
                        /\ Is(cmds[1], 25, <<a.x, a.y>>, 0,
                              <<0, LedWord(a.leds, CASE a.action = 1 -> 3 [] a.action = 0 -> 2 [] OTHER -> 1, 1)>>,
                              <<0, 0>>, <<0, 0>>)]
    [] name = "load_entries" ->
        [EntriesCommands |-> EntriesOk(Eff(cmds), <<a.x, a.y>>, a.app, a.entries, outcome = <<"ok">>),
         EntriesOutcome  |-> IF RtrBase(st, a.x, a.y, Len(a.entries)) = 0 THEN Raises(outcome, "SpiNNakerRouterError")
                             ELSE outcome = <<"ok">>,
         OnlyPassiveOtherwise |-> \A i \in 1..Len(cmds) : Effective(cmds[i]) \/ Passive(cmds[i])]
    [] name = "load_tables" ->
        LET E == Eff(cmds)
            OnChip(xy) == SelectSeq(E, LAMBDA c : c[12] = xy)
            fits(t) == RtrBase(st, t[1], t[2], Len(t[3])) # 0
        IN [TablesPerChip |-> \A i \in 1..Len(a.tables) :
                LET t == a.tables[i]  Ec == OnChip(<<t[1], t[2]>>)
                IN \/ (Ec = <<>> /\ outcome # <<"ok">>)           \* never reached: an earlier chip failed
                   \/ EntriesOk(Ec, <<t[1], t[2]>>, a.app, t[3], fits(t)),
            TablesNothingElse |-> \A k \in 1..Len(E) : \E i \in 1..Len(a.tables) : E[k][12] = <<a.tables[i][1], a.tables[i][2]>>,
            TablesOutcome |-> IF \A i \in 1..Len(a.tables) : fits(a.tables[i]) THEN outcome = <<"ok">>
                              ELSE Raises(outcome, "SpiNNakerRouterError")]
    [] name = "clear_entries" ->
        [ClearCommand |-> /\ outcome = <<"ok">> /\ Len(cmds) = 1
                          /\ Is(cmds[1], 28, <<a.x, a.y>>, 0, <<0, a.app * 256 + 5>>, <<0, 1>>, <<0, 0>>)]
    [] name = "get_entries" ->
        LET want == { <<e[3], e[4], 0, e[5], e[6], e[7], e[8], e[9], e[10]>> :
                        e \in { f \in st.ent : f[1] = a.x /\ f[2] = a.y } }
        IN [ReadBackIsMachines |-> /\ Len(outcome) = 2 /\ outcome[1] = "ok" /\ SeqSet(outcome[2]) = want
                                   /\ Len(outcome[2]) = Cardinality(want),
            ReadBackOnlyReads |-> \A i \in 1..Len(cmds) : ReadOnly(cmds[i])]
    [] name = "load_app" ->
        LET cores == UNION { { <<t[1], t[2], p>> : p \in SeqSet(t[3]) } : t \in SeqSet(a.targets) }
            waiting == Loaded(st, cores, a.app, TRUE)
        IN [LoadOutcome |-> outcome = <<"ok">>,
            \* the requested cores hold the application, waiting or - the start signal reaching every waiting core
            \* of the application - running; nothing else changes
            LoadEffect |-> ToState(Ev[6]) = IF a.wait = 1 THEN waiting ELSE Signal(waiting, 3, a.app)]
    [] name = "app_exit" ->
        [ExitStops |-> outcome = <<"ok">> /\ Len(cmds) = 1 /\ SignalCmd(cmds[1], "stop", a.app)]
    [] name = "status" ->
        [StatusIsMachines |-> outcome = <<"ok", CoreSt(st, <<a.x, a.y, a.p>>)[1], CoreSt(st, <<a.x, a.y, a.p>>)[2]>>,
         StatusOnlyReads |-> \A i \in 1..Len(cmds) : ReadOnly(cmds[i])]
    [] name = "chip_info" ->
        LET nc == (CHOOSE ch \in Chips : ch[1] = a.x /\ ch[2] = a.y)[3]
        IN [InfoIsMachines |-> /\ Len(outcome) = 4 /\ outcome[1] = "ok" /\ outcome[2] = nc
                               /\ \A p \in 1..(nc - 1) : outcome[3][p + 1] = CoreSt(st, <<a.x, a.y, p>>)[1]
                               /\ outcome[4] = LargestFree(st, a.x, a.y)]
    [] OTHER -> [KnownMethod |-> FALSE]

Checks(e) ==
  CASE e[1] = "api" ->
        LET cmds == e[5]  post == ToState(e[6])
        IN IF \E i \in 1..Len(cmds) : ~Modelled(cmds[i]) THEN [CommandsModelled |-> FALSE]
           ELSE [SimulatorFollowsMachine |-> post = Fold(st, Heap, cmds, 1),
                 SimulatorRepliesFollowMachine |-> RepliesOk(st, Heap, Chips, cmds, 1),
                 MachineInvariant |-> MachineInv(post, Heap),
                 NothingRefused |-> \A i \in 1..Len(cmds) : cmds[i][9] = 128]
                @@ ApiChecks(e[2], e[3], e[4], cmds)
    [] e[1] = "env" ->
        LET xyp == <<e[2], e[3], e[4]>>
        IN [EnvProgressLegal |-> CoreSt(st, xyp)[1] # StIdle /\ e[5] \in {StRte, StWdog, StCMain, StRun, StSync0, StSync1, StExit},
            EnvProgressApplied |-> ToState(e[6]) = OwnProgress(st, xyp, e[5])]
    [] e[1] = "design" ->
        \* job R: the calls were chosen by TLC's simulator from SessionDesign; the real machine must now be in the
        \* state the design reached by the same calls
        [DesignStateReached |-> ToState(e[2]) = st]
    [] OTHER -> [UnknownEvent |-> FALSE]

Apply(e) == IF e[1] = "design" THEN st ELSE ToState(e[6])

Detail(e) == IF e[1] = "api"
             THEN e[2] \o " args=" \o ToString(e[3]) \o " outcome=" \o ToString(e[4]) \o " effective commands="
                  \o ToString(Eff(e[5])) \o " machine before=" \o ToString(st)
             ELSE IF e[1] = "design" THEN "design expects " \o ToString(ToState(e[2])) \o " machine is in " \o ToString(st)
             ELSE "env " \o ToString(<<e[2], e[3], e[4], e[5]>>)
Bad == LET ck == Checks(Ev) IN {c \in DOMAIN ck : ~ck[c]}
TInit == /\ tid \in 1..Len(Traces) /\ ei = 1 /\ verdict = <<>> /\ st = Empty
TStep == /\ ei <= Len(Tr.ev) /\ verdict = <<>> /\ tid' = tid
         /\ LET bad == Bad
            IN IF bad = {} THEN ei' = ei + 1 /\ st' = Apply(Ev) /\ verdict' = verdict
               ELSE /\ PrintT("REJECT|" \o ToString(tid) \o "|" \o ToString(ei) \o "|" \o ToString(bad)
                              \o "|" \o Detail(Ev))
                    /\ verdict' = <<ei, bad>> /\ ei' = ei /\ st' = st
TSpec == TInit /\ [][TStep]_vars
=============================================================================
