------------------------------- MODULE Scripts -------------------------------
(***************************************************************************)
(* rig's command-line tools (rig-ps, rig-iobuf, rig-counters, rig-info,    *)
(* rig-power, rig-discover, rig-boot) - beyond the listed properties.      *)
(* For every tool: which part of the machine's state its report is a       *)
(* function of, and what the report has to contain.  Written from          *)
(* docs/source/utility_apps.rst, the tools' --help texts and the           *)
(* documentation of the things they show (AppState, RouterDiagnostics,     *)
(* the boot option presets, the BMP's ADC block) - not from the scripts.   *)
(*                                                                         *)
(* The machine M a tool is pointed at:                                     *)
(*   w, h         booted dimensions                                        *)
(*   chips        sequence of records x, y, nc (cores), links (working     *)
(*                links 0..5: E NE N W SW S), cores: sequence (core 0      *)
(*                first) of records s (state number), rt (run-time error   *)
(*                code), app (application name), id (application id), io   *)
(*                (the core's IOBUF: blocks <<length, bytes>> in chain     *)
(*                order; only the first `length` bytes of a block are text)*)
(*   sw, arch     "SC&MP", "SpiNNaker" (the version string is sw/arch)     *)
(*   ver, labels, date   software version <<a, b, c>>, its labels, build   *)
(*                date (seconds since 1970, UTC)                           *)
(* 32-bit counters travel as <<high half, low half>>; sums of them as      *)
(* three 16-bit limbs <<2^32s, 2^16s, units>> (TLC integers are 32-bit).   *)
(***************************************************************************)
EXTENDS Integers, Sequences, FiniteSets, TLC, SequencesExt

SeqToSet(q) == { q[i] : i \in 1..Len(q) }
NoRepeats(q) == Cardinality(SeqToSet(q)) = Len(q)

(***************************************************************************)
(* Core states as SARK numbers them and as rig names them (AppState).      *)
(***************************************************************************)
StateNumbers == (0..11) \cup {15}
StateName(n) ==
    CASE n = 0 -> "dead" [] n = 1 -> "power_down" [] n = 2 -> "runtime_exception" [] n = 3 -> "watchdog"
      [] n = 4 -> "init" [] n = 5 -> "wait" [] n = 6 -> "c_main" [] n = 7 -> "run" [] n = 8 -> "sync0"
      [] n = 9 -> "sync1" [] n = 10 -> "pause" [] n = 11 -> "exit" [] n = 15 -> "idle" [] OTHER -> "?"

(***************************************************************************)
(* rig-ps.  One line per core: x, y, core, state name, application name,   *)
(* application id, as the machine has them.  The optional chip and core    *)
(* arguments restrict the listing to that chip / core; --state, --name     *)
(* and --app-id each keep the lines whose field matches the regular        *)
(* expression; restrictions of different kinds hold together.              *)
(*                                                                         *)
(* Regular expressions are matched at the beginning of the field (the      *)
(* documented example --state '(?!run)' lists what does NOT begin with     *)
(* "run", which says as much).  The generator draws expressions from a     *)
(* small grammar and sends them as <<form, literals>>:                     *)
(*    any        ""            everything                                  *)
(*    prefix     lit           the field begins with lit                   *)
(*    full       lit$          the field is lit                            *)
(*    notprefix  (?!lit)       the field does not begin with lit           *)
(*    oneof      (a|b|..)$     the field is one of the literals            *)
(*    contains   .*lit         lit occurs somewhere in the field           *)
(***************************************************************************)
StartsWith(str, lit) == Len(str) >= Len(lit) /\ SubSeq(str, 1, Len(lit)) = lit
Occurs(str, lit) == \E i \in 1..(Len(str) - Len(lit) + 1) : SubSeq(str, i, i + Len(lit) - 1) = lit
Matches(pat, str) ==
    LET form == pat[1]  lits == pat[2] IN
    CASE form = "any" -> TRUE
      [] form = "prefix" -> StartsWith(str, lits[1])
      [] form = "full" -> str = lits[1]
      [] form = "notprefix" -> ~StartsWith(str, lits[1])
      [] form = "oneof" -> \E i \in 1..Len(lits) : str = lits[i]
      [] form = "contains" -> Occurs(str, lits[1])
      [] OTHER -> FALSE
\* zero or one expression per option; no expression keeps everything
Passes(pats, str) == \A i \in 1..Len(pats) : Matches(pats[i], str)

CoreLines(M) ==
    UNION { { [x |-> M.chips[i].x, y |-> M.chips[i].y, p |-> p - 1, state |-> StateName(M.chips[i].cores[p].s),
               app |-> M.chips[i].cores[p].app, id |-> M.chips[i].cores[p].id] : p \in 1..M.chips[i].nc }
            : i \in 1..Len(M.chips) }
\* sel: x, y, p (-1: not given), state, name, appid (sequences of at most one expression)
Selected(sel, c) ==
    /\ sel.x = -1 \/ (c.x = sel.x /\ c.y = sel.y)
    /\ sel.p = -1 \/ c.p = sel.p
    /\ Passes(sel.state, c.state) /\ Passes(sel.name, c.app) /\ Passes(sel.appid, ToString(c.id))
PsListing(M, sel) == { c \in CoreLines(M) : Selected(sel, c) }
PsHeader == << "X   Y   P   State             Application      App ID",
               "--- --- --- ----------------- ---------------- ------" >>

(***************************************************************************)
(* rig-iobuf: the text of the core's IOBUF - the first `length` bytes of   *)
(* every block of its chain, in chain order, and nothing else.             *)
(***************************************************************************)
IobufText(io) == FoldLeft(LAMBDA acc, b : acc \o SubSeq(b[2], 1, b[1]), <<>>, io)
ChipAt(M, x, y) == LET ix == { i \in 1..Len(M.chips) : M.chips[i].x = x /\ M.chips[i].y = y }
                   IN IF ix = {} THEN 0 ELSE CHOOSE i \in ix : TRUE

(***************************************************************************)
(* rig-counters.  A router has 16 diagnostic counters of 32 bits which     *)
(* count up and wrap round; the tool reads them all when it starts and     *)
(* once more per sample, and reports for each sample by how much each      *)
(* selected counter has advanced since the reading before - for each chip  *)
(* (--detailed) or summed over the chips.  Counters are selected by the    *)
(* names of rig's RouterDiagnostics (in register order).                   *)
(***************************************************************************)
CounterNames == << "local_multicast", "external_multicast", "local_p2p", "external_p2p",
                   "local_nearest_neighbour", "external_nearest_neighbour", "local_fixed_route",
                   "external_fixed_route", "dropped_multicast", "dropped_p2p", "dropped_nearest_neighbour",
                   "dropped_fixed_route", "counter12", "counter13", "counter14", "counter15" >>
CounterIndex(name) == LET ix == { i \in 1..16 : CounterNames[i] = name } IN IF ix = {} THEN 0 ELSE CHOOSE i \in ix : TRUE
DefaultCounters == << "dropped_multicast" >>

\* the difference of two readings of a counter that wraps at base^2, on two limbs of `base`
SubLimbs(now, before, base) ==
    LET lo == now[2] - before[2]
        borrow == IF lo < 0 THEN 1 ELSE 0
        hi == now[1] - before[1] - borrow
    IN << (hi + base) % base, (lo + base) % base >>
Advance32(now, before) == SubLimbs(now, before, 65536)
\* the same on plain numbers below a modulus (used by the design job, which also shows the two agree)
ModDiff(now, before, modulus) == (now - before + modulus) % modulus
\* adding a 32-bit quantity to a three-limb sum
AddLimbs(acc, v) ==
    LET lo == acc[3] + v[2]
        mid == acc[2] + v[1] + lo \div 65536
    IN << acc[1] + mid \div 65536, mid % 65536, lo % 65536 >>
Widen(v) == << 0, v[1], v[2] >>

\* readings: sequence (one per poll) of sequences (one per chip) of <<x, y, 16 counters>>
AdvanceAt(readings, k, j, name) == Advance32(readings[k + 1][j][3][CounterIndex(name)], readings[k][j][3][CounterIndex(name)])
SummedAdvance(readings, k, name) ==
    FoldLeft(LAMBDA acc, j : AddLimbs(acc, AdvanceAt(readings, k, j, name)), <<0, 0, 0>>,
             [j \in 1..Len(readings[k]) |-> j])

(***************************************************************************)
(* rig-info on a SpiNNaker machine.                                        *)
(***************************************************************************)
\* seconds since 1970 (below 2^31) as the UTC calendar date <<year, month, day, hour, minute, second>>
Civil(secs) ==
    LET days == secs \div 86400
        rem == secs % 86400
        z == days + 719468
        era == z \div 146097
        doe == z - era * 146097
        yoe == (doe - doe \div 1460 + doe \div 36524 - doe \div 146096) \div 365
        doy == doe - (365 * yoe + yoe \div 4 - yoe \div 100)
        mp == (5 * doy + 2) \div 153
        d == doy - (153 * mp + 2) \div 5 + 1
        m == IF mp < 10 THEN mp + 3 ELSE mp - 9
        y == yoe + era * 400 + (IF m <= 2 THEN 1 ELSE 0)
    IN << y, m, d, rem \div 3600, (rem % 3600) \div 60, rem % 60 >>

\* how many chips have n cores, for every n that occurs
CoreHistogram(M) == { << M.chips[i].nc, Cardinality({ j \in 1..Len(M.chips) : M.chips[j].nc = M.chips[i].nc }) >>
                      : i \in 1..Len(M.chips) }

LinkVector(l) == CASE l = 0 -> <<1, 0>> [] l = 1 -> <<1, 1>> [] l = 2 -> <<0, 1>>
                   [] l = 3 -> <<-1, 0>> [] l = 4 -> <<-1, -1>> [] OTHER -> <<0, -1>>
\* a link that leaves the booted rectangle: it exists only when the machine is wired as a torus
LeavesRectangle(M, x, y, l) == LET v == LinkVector(l) IN ~(x + v[1] \in 0..M.w - 1 /\ y + v[2] \in 0..M.h - 1)
EdgeLinks(M) == { <<x, y, l>> \in (0..M.w - 1) \X (0..M.h - 1) \X (0..5) : LeavesRectangle(M, x, y, l) }
WorkingLinks(M) == UNION { { << M.chips[i].x, M.chips[i].y, l >> : l \in SeqToSet(M.chips[i].links) } : i \in 1..Len(M.chips) }
\* which answers to "torus or mesh?" the state of the edge links admits: all of them working - a torus, none - a
\* mesh; in between the tool estimates (the documentation gives no rule) and either answer stands
TopologyAdmits(M, answer) ==
    LET up == EdgeLinks(M) \cap WorkingLinks(M) IN
    /\ answer \in {"torus", "mesh"}
    /\ up = EdgeLinks(M) => answer = "torus"
    /\ up = {} => answer = "mesh"
\* links of working chips that do not work, split by whether a working chip sits at the far end (the far end is
\* taken round the edge exactly when the machine is a torus)
BrokenLinks(M) == { <<M.chips[i].x, M.chips[i].y, l>> : i \in 1..Len(M.chips), l \in 0..5 } \ WorkingLinks(M)
FarEnd(M, xyl, torus) ==
    LET v == LinkVector(xyl[3])  fx == xyl[1] + v[1]  fy == xyl[2] + v[2]
    IN IF torus THEN << (fx + M.w) % M.w, (fy + M.h) % M.h >> ELSE << fx, fy >>
BrokenBetweenChips(M, torus) ==
    { xyl \in BrokenLinks(M) : LET f == FarEnd(M, xyl, torus) IN ChipAt(M, f[1], f[2]) # 0 }

\* <<application name, state name, number of cores>> for every combination that occurs
AppStateCounts(M) ==
    LET lines == CoreLines(M) IN
    { << c.app, c.state, Cardinality({ d \in lines : d.app = c.app /\ d.state = c.state }) >> : c \in lines }

(***************************************************************************)
(* rig-info on a BMP: the ADC block of the board.  raw: the 22 values of   *)
(* the block (8 unsigned and 12 signed 16-bit numbers, two words).         *)
(* Voltages: 2.5 / 4096 V per count (1.2 V rails at positions 1-3, 1.8 V   *)
(* at 4), 3.75 / 4096 (3.3 V at 6), 15 / 4096 (supply at 7); temperatures  *)
(* 1 / 256 degree (top 8, bottom 9, external 12, 13; -32768: no sensor);   *)
(* fans in RPM (16, 17; -1: no fan).  Positions count from 0.  A printed   *)
(* figure with d decimals must be the nearest one (half a unit of the last *)
(* place either way, and one part in 16384 for the arithmetic).            *)
(***************************************************************************)
Abs(n) == IF n < 0 THEN -n ELSE n
\* printed: the figure times 100; count * scale / 16384 volts
VoltsShown(printed, count, scale) == Abs(printed * 16384 - count * scale * 100) <= 8192 + 1
\* printed: the figure times 10; count / 256 degrees
DegreesShown(printed, count) == Abs(printed * 256 - count * 10) <= 128 + 1

(***************************************************************************)
(* rig-power: the boards named by -b (numbers and ranges lo-hi, separated  *)
(* by commas; all 24 boards of the frame when not given) are switched on   *)
(* (the default) or off.                                                   *)
(***************************************************************************)
BoardsNamed(ranges) == IF Len(ranges) = 0 THEN 0..23
                       ELSE UNION { ranges[i][1]..(IF ranges[i][2] = -1 THEN ranges[i][1] ELSE ranges[i][2]) : i \in 1..Len(ranges) }
SwitchOn(word) == word \in {"", "on", "1"}

(***************************************************************************)
(* rig-boot: the predefined boot options of the single-board systems       *)
(* (rig.machine_control.boot.spinN_boot_options): hardware version and the *)
(* LED configuration word (as halves).                                     *)
(***************************************************************************)
Preset(n) == CASE n = 1 -> [hw_ver |-> 1, led0 |-> <<7, 24836>>]        \* 0x00076104
               [] n = 2 -> [hw_ver |-> 2, led0 |-> <<0, 24835>>]        \* 0x00006103
               [] n = 3 -> [hw_ver |-> 3, led0 |-> <<0, 1282>>]         \* 0x00000502
               [] n = 4 -> [hw_ver |-> 4, led0 |-> <<0, 1>>]
               [] OTHER -> [hw_ver |-> 5, led0 |-> <<0, 1>>]
BootPort == 54321
\* a little-endian field of `size` bytes at `offset` (from 0) of a byte sequence, as halves
FieldHalves(bytes, offset, size) ==
    LET b(i) == IF i < size THEN bytes[offset + i + 1] ELSE 0
    IN << b(2) + 256 * b(3), b(0) + 256 * b(1) >>
=============================================================================
