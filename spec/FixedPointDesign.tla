-------------------------- MODULE FixedPointDesign --------------------------
(***************************************************************************)
(* Design job for C16.  The bit-sequence rules of FixedPoint.tla (shift,   *)
(* drop low bits, compare lengths) are explored against the property       *)
(* stated in plain integer arithmetic, on a toy float line and on every    *)
(* small format, where everything fits TLC's integers:                     *)
(*   toy float  = sign, odd mantissa below 2^MantBits (or 0), exponent in  *)
(*                EMin..EMax (both zeros included);                         *)
(*   formats    = signed / unsigned, 1..MaxN bits, 0..n+1 fractional bits. *)
(* Phase "sweep": the machine walks up the toy float line (to the next     *)
(* float, or to any larger one when AllPairs), converting each float.      *)
(*   ToFp = clamp(trunc(x * 2^f)) in integers; never leaves the range;     *)
(*   within one step inside the range; monotone along the walk; the        *)
(*   symbolic orders on doubles and fixed values agree with the integers.  *)
(* Phase "invert": the machine walks through every value of the format.    *)
(*   ToFp(v * 2^-f) = v; the two's complement word of v is v mod 2^n.      *)
(***************************************************************************)
EXTENDS FixedPoint

CONSTANTS MantBits, EDown, EMax, MaxN, AllPairs
EMin == 0 - EDown          \* (a cfg file cannot hold a negative number)

\* ---------------------------------------------------------------- integers <-> bit sequences
IntBitLen(k) == CHOOSE c \in 0..30 : k < 2^c /\ (c = 0 \/ k >= 2^(c - 1))
NatBits(k) == LET c == IntBitLen(k) IN [i \in 1..c |-> (k \div 2^(c - i)) % 2]
IntOf(p) == LET S[i \in 0..Len(p)] == IF i = 0 THEN 0 ELSE 2 * S[i - 1] + p[i] IN S[Len(p)]
FxOfInt(k) == IF k < 0 THEN [s |-> 1, m |-> NatBits(0 - k)] ELSE [s |-> 0, m |-> NatBits(k)]
IntOfFx(v) == IF v.s = 1 THEN 0 - IntOf(v.m) ELSE IntOf(v.m)

\* the limb transport decodes to the same bits
ASSUME \A k \in {0, 1, 2, 255, 32767, 32768, 65535, 65536, 65537, 1000000, 1073741823, 536870912} :
          LET hi == k \div 65536
              lo == k % 65536
              q  == IF k = 0 THEN <<>> ELSE IF hi = 0 THEN <<lo>> ELSE <<hi, lo>>
          IN  NatOfLimbs(q) = NatBits(k) /\ LimbsWellFormed(q) /\ Canonical(NatOfLimbs(q))
ASSUME NatOfLimbs(<<1, 0, 0, 0, 0>>) = <<1>> \o Zeros(64)
ASSUME NatOfLimbs(<<65535, 65535, 65535, 65535>>) = Ones(64)
ASSUME SigLen(<<1, 0, 1, 0, 0>>) = 3 /\ SigLen(<<>>) = 0

\* ---------------------------------------------------------------- the toy float line
OddMants == { k \in 1..(2^MantBits - 1) : k % 2 = 1 }
ToyFloats == TLCEval({ [s |-> sg, m |-> NatBits(k), e |-> ex] : sg \in {0, 1}, k \in OddMants, ex \in EMin..EMax }
                     \cup { [s |-> 0, m |-> <<>>, e |-> 0], [s |-> 1, m |-> <<>>, e |-> 0] })
Formats == { <<sg, nb, fr>> \in {0, 1} \X (1..MaxN) \X (0..(MaxN + 1)) : fr <= nb + 1 }
Fm(t) == [signed |-> t[1] = 1, n |-> t[2], f |-> t[3]]

Den == 2^(0 - EMin)
\* x as an integer multiple of 2^EMin
XInt(x) == (IF x.s = 1 THEN -1 ELSE 1) * IntOf(x.m) * 2^(x.e - EMin)
\* x * 2^f as an integer multiple of 2^EMin
Scaled(x, f) == XInt(x) * 2^f
\* a strict total order on the toy floats that refines the numeric one (-0 just before +0)
Key(x) == 2 * XInt(x) + (1 - x.s)
KeyOf == TLCEval([x \in ToyFloats |-> Key(x)])
Keys == TLCEval({ KeyOf[x] : x \in ToyFloats })
NFloats == Cardinality(ToyFloats)
ASSUME Cardinality(Keys) = NFloats                         \* the order is strict
RankOf == TLCEval([x \in ToyFloats |-> 1 + Cardinality({ j \in Keys : j < KeyOf[x] })])
\* the float line in ascending order
Line == TLCEval([r \in 1..NFloats |-> CHOOSE x \in ToyFloats : RankOf[x] = r])

\* ---------------------------------------------------------------- the property in integers
Lo(F) == IF F.signed THEN 0 - 2^(F.n - 1) ELSE 0
Hi(F) == IF F.signed THEN 2^(F.n - 1) - 1 ELSE 2^F.n - 1
IntTrunc(q) == IF q >= 0 THEN q \div Den ELSE 0 - ((0 - q) \div Den)
Clamp(k, lo, hi) == IF k < lo THEN lo ELSE IF k > hi THEN hi ELSE k
Expected(F, x) == Clamp(IntTrunc(Scaled(x, F.f)), Lo(F), Hi(F))
Abs(k) == IF k < 0 THEN 0 - k ELSE k

VARIABLES fmt,       \* the format (fixed per behaviour)
          phase,     \* "sweep" or "invert"
          pos, res,  \* sweep: position on the float line and the conversion of that float (symbolic)
          ival       \* invert: current fixed-point value as an integer

dvars == <<fmt, phase, pos, res, ival>>
cur == Line[pos]

DInit == /\ fmt \in Formats
         /\ phase = "sweep" /\ pos = 1 /\ res = ToFp(Fm(fmt), Line[1]) /\ ival = 0

Up == /\ phase = "sweep"
      /\ \E np \in (IF AllPairs THEN (pos + 1)..NFloats ELSE {pos + 1} \cap (1..NFloats)) :
            pos' = np /\ res' = ToFp(Fm(fmt), Line[np])
      /\ UNCHANGED <<fmt, phase, ival>>
Turn == /\ phase = "sweep" /\ pos = NFloats
        /\ phase' = "invert" /\ ival' = Lo(Fm(fmt))
        /\ UNCHANGED <<fmt, pos, res>>
NextValue == /\ phase = "invert" /\ ival < Hi(Fm(fmt))
             /\ ival' = ival + 1
             /\ UNCHANGED <<fmt, phase, pos, res>>
DNext == Up \/ Turn \/ NextValue
DSpec == DInit /\ [][DNext]_dvars

\* ---------------------------------------------------------------- what is checked
\* the symbolic rule is clamp(trunc(x * 2^f))
ClampTrunc == IntOfFx(res) = Expected(Fm(fmt), cur) /\ FxCanonical(res)
\* never leaves the range (in integers, and by the symbolic range predicate used on traces)
NeverLeavesRange == /\ Lo(Fm(fmt)) <= IntOfFx(res) /\ IntOfFx(res) <= Hi(Fm(fmt))
                    /\ FxInRange(Fm(fmt), res)
\* the symbolic out-of-range tests mean what they say
OutTestsExact == LET k == IntTrunc(Scaled(cur, fmt[3])) IN
                 /\ (OutAbove(Fm(fmt), cur) <=> (k > Hi(Fm(fmt))))
                 /\ (OutBelow(Fm(fmt), cur) <=> (k < Lo(Fm(fmt))))
\* inside the range the result is within one least-significant step of the input, on the side of zero
WithinOneStep == LET q == Scaled(cur, fmt[3])
                     r == IntOfFx(res) * Den
                 IN  (Lo(Fm(fmt)) * Den <= q /\ q <= Hi(Fm(fmt)) * Den)
                        => (Abs(q - r) < Den /\ Abs(r) <= Abs(q))
\* everything the toy line contains is in the property's domain
AllFinite == Finite(cur, fmt[3])
\* the symbolic orders agree with the integers (independent of the format: checked for one format)
OrdersExact ==
    /\ (fmt = <<1, MaxN, 0>> /\ phase = "sweep") =>
          \A y \in ToyFloats : /\ (DblLess(cur, y) <=> (XInt(cur) < XInt(y)))
                               /\ (DblLE(cur, y) <=> (XInt(cur) <= XInt(y)))
                               /\ (DblEq(cur, y) <=> (XInt(cur) = XInt(y)))
    /\ phase = "invert" =>
          \A k \in Lo(Fm(fmt))..Hi(Fm(fmt)) :
              /\ (FxLess(FxOfInt(ival), FxOfInt(k)) <=> (ival < k))
              /\ (FxLE(FxOfInt(ival), FxOfInt(k)) <=> (ival <= k))
\* monotone along the walk, in integers and by the symbolic orders used on traces
Monotone == [][(phase' = "sweep" /\ pos' # pos) =>
                   /\ DblLE(cur, cur') /\ XInt(cur) <= XInt(cur')
                   /\ FxLE(res, res') /\ IntOfFx(res) <= IntOfFx(res')]_dvars
\* converting v * 2^-f back gives v; MinVal/MaxVal are the ends; the word is v mod 2^n
RoundTrip == phase = "invert" =>
                LET v == FxOfInt(ival) IN
                /\ FxInRange(Fm(fmt), v)
                /\ ToFp(Fm(fmt), FloatOf(v, fmt[3])) = v
                /\ ~OutOfRange(Fm(fmt), FloatOf(v, fmt[3]))
                /\ SigLen(v.m) <= MaxN
Ends == IntOfFx(MinVal(Fm(fmt))) = Lo(Fm(fmt)) /\ IntOfFx(MaxVal(Fm(fmt))) = Hi(Fm(fmt))
WordIsModulo == phase = "invert" =>
                   LET v == FxOfInt(ival)
                       w == TwosWord(v, fmt[2])
                   IN  /\ Len(w) = fmt[2]
                       /\ IntOf(w) = (ival + 2^fmt[2]) % (2^fmt[2])
                       /\ IsWordOf(FxOfInt(IntOf(w)), v, fmt[2])
                       /\ (ival + 1 <= Hi(Fm(fmt)) => ~IsWordOf(FxOfInt(IntOf(w)), FxOfInt(ival + 1), fmt[2]))
=============================================================================
