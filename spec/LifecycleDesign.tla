-------------------------- MODULE LifecycleDesign --------------------------
(***************************************************************************)
(* Design job for the application life cycle (beyond the listed            *)
(* properties; hosted by C09): a host probes a small machine on which a    *)
(* foreign application already holds a core, a block of SDRAM and router   *)
(* entries, plans where its vertices go from what the probe said, enters   *)
(* the application block, allocates a block per vertex, loads one router   *)
(* entry per chip used, loads its cores (waiting), starts them, releases   *)
(* the barrier - in any order the controller's calls allow, interleaved    *)
(* with the cores' own progress (run -> sync0 / exit / runtime exception,  *)
(* also the foreign application's) - and leaves the block at ANY point     *)
(* (normally or by an exception: the block's exit sends stop either way).  *)
(* Every call is composed of the machine steps of Session.tla.             *)
(*                                                                         *)
(* Variant  "ok"                                                           *)
(*          "stop-cores-only"       the stop signal only halts cores       *)
(*          "entries-without-app"   router entries are loaded without the  *)
(*                                  application id (under id 0)            *)
(*          "plan-ignores-probe"    vertices are placed on any core, idle  *)
(*                                  or not                                 *)
(* The last three are wrong designs that must be refuted.                  *)
(***************************************************************************)
EXTENDS Lifecycle

CONSTANTS ChipSet,        \* set of <<x, y, number of cores>>
          Verts,          \* the vertices: each needs one core, BlockSize bytes of SDRAM, one entry on its chip
          AppId, Foreign, Heap, BlockSize, Variant

VARIABLES machineNow,     \* the machine (Session.tla)
          machineAtStart, \* the machine as the life cycle found it
          phaseNow,       \* "boot" -> "probed" -> "planned" -> "inside" -> "left"
          probeSeen,      \* what the probe reported
          planMade,       \* vertex -> <<x, y, p>>
          grantsMade,     \* what the calls asked for so far
          doneSteps,      \* which calls of the block have been made
          lastStep        \* [kind, app] of the step that led here
vars == <<machineNow, machineAtStart, phaseNow, probeSeen, planMade, grantsMade, doneSteps, lastStep>>

TwoChips == {<<0, 0, 3>>, <<1, 0, 2>>}           \* three application cores (for the cfgs, which cannot write tuples)
TwoChipsFour == {<<0, 0, 3>>, <<1, 0, 3>>}
AppCores == CoresOf(ChipSet)
Ent(pos, n) == <<pos, 0, n, 0, 15, 0, 1>>

\* the foreign application as the life cycle finds it: maybe a core (running or at a barrier), a tagged block, and
\* router positions with an entry on chip (0, 0)
ForeignStarts ==
    LET withBlock == SdramAlloc(Empty, Heap, 0, 0, 4, 1, Foreign)
        withEnts  == RtrLoad(RtrAlloc(withBlock, 0, 0, 2, Foreign), 0, 0, Foreign, <<Ent(1, 9)>>)
    IN { withEnts } \cup { OwnProgress(Loaded(withEnts, {k}, Foreign, FALSE), k, state) :
                             k \in { c \in AppCores : c[1] = 0 /\ c[2] = 0 }, state \in {StRun, StSync0} }

DInit == /\ machineNow \in ForeignStarts /\ machineAtStart = machineNow
         /\ phaseNow = "boot" /\ probeSeen = {} /\ planMade = <<>> /\ grantsMade = NoGrants /\ doneSteps = {}
         /\ lastStep = [kind |-> "init", app |-> 0]

Step(kind, app) == lastStep' = [kind |-> kind, app |-> app]

DProbe == /\ phaseNow = "boot" /\ phaseNow' = "probed"
          /\ probeSeen' = ProbeOf(machineNow, ChipSet, Heap)
          /\ UNCHANGED <<machineNow, machineAtStart, planMade, grantsMade, doneSteps>> /\ Step("probe", AppId)

\* place_and_route: every vertex gets a core of its own among those the probe reported idle
Placements == LET pool == IF Variant = "plan-ignores-probe" THEN AppCores ELSE PrIdle(probeSeen)
              IN { f \in [Verts -> pool] : \A v, u \in Verts : v # u => f[v] # f[u] }
DPlan(f) == /\ phaseNow = "probed" /\ phaseNow' = "planned" /\ planMade' = f
            /\ UNCHANGED <<machineNow, machineAtStart, probeSeen, grantsMade, doneSteps>> /\ Step("plan", AppId)
DEnter == /\ phaseNow = "planned" /\ phaseNow' = "inside"
          /\ UNCHANGED <<machineNow, machineAtStart, probeSeen, planMade, grantsMade, doneSteps>> /\ Step("enter", AppId)

Stop(s) == IF Variant = "stop-cores-only" THEN [s EXCEPT !.core = { c \in @ : c[5] # AppId }]
           ELSE Signal(s, SigCode["stop"], AppId)
\* leaving the block, normally or because a call raised: the stop signal
Leave(s) == /\ machineNow' = Stop(s) /\ phaseNow' = "left"
            /\ UNCHANGED <<machineAtStart, probeSeen, planMade>> /\ Step("stop", AppId)

Inside(step) == phaseNow = "inside" /\ step \notin doneSteps
Stay(step) == /\ phaseNow' = phaseNow /\ doneSteps' = doneSteps \cup {step}
              /\ UNCHANGED <<machineAtStart, probeSeen, planMade>>

\* sdram_alloc_for_vertices, vertex by vertex: the block is tagged with the vertex's core; a refusal raises
DAllocVertex(v) ==
    LET k == planMade[v] IN
    /\ Inside(<<"alloc", v>>)
    /\ grantsMade' = [grantsMade EXCEPT !.blocks = @ \cup {<<k[1], k[2], BlockSize, k[3]>>}]
    /\ IF AllocFails(machineNow, Heap, k[1], k[2], BlockSize, k[3], AppId)
       THEN Leave(machineNow) /\ doneSteps' = doneSteps
       ELSE /\ machineNow' = SdramAlloc(machineNow, Heap, k[1], k[2], BlockSize, k[3], AppId)
            /\ Stay(<<"alloc", v>>) /\ Step("alloc", AppId)
\* load_routing_tables, chip by chip: allocate the positions, load the entries at the position returned
DLoadTable(xy) ==
    LET base == RtrBase(machineNow, xy[1], xy[2], 1)
        s1 == RtrAlloc(machineNow, xy[1], xy[2], 1, AppId)
    IN /\ Inside(<<"table", xy>>) /\ \E v \in Verts : <<planMade[v][1], planMade[v][2]>> = xy
       /\ grantsMade' = [grantsMade EXCEPT !.ents = Append(@, <<xy[1], xy[2], 1>>)]
       /\ IF base = 0 THEN Leave(machineNow) /\ doneSteps' = doneSteps
          ELSE /\ machineNow' = RtrLoad(s1, xy[1], xy[2], IF Variant = "entries-without-app" THEN 0 ELSE AppId,
                                        <<Ent(base, 1)>>)
               /\ Stay(<<"table", xy>>) /\ Step("tables", AppId)
\* load_application(wait=True)
DLoadApp ==
    LET cores == { planMade[v] : v \in Verts } IN
    /\ Inside(<<"load">>)
    /\ grantsMade' = [grantsMade EXCEPT !.cores = @ \cup cores]
    /\ machineNow' = Loaded(machineNow, cores, AppId, TRUE)
    /\ Stay(<<"load">>) /\ Step("load", AppId)
DSignal(name) ==
    /\ Inside(<<"signal", name>>) /\ <<"load">> \in doneSteps
    /\ name = "sync0" => <<"signal", "start">> \in doneSteps
    /\ machineNow' = Signal(machineNow, SigCode[name], AppId)
    /\ Stay(<<"signal", name>>) /\ UNCHANGED grantsMade /\ Step(name, AppId)
\* the block ends or a call raises: at any point
DLeave == phaseNow = "inside" /\ Leave(machineNow) /\ UNCHANGED <<grantsMade, doneSteps>>
\* the applications' own progress (both of them)
DProgress(c, state) ==
    /\ c \in machineNow.core /\ c[4] = StRun
    /\ machineNow' = OwnProgress(machineNow, <<c[1], c[2], c[3]>>, state)
    /\ UNCHANGED <<machineAtStart, phaseNow, probeSeen, planMade, grantsMade, doneSteps>> /\ Step("progress", c[5])

DNext == \/ DProbe \/ DEnter \/ DLeave \/ DLoadApp
         \/ \E f \in Placements : DPlan(f)
         \/ \E v \in Verts : DAllocVertex(v)
         \/ \E ch \in ChipSet : DLoadTable(<<ch[1], ch[2]>>)
         \/ \E name \in {"start", "sync0"} : DSignal(name)
         \/ \E c \in machineNow.core, state \in {StSync0, StExit, StRte} : DProgress(c, state)
DSpec == DInit /\ [][DNext]_vars

----------------------------------------------------------------------------
Inv == MachineInv(machineNow, Heap)
OnlyFree == OnlyFreeResourcesUsed(machineNow, Heap, AppId, probeSeen, grantsMade)
\* no step of the life cycle changes anything that is not the application's (the others may move by themselves)
Isolation == [][lastStep'.app = AppId => Isolated(machineNow', machineNow, AppId)]_vars
\* after the block nothing of the application is left, and nothing else is left behind on the machine either:
\* what the others hold apart, the machine is as the life cycle found it
NoLeak == phaseNow = "left" =>
              /\ NothingLeft(machineNow, AppId)
              /\ machineNow.alloc = machineAtStart.alloc /\ machineNow.own = machineAtStart.own
              /\ machineNow.ent = machineAtStart.ent /\ machineNow.iptag = machineAtStart.iptag
Releases == [][lastStep'.kind \in {"start", "sync0"} =>
                  ReleasesExactly(machineNow, machineNow', lastStep'.kind, AppId)]_vars
=============================================================================
