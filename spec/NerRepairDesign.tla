--------------------------- MODULE NerRepairDesign ---------------------------
(***************************************************************************)
(* Design job for C03: the dead-link repair of the router as a state       *)
(* machine on a small torus.                                               *)
(*                                                                         *)
(*  grow    a routing tree is grown hop by hop from a root (any tree of up *)
(*          to MaxNodes chips whose hops are adjacent: what NER produces   *)
(*          before faults are considered)                                  *)
(*  break   any set of at most MaxDead directed links is declared dead     *)
(*  Disconnect   every tree edge over a dead link is cut; the (parent,     *)
(*          child) pairs are remembered as orphans (rig:                   *)
(*          copy_and_disconnect_tree)                                      *)
(*  Reconnect(o, path)   an orphan's subtree is re-attached along ANY path *)
(*          the A* search may return: it starts at a tree node outside the *)
(*          orphan's subtree, every hop uses a working link in the         *)
(*          direction of travel, interior chips are chips that are not     *)
(*          tree nodes outside the subtree.  Interior chips that are new   *)
(*          get a new node; interior chips that belong to the orphan's     *)
(*          subtree are re-parented onto the path (rig: avoid_dead_links). *)
(*                                                                         *)
(* Rule = "enumerate-first": the old parent of a re-parented node is       *)
(*   searched among the subtree's nodes as enumerated BEFORE the path is   *)
(*   applied.  Rule = "search-current": it is searched in the orphan's     *)
(*   CURRENT subtree (what the pinned rig did) - TLC finds the history in  *)
(*   which an earlier re-parenting has already moved the old parent out of *)
(*   that subtree, the edge is not removed, and a chip ends up with two    *)
(*   incoming edges.                                                       *)
(* The tree is a bag of edges (parent chip, direction) -> multiplicity so  *)
(* that a duplicated edge is visible.                                      *)
(***************************************************************************)
EXTENDS Hex, FiniteSetsExt

CONSTANTS W, H, MaxNodes, MaxDead, MaxPath, Rule

AllChips == Chips(W, H)
Edge == AllChips \X Links
EHead(e) == Nbr(e[1], e[2], W, H)         \* the chip an edge leads to

VARIABLES root, nodes, kids, deadl, orphans, phase
vars == <<root, nodes, kids, deadl, orphans, phase>>

Mach == [w |-> W, h |-> H, dead |-> {}, deadlinks |-> { <<e[1][1], e[1][2], e[2]>> : e \in deadl }]

EdgesInto(k, x) == { e \in Edge : k[e] > 0 /\ EHead(e) = x }
InDegree(k, x) == LET F[S \in SUBSET EdgesInto(k, x)] ==
                        IF S = {} THEN 0 ELSE LET e == CHOOSE e \in S : TRUE IN k[e] + F[S \ {e}]
                  IN F[EdgesInto(k, x)]
RECURSIVE DescFrom(_, _, _)
DescFrom(k, seen, frontier) ==
    IF frontier = {} THEN seen
    ELSE LET next == { EHead(e) : e \in { e \in Edge : k[e] > 0 /\ e[1] \in frontier } } \ seen
         IN DescFrom(k, seen \cup next, next)
Desc(k, x) == DescFrom(k, {x}, {x})

DInit == /\ root \in AllChips /\ nodes = {root} /\ kids = [e \in Edge |-> 0]
         /\ deadl = {} /\ orphans = {} /\ phase = "grow"
Grow(e) == /\ phase = "grow" /\ Cardinality(nodes) < MaxNodes
           /\ e[1] \in nodes /\ EHead(e) \notin nodes
           /\ nodes' = nodes \cup {EHead(e)} /\ kids' = [kids EXCEPT ![e] = 1]
           /\ UNCHANGED <<root, deadl, orphans, phase>>
Break(D) == /\ phase = "grow" /\ deadl' = D /\ phase' = "broken"
            /\ UNCHANGED <<root, nodes, kids, orphans>>
Disconnect == /\ phase = "broken"
              /\ LET cut == { e \in Edge : kids[e] > 0 /\ e \in deadl }
                 IN /\ kids' = [e \in Edge |-> IF e \in cut THEN 0 ELSE kids[e]]
                    /\ orphans' = { <<e[1], EHead(e)>> : e \in cut }
              /\ phase' = "repair" /\ UNCHANGED <<root, nodes, deadl>>

\* paths A* may return for orphan child c: <<s, x1, .., xk>> with s a tree node outside c's subtree,
\* the xi not tree nodes outside the subtree, all distinct, every hop (and the last hop into c) live
LiveDirs(a, b) == { d \in Links : Nbr(a, d, W, H) = b /\ HopOK(Mach, a, d) }
PathsTo(c, sub) ==
    LET srcs == nodes \ sub
        inner == AllChips \ srcs
        RECURSIVE Ext(_, _)
        Ext(ps, n) == IF n = 0 THEN ps
                      ELSE ps \cup Ext({ Append(p, x) : p \in ps, x \in inner \ {c} } , n - 1)
        cands == Ext({ <<s>> : s \in srcs }, MaxPath - 1)
    IN { p \in cands :
           /\ \A i, j \in 1..Len(p) : i < j => p[i] # p[j]
           /\ \A i \in 1..(Len(p) - 1) : LiveDirs(p[i], p[i+1]) # {}
           /\ LiveDirs(p[Len(p)], c) # {} }

\* remove one occurrence of an edge into x whose tail is among the chips S (if there is one)
DropParentAmong(k, x, S) ==
    LET cand == { e \in EdgesInto(k, x) : e[1] \in S }
    IN IF cand = {} THEN k ELSE LET e == CHOOSE e \in cand : TRUE IN [k EXCEPT ![e] = @ - 1]

\* attach path p (p[1] a tree node) hop by hop, then hang c on its end
RECURSIVE Attach(_, _, _, _, _)
Attach(k, p, i, c, sub0) ==
    IF i > Len(p) THEN
        LET d == CHOOSE d \in LiveDirs(p[Len(p)], c) : TRUE IN [k EXCEPT ![<<p[Len(p)], d>>] = @ + 1]
    ELSE LET x == p[i]
             d == CHOOSE d \in LiveDirs(p[i-1], x) : TRUE
             k1 == IF x \in sub0
                   THEN DropParentAmong(k, x, IF Rule = "enumerate-first" THEN sub0 ELSE Desc(k, c))
                   ELSE k
         IN Attach([k1 EXCEPT ![<<p[i-1], d>>] = @ + 1], p, i + 1, c, sub0)

Reconnect(o, p) == /\ phase = "repair" /\ o \in orphans
                   /\ LET c == o[2]  sub == Desc(kids, c) IN
                      /\ p \in PathsTo(c, sub)
                      /\ kids' = Attach(kids, p, 2, c, sub)
                      /\ nodes' = nodes \cup { p[i] : i \in 1..Len(p) }
                   /\ orphans' = orphans \ {o}
                   /\ UNCHANGED <<root, deadl, phase>>
Finish == /\ phase = "repair" /\ orphans = {} /\ phase' = "done"
          /\ UNCHANGED <<root, nodes, kids, deadl, orphans>>
ReconnectAny == \E o \in orphans : \E p \in PathsTo(o[2], Desc(kids, o[2])) : Reconnect(o, p)
DNext == (\E e \in Edge : Grow(e)) \/ (\E n \in 0..MaxDead : \E D \in kSubset(n, Edge) : Break(D))
         \/ Disconnect \/ ReconnectAny \/ Finish
DSpec == DInit /\ [][DNext]_vars

\* at every moment: no chip has two incoming edges (so no duplicated edge either), the root has none
AtMostOneParent == \A x \in nodes : InDegree(kids, x) <= 1
RootHasNoParent == InDegree(kids, root) = 0
\* when the repair has finished: one tree spanning all nodes, over live links only
RepairedIsTree == phase = "done" =>
                     /\ Desc(kids, root) = nodes
                     /\ \A x \in nodes \ {root} : InDegree(kids, x) = 1
                     /\ \A e \in Edge : kids[e] > 0 => HopOK(Mach, e[1], e[2])
=============================================================================
