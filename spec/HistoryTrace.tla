---------------------------- MODULE HistoryTrace ----------------------------
(***************************************************************************)
(* Trace specification for C17.  One trace = the library calls made by ONE *)
(* fresh process, in order.  Values travel as digests (short strings of a  *)
(* canonical encoding made by the harness); this module only ever compares *)
(* them for equality.                                                      *)
(* Events:                                                                 *)
(*   <<"call", r>>   one library call; r is a record with                  *)
(*        fn      function name                                            *)
(*        seed    seed given to the random generators the call may use     *)
(*        args    <<parameter, digest before, digest after>>, ...          *)
(*        res     digest of the result, or "!" and the exception class     *)
(*        defs    <<default-argument name, digest before, digest after>>   *)
(*                for every dict / set / list default argument of rig      *)
(*        cbefore, cafter   the ring memo of the NER router before and     *)
(*                after the call: <<radius, digest of the entry>>, ...     *)
(*        cring   <<radius, digest of the ring of that radius computed     *)
(*                afresh>> for every radius in cafter                      *)
(*   <<"probe", r>>  a call that was also made first in a fresh            *)
(*                interpreter; r has in addition                           *)
(*        fresh      digest of the result there                            *)
(*        freshdefs  <<default-argument name, digest>> there, before it    *)
(*        asbuilt    1 if the arguments built anew there have the digests  *)
(*                   of the objects the history process passed             *)
(*   <<"end", n>>    the process made n calls                              *)
(* State st: History!EmptyHistory updated by every call.                   *)
(***************************************************************************)
EXTENDS History, Json, IOUtils

Traces == JsonDeserialize(IOEnv.TRACE_FILE)
VARIABLES tid, ei, st, verdict
vars == <<tid, ei, st, verdict>>
Tr == Traces[tid]
Ev == Tr.ev[ei]

\* the record of the trace with its lists read as sets where the order says nothing
CallOf(r) == [fn |-> r.fn, seed |-> r.seed, args |-> r.args, res |-> r.res, defs |-> SeqSet(r.defs),
              cbefore |-> SeqSet(r.cbefore), cafter |-> SeqSet(r.cafter), cring |-> SeqSet(r.cring)]
ProbeOf(r) == CallOf(r) @@ [fresh |-> r.fresh, freshdefs |-> SeqSet(r.freshdefs)]

Checks(e) ==
  CASE e[1] = "call"  -> CallClauses(st, CallOf(e[2])) @@ [MemoIsFunction |-> MemoIsFunction(st)]
    [] e[1] = "probe" -> ProbeClauses(st, ProbeOf(e[2])) @@ [MemoIsFunction |-> MemoIsFunction(st),
                             \* the argument objects the history process passes equal the same arguments built anew
                             \* (no earlier call of the history has changed them)
                             ProbeArgumentsAsBuilt |-> e[2].asbuilt = 1]
    [] e[1] = "end"   -> [AllCallsJudged |-> e[2] = st.n /\ ei = Len(Tr.ev),
                          ProbeJudged    |-> st.probes >= 1]
    [] OTHER -> [UnknownEvent |-> FALSE]

Apply(e) == CASE e[1] = "call"  -> ApplyCall(st, CallOf(e[2]), FALSE)
              [] e[1] = "probe" -> ApplyCall(st, ProbeOf(e[2]), TRUE)
              [] OTHER -> st

\* diagnosis only: the function called, and which arguments / default arguments / radii are not what they were
Detail(e) ==
  IF e[1] \in {"call", "probe"}
  THEN LET c == CallOf(e[2])
           args == { a[1] : a \in { a \in SeqSet(c.args) : a[2] # a[3] } }
           defs == { d[1] : d \in { d \in c.defs : d[2] # d[3] \/ \E s \in st.defaults : s[1] = d[1] /\ s[2] # d[2] } }
           radii == { p[1] : p \in (st.cache \ c.cbefore) \cup (c.cbefore \ c.cafter) \cup (c.cafter \ c.cring) }
       IN c.fn \o " arguments " \o ToString(args) \o " defaults " \o ToString(defs) \o " radii " \o ToString(radii)
  ELSE ""

Bad == LET ck == Checks(Ev) IN {c \in DOMAIN ck : ~ck[c]}
TInit == tid \in 1..Len(Traces) /\ ei = 1 /\ st = EmptyHistory /\ verdict = <<>>
TStep == /\ ei <= Len(Tr.ev) /\ verdict = <<>> /\ tid' = tid
         /\ LET bad == Bad
            IN IF bad = {} THEN ei' = ei + 1 /\ st' = Apply(Ev) /\ verdict' = verdict
               ELSE /\ PrintT("REJECT|" \o ToString(tid) \o "|" \o ToString(ei) \o "|" \o ToString(bad)
                              \o "|" \o Detail(Ev))
                    /\ verdict' = <<ei, bad>> /\ ei' = ei /\ st' = st
TSpec == TInit /\ [][TStep]_vars
=============================================================================
