------------------------- MODULE MachineModelTrace -------------------------
(***************************************************************************)
(* Beyond the listed properties: the place-and-route Machine model's own   *)
(* utilities, judged against the fabric of Hex.tla.  A trace is a machine  *)
(* [w, h, dead, deadlinks, ev] with events                                 *)
(*   <<"chips", seq of <<x, y>>>>          list(machine)                   *)
(*   <<"links", seq of <<x, y, l>>>>       list(machine.iter_links())      *)
(*   <<"wrap", r>>                         has_wrap_around_links() (0/1)   *)
(*   <<"subset", other, r>>                machine.issubset(other) (0/1),  *)
(*        other = [w, h, dead, deadlinks], same resources everywhere       *)
(* A link is a wrap-around link when following it from its chip leaves the *)
(* w x h rectangle; the machine "has wrap-around links" when at least nine *)
(* tenths of them work.                                                    *)
(***************************************************************************)
EXTENDS Hex, Json, IOUtils

Traces == JsonDeserialize(IOEnv.TRACE_FILE)
VARIABLES tid, ei, st, verdict
vars == <<tid, ei, st, verdict>>
Tr == Traces[tid]
Ev == Tr.ev[ei]

MachineOf(r) == [w |-> r.w, h |-> r.h, dead |-> { r.dead[i] : i \in 1..Len(r.dead) },
                 deadlinks |-> { r.deadlinks[i] : i \in 1..Len(r.deadlinks) }]
AllLinks(m) == { <<c[1], c[2], k>> : c \in Chips(m.w, m.h), k \in Links }
WorkingLinks(m) == { x \in AllLinks(m) : LinkAlive(m, <<x[1], x[2]>>, x[3]) }
Leaves(m, x) == LET n == NbrMesh(<<x[1], x[2]>>, x[3]) IN ~(n[1] \in 0..(m.w-1) /\ n[2] \in 0..(m.h-1))
WrapLinks(m) == { x \in AllLinks(m) : Leaves(m, x) }
SeqSet(q) == { q[i] : i \in 1..Len(q) }

Checks(e) ==
  CASE e[1] = "chips" -> [ChipsAreLiveChips |-> SeqSet(e[2]) = LiveChips(st) /\ Len(e[2]) = Cardinality(LiveChips(st))]
    [] e[1] = "links" -> [LinksAreWorkingLinks |-> SeqSet(e[2]) = WorkingLinks(st) /\ Len(e[2]) = Cardinality(WorkingLinks(st))]
    [] e[1] = "wrap" ->
        [WrapIsNineTenths |-> (e[2] = 1) <=>
             10 * Cardinality(WrapLinks(st) \cap WorkingLinks(st)) >= 9 * Cardinality(WrapLinks(st))]
    [] e[1] = "subset" ->
        LET o == MachineOf(e[2]) IN
        [SubsetOfChipsAndLinks |-> (e[3] = 1) <=> (LiveChips(st) \subseteq LiveChips(o) /\ WorkingLinks(st) \subseteq WorkingLinks(o))]
    [] e[1] = "raise" -> [NoException |-> FALSE]
    [] OTHER -> [UnknownEvent |-> FALSE]

Bad == {c \in DOMAIN Checks(Ev) : ~Checks(Ev)[c]}
TInit == tid \in 1..Len(Traces) /\ ei = 1 /\ st = MachineOf(Traces[tid]) /\ verdict = <<>>
TStep == /\ ei <= Len(Tr.ev) /\ verdict = <<>> /\ tid' = tid /\ st' = st
         /\ IF Bad = {} THEN ei' = ei + 1 /\ verdict' = verdict
            ELSE /\ PrintT("REJECT|" \o ToString(tid) \o "|" \o ToString(ei) \o "|" \o ToString(Bad))
                 /\ verdict' = <<ei, Bad>> /\ ei' = ei
TSpec == TInit /\ [][TStep]_vars
=============================================================================
