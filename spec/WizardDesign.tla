---------------------------- MODULE WizardDesign ----------------------------
(***************************************************************************)
(* Design job of the wizard protocol: every dialogue of a set of wizard    *)
(* terms (single wizards, cat of none, of several, nested) over a small    *)
(* alphabet of answers - every option index, eleven texts offered at every    *)
(* Text question - with a board answering the discovery or not.            *)
(* History variables (asked, made, lastq, hist) record what happened; the  *)
(* invariants state the protocol's promises over them.                     *)
(* Variant switches on one plausible design error (refuted by the _wrong   *)
(* configurations).                                                        *)
(***************************************************************************)
EXTENDS Wizard

CONSTANTS Terms,           \* the wizard terms explored
          Variant,         \* "right" | "firstwins" | "swallow" | "anycount"
          KeepHistory      \* print every finished dialogue (for the replay job)

VARIABLES wterm,           \* the wizard term
          disco,           \* what listening for an unbooted board gives
          dlg,             \* the dialogue state (Wizard.tla)
          whose,           \* "wizard" | "front": whose move it is
          done,            \* "" | "success" | "failure"
          nsteps,          \* moves so far
          asked,           \* <<leaf index, position>> of every message yielded
          made,            \* <<leaf index, key, value>> of every wizard that completed
          lastq,           \* <<position, response>> of the last answer (<<>> before the first)
          hist             \* the observable events (stays empty unless KeepHistory)
vars == <<wterm, disco, dlg, whose, done, nsteps, asked, made, lastq, hist>>

Txt(str, codes) == <<"s", 0, str, codes>>
Texts == { Txt("0", <<48>>), Txt("1", <<49>>), Txt("3", <<51>>), Txt("6", <<54>>), Txt("4", <<52>>), Txt("x", <<120>>), Txt("", <<>>),
           Txt("24x12", <<50, 52, 120, 49, 50>>), Txt(" 3 X 4 ", <<32, 51, 32, 88, 32, 52, 32>>),
           Txt("12", <<49, 50>>), Txt("h", <<104>>) }
Discoveries == { <<>>, <<"10.9.8.7">> }
None == <<"none", 0, "", <<>>>>
Responses(pos) == LET m == MsgOf(pos)
                  IN CASE m.kind = "MultipleChoice" -> { <<"i", i, "", <<>>>> : i \in 0..(m.nopts - 1) }
                       [] m.kind = "Text" -> Texts
                       [] OTHER -> {None}

D1 == <<"dims">>
I1 == <<"ip">>
Cat(parts) == <<"cat", parts>>
QuickTerms == { D1, I1, Cat(<<>>), Cat(<<D1>>), Cat(<<D1, I1>>), Cat(<<I1, D1>>), Cat(<<D1, D1>>), Cat(<<I1, I1>>),
                Cat(<<Cat(<<>>), Cat(<<I1>>), D1>>), Cat(<<Cat(<<Cat(<<D1>>)>>), Cat(<<>>)>>) }
ThoroughTerms == QuickTerms \cup { Cat(<<D1, I1, D1>>), Cat(<<Cat(<<I1, D1>>), Cat(<<D1, I1>>)>>),
                                   Cat(<<I1, Cat(<<D1, Cat(<<I1>>)>>)>>), Cat(<<D1, D1, D1>>) }

Note(ev) == IF KeepHistory THEN Append(hist, ev) ELSE hist

\* the design error, if any, applied to the specified step
DAnswer(ds, r) ==
    LET nx == Answer(ds, r, disco)
    IN CASE Variant = "swallow" /\ nx.out = "failure" ->                \* cat goes on after a part has failed
                [ds EXCEPT !.cur = @ + 1, !.pos = "begin"]
         [] Variant = "firstwins" /\ nx.cur > ds.cur /\ KeyOf(ds.leaves[ds.cur]) \in Keys(ds.data) ->
                [nx EXCEPT !.data = ds.data]                              \* an earlier wizard's value is kept
         [] Variant = "anycount" /\ ds.pos = "boards" /\ AllDigits(r[4]) /\ ~CountAccepted(NumOf(r[4])) ->
                Complete(ds, "dims", <<12 * NumOf(r[4]), 12>>)            \* any number of boards is accepted
         [] OTHER -> nx

DInit == /\ wterm \in Terms /\ disco \in Discoveries
         /\ dlg = Start(wterm) /\ whose = "wizard" /\ done = "" /\ nsteps = 0
         /\ asked = <<>> /\ made = <<>> /\ lastq = <<>> /\ hist = <<>>

Yield == /\ done = "" /\ whose = "wizard" /\ Expected(dlg).act = "yield"
         /\ dlg' = Yielded(dlg) /\ whose' = "front"
         /\ asked' = Append(asked, <<dlg.cur, Expected(dlg).pos>>)
         /\ hist' = Note(<<"yield", Expected(dlg).pos>>)
         /\ nsteps' = nsteps + 1 /\ UNCHANGED <<wterm, disco, done, made, lastq>>
Respond(r) == /\ done = "" /\ whose = "front"
              /\ dlg' = DAnswer(dlg, r) /\ whose' = "wizard"
              /\ lastq' = <<dlg.pos, r>>
              /\ made' = IF dlg'.cur > dlg.cur /\ dlg'.out = ""
                         THEN LET leaf == dlg.leaves[dlg.cur]
                              IN Append(made, <<dlg.cur, leaf, Answer(dlg, r, disco).data[leaf]>>)
                         ELSE made
              /\ hist' = Note(<<"send", r[1], r[2], r[3]>>)
              /\ nsteps' = nsteps + 1 /\ UNCHANGED <<wterm, disco, done, asked>>
Finish == /\ done = "" /\ whose = "wizard" /\ Expected(dlg).act # "yield"
          /\ done' = Expected(dlg).act
          /\ hist' = Note(<<Expected(dlg).act>>)
          /\ nsteps' = nsteps + 1 /\ UNCHANGED <<wterm, disco, dlg, whose, asked, made, lastq>>
DNext == Yield \/ Finish \/ (whose = "front" /\ \E r \in Responses(dlg.pos) : Respond(r))
DSpec == DInit /\ [][DNext]_vars

\* ------------------------------------------------------------------ what must hold
NL == Len(dlg.leaves)
\* a dialogue ends: at most three questions per wizard, then the outcome
Bounded == nsteps <= 6 * NL + 1
Progress == done = "" => ENABLED DNext

\* the data gathered are exactly those of the wizards that have run
KeysOfWizardsThatRan == Keys(dlg.data) = { KeyOf(dlg.leaves[i]) : i \in 1..(dlg.cur - 1) }
SuccessIsComplete == done = "success" => dlg.cur = NL + 1 /\ Keys(dlg.data) = { KeyOf(dlg.leaves[i]) : i \in 1..NL }
\* union, later wizards overriding earlier ones
LaterOverrides ==
    \A leaf \in {"dims", "ip"} :
        LET mine == SelectSeq(made, LAMBDA md : md[2] = leaf)
        IN IF mine = <<>> THEN dlg.data[leaf] = <<>> ELSE dlg.data[leaf] = mine[Len(mine)][3]

\* cat is the concatenation of the dialogues: the messages of each wizard form one of its own dialogues, in order
AskedBy(i) == LET mine == SelectSeq(asked, LAMBDA am : am[1] = i) IN [j \in 1..Len(mine) |-> mine[j][2]]
CatConcatenates ==
    /\ \A j \in 1..(Len(asked) - 1) : asked[j][1] <= asked[j + 1][1]
    /\ \A i \in 1..NL :
          IF i < dlg.cur THEN AskedBy(i) \in Paths(dlg.leaves[i])
          ELSE IF i = dlg.cur THEN \E p \in Paths(dlg.leaves[i]) : IsPrefix(AskedBy(i), p)
          ELSE AskedBy(i) = <<>>

\* Failure exactly for: a board count that is no number or that standard_system_dimensions rejects, a size that
\* does not match, an empty address, nothing discovered - and a Failure of any part ends the whole
Failing(q) == \/ q[1] = "boards" /\ (~AllDigits(q[2][4]) \/ (NumOf(q[2][4]) > 1 /\ NumOf(q[2][4]) % 3 # 0))
              \/ q[1] = "size" /\ SizeParse(q[2][4]).status # "full"
              \/ q[1] = "host" /\ q[2][3] = ""
              \/ q[1] = "info" /\ disco = <<>>
FailureOnlyFor == (dlg.out = "failure" \/ done = "failure") => lastq # <<>> /\ Failing(lastq)
FailingEndsTheWhole == (lastq # <<>> /\ Failing(lastq)) => dlg.out = "failure" /\ done \in {"", "failure"}

\* what each answer contributes
AnswerDeterminesData ==
    (lastq # <<>> /\ dlg.out = "") =>
        LET q == lastq[1]  r == lastq[2]
        IN CASE q = "type" /\ r[2] = 0 -> dlg.data.dims = <<2, 2>>
             [] q = "type" /\ r[2] = 1 -> dlg.data.dims = <<8, 8>>
             [] q = "boards" -> AllDigits(r[4]) /\ dlg.data.dims = StandardDims(NumOf(r[4]))
             [] q = "size" -> dlg.data.dims = SizeParse(r[4]).wh
             [] q = "host" -> dlg.data.ip = <<r[3]>>
             [] q = "info" -> dlg.data.ip = disco
             [] OTHER -> TRUE

Emit == (KeepHistory /\ done # "") => PrintT("INFO|" \o ToString(<<wterm, disco, hist>>))
=============================================================================
