-------------------------------- MODULE Bmp --------------------------------
(***************************************************************************)
(* The board management processors of one frame, as rig's BMPController    *)
(* drives them (beyond the listed properties): main-board power, LEDs and  *)
(* FPGA registers of up to 24 boards; what each command does to that state *)
(* and what it answers.                                                    *)
(*                                                                         *)
(* State s: power (boards that are on), led (<<board, led>> lit),          *)
(* reg (<<board, fpga, a1, a0, v1, v0>>: 32-bit address and value as 16-bit *)
(* halves; an absent register reads 0).                                    *)
(* A command c as the BMP logged it: c[1] command, c[2] the host that      *)
(* received it, c[3] board addressed, c[4..6] arg1..3 (halves), c[7] data  *)
(* bytes, c[8] return code, c[9] reply data bytes, c[10] reply arguments.  *)
(***************************************************************************)
EXTENDS Integers, Sequences, FiniteSets, TLC

NBoards == 24
Boards == 0..(NBoards - 1)
Empty == [power |-> {}, led |-> {}, reg |-> {}]

Bit(w, b) == IF b < 16 THEN (w[2] \div 2^b) % 2 ELSE (w[1] \div 2^(b - 16)) % 2
BoardsOf(mask) == { b \in Boards : Bit(mask, b) = 1 }
Act(w, l) == (w[2] \div 4^l) % 4                    \* 3 on, 2 off, 1 toggle, 0 leave alone
WordOfBytes(d) == <<d[3] + 256 * d[4], d[1] + 256 * d[2]>>
BytesOfWord(w) == <<w[2] % 256, w[2] \div 256, w[1] % 256, w[1] \div 256>>
RegValue(s, b, f, a) == IF \E r \in s.reg : <<r[1], r[2], r[3], r[4]>> = <<b, f, a[1], a[2]>>
                        THEN LET r == CHOOSE r \in s.reg : <<r[1], r[2], r[3], r[4]>> = <<b, f, a[1], a[2]>>
                             IN <<r[5], r[6]>>
                        ELSE <<0, 0>>

Power(s, on, bs) == [s EXCEPT !.power = IF on THEN @ \cup bs ELSE @ \ bs]
Leds(s, w, bs) ==
    [s EXCEPT !.led = { bl \in Boards \X (0..7) :
                          IF bl[1] \in bs
                          THEN CASE Act(w, bl[2]) = 3 -> TRUE
                                 [] Act(w, bl[2]) = 2 -> FALSE
                                 [] Act(w, bl[2]) = 1 -> bl \notin @
                                 [] OTHER -> bl \in @
                          ELSE bl \in @ }]
RegWrite(s, b, f, a, v) ==
    [s EXCEPT !.reg = { r \in @ : <<r[1], r[2], r[3], r[4]>> # <<b, f, a[1], a[2]>> } \cup {<<b, f, a[1], a[2], v[1], v[2]>>}]

MStep(s, c) ==
    IF c[8] # 128 THEN s
    ELSE CASE c[1] = 57 -> Power(s, c[4][2] % 2 = 1, BoardsOf(c[5]))
           [] c[1] = 25 -> Leds(s, c[4], BoardsOf(c[5]))
           [] c[1] = 18 -> RegWrite(s, c[3], c[6][2], c[4], WordOfBytes(c[7]))
           [] OTHER -> s
MReplyOk(s, c) ==
    IF c[8] # 128 THEN TRUE
    ELSE CASE c[1] = 17 -> c[9] = BytesOfWord(RegValue(s, c[3], c[6][2], c[4]))
           [] OTHER -> TRUE
=============================================================================
