---------------------------- MODULE MemoryDesign ----------------------------
(***************************************************************************)
(* Design job for C07: a transfer of n bytes at address a is cut into      *)
(* chunks of at most B bytes, each issued as one command whose access type *)
(* is chosen from the alignment of its own address and length, with at     *)
(* most Wn commands unanswered; replies complete in ANY order.  For a read *)
(* each reply is stored into the slice of the result bound to its chunk;   *)
(* for a write each command stores its own slice of the data.              *)
(* Explored for every (a, n) inside a Size-byte window, every buffer size  *)
(* in Bufs and every window size up to MaxWindow.                          *)
(***************************************************************************)
EXTENDS Memory

CONSTANTS Size, Bufs, MaxWindow

VARIABLES dir, addr, len, buf, win, memv, issued, outstanding, result, phase
vars == <<dir, addr, len, buf, win, memv, issued, outstanding, result, phase>>

\* "remote" memory holds distinguishable values; the data to write holds others
Remote0 == [i \in 0..(Size-1) |-> i + 1]
DataOf(i) == 100 + i

ChooseType(a, n) == IF a % 4 = 0 /\ n % 4 = 0 THEN TypeWord
                    ELSE IF a % 2 = 0 /\ n % 2 = 0 THEN TypeShort ELSE TypeByte

DInit == /\ dir \in {"read", "write"} /\ buf \in Bufs /\ win \in 1..MaxWindow
         /\ \E a \in 0..(Size-1) : \E n \in 0..(Size - a) : addr = a /\ len = n
         /\ memv = Remote0 /\ issued = 0 /\ outstanding = {}
         /\ result = [i \in 0..(Size-1) |-> 0] /\ phase = "run"
\* issue the next chunk: <<address, length, type>>
Issue == /\ phase = "run" /\ issued < len /\ Cardinality(outstanding) < win
         /\ LET n == IF len - issued < buf THEN len - issued ELSE buf
                a == addr + issued
            IN /\ outstanding' = outstanding \cup {<<a, n, ChooseType(a, n)>>}
               /\ issued' = issued + n
         /\ UNCHANGED <<dir, addr, len, buf, win, memv, result, phase>>
\* any outstanding command completes
Complete(c) == /\ phase = "run" /\ c \in outstanding
               /\ outstanding' = outstanding \ {c}
               /\ IF dir = "read"
                  THEN /\ result' = [i \in 0..(Size-1) |-> IF i >= c[1] /\ i < c[1] + c[2] THEN memv[i] ELSE result[i]]
                       /\ UNCHANGED memv
                  ELSE /\ memv' = [i \in 0..(Size-1) |-> IF i >= c[1] /\ i < c[1] + c[2] THEN DataOf(i - addr) ELSE memv[i]]
                       /\ UNCHANGED result
               /\ UNCHANGED <<dir, addr, len, buf, win, issued, phase>>
Finish == /\ phase = "run" /\ issued = len /\ outstanding = {} /\ phase' = "done"
          /\ UNCHANGED <<dir, addr, len, buf, win, memv, issued, outstanding, result>>
CompleteAny == \E c \in outstanding : Complete(c)
DNext == Issue \/ CompleteAny \/ Finish
DSpec == DInit /\ [][DNext]_vars /\ WF_vars(DNext)

WindowBound == Cardinality(outstanding) <= win
ChunksLegal == \A c \in outstanding :
                  /\ c[2] <= buf /\ c[2] > 0
                  /\ TypeAllowed(<<0, c[1]>>, c[2], c[3])
                  /\ c[1] >= addr /\ c[1] + c[2] <= addr + len
ByteExact == phase = "done" =>
                IF dir = "read" THEN \A i \in 0..(len - 1) : result[addr + i] = Remote0[addr + i]
                ELSE \A i \in 0..(Size-1) : memv[i] = IF i >= addr /\ i < addr + len THEN DataOf(i - addr) ELSE Remote0[i]
NothingElseTouched == \A i \in 0..(Size-1) : (i < addr \/ i >= addr + len) => memv[i] = Remote0[i] /\ result[i] = 0
Terminates == <>(phase = "done")
=============================================================================
