-------------------------------- MODULE Scp --------------------------------
(***************************************************************************)
(* SCP command transport (C06): what the property permits, as pure         *)
(* operators.  Written from the property statement and the SCP             *)
(* documentation (return codes), not from rig's loop.                      *)
(*                                                                         *)
(* A client sends commands as datagrams carrying a sequence number; the    *)
(* machine answers each datagram it receives with a reply that echoes the  *)
(* sequence number and carries a return code.  A command is *unanswered*   *)
(* from its first transmission until a reply with return code "ok" that    *)
(* echoes its sequence number has been read by the client.                 *)
(***************************************************************************)
EXTENDS Integers, Sequences, FiniteSets, TLC

\* ------------------------------------------------------------------ return codes (SCP / SARK documentation)
RcOk == 128                                     \* 0x80 command completed
RcRetryable == {130, 141}                       \* 0x82 bad checksum, 0x8d destination busy
RcFatal == {129, 131, 132, 133, 134, 135, 136, 137, 138, 139, 140, 142, 143}
RcClass(code) == IF code = RcOk THEN "ok"
                 ELSE IF code \in RcRetryable THEN "retry"
                 ELSE IF code \in RcFatal THEN "fatal" ELSE "unknown"

\* ------------------------------------------------------------------ time-outs
\* the time-out of a command: the connection's default plus the command's own extra
TimeoutOf(tdefault, textra) == tdefault + textra
\* a command last transmitted at tsent may be transmitted again at tnow only if its time-out has elapsed
Elapsed(tsent, tnow, tmo) == tnow - tsent >= tmo

\* ------------------------------------------------------------------ sequence numbers
\* the first number at or after ctr, counting modulo m, that is not in the set used (used # 0..m-1)
FreshSeq(ctr, used, m) ==
    LET k == CHOOSE k \in 0..(m - 1) : /\ (ctr + k) % m \notin used
                                       /\ \A j \in 0..(k - 1) : (ctr + j) % m \in used
    IN (ctr + k) % m

\* ------------------------------------------------------------------ tables of unanswered commands
\* a table maps the sequence numbers in use to records with (at least) a field cmd
Without(table, sq) == [x \in (DOMAIN table) \ {sq} |-> table[x]]
With(table, sq, rec) == [x \in (DOMAIN table) \cup {sq} |-> IF x = sq THEN rec ELSE table[x]]
CmdsOf(table) == { table[x].cmd : x \in DOMAIN table }
SeqOfCmd(table, c) == CHOOSE x \in DOMAIN table : table[x].cmd = c
=============================================================================
