---------------------------- MODULE LoadAppTrace ----------------------------
(***************************************************************************)
(* Trace specification for C09.  One trace = one call of                   *)
(* MachineController.load_application against the simulated machine.       *)
(*                                                                         *)
(* Setup fields of the trace record:                                       *)
(*   chips    : sequence of <<x, y, number of cores>> (the live chips)     *)
(*   buf      : SCP data buffer size in bytes                              *)
(*   base     : <<hi16, lo16>> of the address the machine holds in         *)
(*              sv.sdram_sys (where fill data is staged)                   *)
(*   app, wait (0/1), ntries, usecount (0/1) : the call's arguments        *)
(*   bins     : sequence of [data |-> bytes of the file,                   *)
(*                           tg |-> sequence of <<x, y, <<cores>>>>]       *)
(*   miss     : for the k-th fill started, the chips <<x, y>> that         *)
(*              silently miss it (no entry = nobody misses)                *)
(*   init     : cores not idle before the call: <<x, y, p, state, app,     *)
(*              <<>> or <<image bytes>> >> (from an earlier load)          *)
(* Events (every command the machine executed during the call, in order):  *)
(*   <<"start", pid, nblocks>>                                             *)
(*   <<"select", <<b3, b2, b1, b0>>, coremask>>                            *)
(*   <<"data", pid, block, sizefield, <<hi16, lo16>>, nbytes, bytes>>      *)
(*   <<"end", pid, app, flags, <<cores <<x, y, p>> the machine loaded>>>>  *)
(*   <<"count", state, app, answer, appmask>> core count query             *)
(*   <<"read", x, y, p, value>>               read of vcpu[p].cpu_state    *)
(*   <<"signal", signal, app, appmask>>                                    *)
(*   (a count or signal packet addresses the cores whose application id    *)
(*   equals the packet's in the bits set in its application mask; cores of *)
(*   other applications may be waiting while the call runs - listed in     *)
(*   init with their own application id)                                   *)
(*   <<"aux", command, x, y>>                 any other command            *)
(*   <<"final", cores not idle after the call, as in init>>                *)
(*   <<"return">> | <<"raise", class name, <<binary index, x, y, <<cores>>>>...>> *)
(* State st: the specification's own model of the machine (core table,     *)
(* image table, per-fill receiver state) and of the call (attempts, the    *)
(* selection each binary's fill must make in the current attempt).         *)
(* Assumptions of the domain (the driver generates only such calls):       *)
(* binaries are whole words and non-empty; targets of different binaries   *)
(* are disjoint application cores of live chips; a requested core is idle  *)
(* before the call or already waits holding the binary now requested for   *)
(* it; with usecount = 1 no core outside the request waits under the       *)
(* application id.                                                         *)
(***************************************************************************)
EXTENDS LoadApp, Json, IOUtils

Traces == JsonDeserialize(IOEnv.TRACE_FILE)
VARIABLES tid, ei, st, verdict
vars == <<tid, ei, st, verdict>>
Tr == Traces[tid]
Ev == Tr.ev[ei]

SeqSet(q) == { q[i] : i \in 1..Len(q) }
NB == Len(Tr.bins)
ChipSet == { <<ch[1], ch[2]>> : ch \in SeqSet(Tr.chips) }
NCoresOf(cx, cy) == (CHOOSE ch \in SeqSet(Tr.chips) : ch[1] = cx /\ ch[2] = cy)[3]
MissOf(k) == IF k <= Len(Tr.miss) THEN { <<m[1], m[2]>> : m \in SeqSet(Tr.miss[k]) } ELSE {}
TargetSet(bn) == UNION { { <<t[1], t[2], t[3][j]>> : j \in 1..Len(t[3]) } : t \in SeqSet(Tr.bins[bn].tg) }
Requested == UNION { TargetSet(bn) : bn \in 1..NB }
AskedToWait == Tr.wait = 1

DefaultCore == [state |-> StIdle, app |-> 0, img |-> 0]
CoreAt(c) == IF c \in DOMAIN st.cores THEN st.cores[c] ELSE DefaultCore
ImgBytes(k) == IF k = 0 THEN <<>> ELSE st.imgs[k]
\* the core's condition with the image spelt out
Spelt(c) == LET k == CoreAt(c) IN [state |-> k.state, app |-> k.app, img |-> IF k.img = 0 THEN <<>> ELSE <<ImgBytes(k.img)>>]
Want(bn) == <<Tr.bins[bn].data>>
TrulyMissing(bn) == { c \in TargetSet(bn) : ~HoldsLoaded(Spelt(c), Tr.app, Want(bn)) }
AllMissing == UNION { TrulyMissing(bn) : bn \in 1..NB }
InitCore(i) == [state |-> Tr.init[i][4], app |-> Tr.init[i][5], img |-> IF Tr.init[i][6] = <<>> THEN 0 ELSE i]

St0 == [cores  |-> [c \in { <<Tr.init[i][1], Tr.init[i][2], Tr.init[i][3]>> : i \in 1..Len(Tr.init) } |->
                      InitCore(CHOOSE i \in 1..Len(Tr.init) : <<Tr.init[i][1], Tr.init[i][2], Tr.init[i][3]>> = c)],
        imgs   |-> [i \in 1..Len(Tr.init) |-> IF Tr.init[i][6] = <<>> THEN <<>> ELSE Tr.init[i][6][1]],
        att    |-> 0,            \* attempts begun
        nfill  |-> 0,            \* fills begun
        phase  |-> "idle",       \* idle | fill | between | verify | signalled
        filled |-> {},           \* binaries filled in this attempt
        expect |-> <<>>,         \* binary -> cores its fill must select in this attempt
        fl     |-> [pid |-> 0, nb |-> 0, sels |-> <<>>, cnt |-> 0, bytes |-> <<>>, rx |-> {}],
        seen   |-> FALSE]        \* final machine state seen

\* the fill in progress, as the model's receivers see it
Sel == SelectedSet(st.fl.sels, ChipSet)
ModelCommit == UNION { { <<ch[1], ch[2], p>> : p \in CommitOn(st.fl.sels, ch[1], ch[2], NCoresOf(ch[1], ch[2])) }
                       : ch \in st.fl.rx }
SameBytes == IF st.phase # "fill" THEN {} ELSE { bn \in (1..NB) \ st.filled : Tr.bins[bn].data = st.fl.bytes }
Matching == { bn \in SameBytes : st.expect[bn] = Sel }

\* application ids ida, idb are the same under an application mask
SameUnderMask(ida, idb, msk) == \A i \in 0..7 : Bit(msk, i) => (Bit(ida, i) <=> Bit(idb, i))
\* the signal on one core / the count query, as packets carrying a mask
AfterMaskedSignal(core, sig, app, msk) ==
    IF sig = SigStart /\ core.state = StWait /\ SameUnderMask(core.app, app, msk) THEN [core EXCEPT !.state = StRun] ELSE core
MaskedCountIn(cores, state, app, msk) ==
    Cardinality({ c \in DOMAIN cores : cores[c].state = state /\ SameUnderMask(cores[c].app, app, msk) })

Checks(e) ==
  CASE e[1] = "start" ->
        LET newAtt == st.phase \in {"idle", "verify"} IN
        [PidEvenInRange   |-> PidOK(e[2]),
         FillsNotNested   |-> st.phase # "fill",
         NoFillAfterStartSignal |-> st.phase # "signalled",
         AttemptsBounded  |-> (IF newAtt THEN st.att + 1 ELSE st.att) <= Tr.ntries + 1]
    [] e[1] = "select" ->
        [SelectsBetweenStartAndEnd |-> st.phase = "fill",
         SelectsIncreasing |-> Len(st.fl.sels) = 0
                                 \/ SelBefore(st.fl.sels[Len(st.fl.sels)], <<e[2][1], e[2][2], e[2][3], e[2][4], e[3]>>)]
    [] e[1] = "data" ->
        [DataBetweenStartAndEnd |-> st.phase = "fill" /\ e[2] = st.fl.pid,
         BlocksConsecutive |-> e[3] = st.fl.cnt,
         BlockFitsBuffer   |-> BlockFits(e[6], Tr.buf) /\ Len(e[7]) = e[6],
         BlockWholeWords   |-> WholeWords(e[6], e[4]),
         BlockAddressContiguous |-> AddrOffset(e[5], Tr.base) = Len(st.fl.bytes)]
    [] e[1] = "end" ->
        [EndClosesFill        |-> st.phase = "fill" /\ e[2] = st.fl.pid,
         StartAnnouncesBlocks |-> st.fl.nb = st.fl.cnt,
         ImageReassembles     |-> SameBytes # {},
         SelectsExactTargets  |-> Matching # {},
         RetriesOnlyMissing   |-> st.att >= 2 => Sel \subseteq UNION { st.expect[bn] : bn \in 1..NB },
         AppIdAsRequested     |-> e[3] = Tr.app,
         SimulatorCommitMatchesModel |-> SeqSet(e[5]) = ModelCommit /\ Len(e[5]) = Cardinality(ModelCommit)]
    [] e[1] = "count" ->
        [CountAnswerMatchesModel |-> e[4] = MaskedCountIn(st.cores, e[2], e[3], e[5]),
         CountNotInsideFill |-> st.phase # "fill"]
    [] e[1] = "read" ->
        [ReadAnswerMatchesModel |-> e[5] = CoreAt(<<e[2], e[3], e[4]>>).state]
    [] e[1] = "signal" ->
        [StartSignalOnlyWhenNotWaiting |-> e[2] = SigStart /\ ~AskedToWait,
         SignalForRequestedApp |-> e[3] = Tr.app,
         SignalNotInsideFill |-> st.phase # "fill"]
    [] e[1] = "aux" ->
        [OnlyReadsBesidesFillAndSignals |-> e[2] \in {0, 2}]          \* version query, memory read
    [] e[1] = "final" ->
        LET listed == { <<f[1], f[2], f[3]>> : f \in SeqSet(e[2]) } IN
        [SimulatorStateMatchesModel |->
            /\ listed = { c \in DOMAIN st.cores : st.cores[c] # DefaultCore } /\ Cardinality(listed) = Len(e[2])
            /\ \A f \in SeqSet(e[2]) : Spelt(<<f[1], f[2], f[3]>>) = [state |-> f[4], app |-> f[5], img |-> f[6]]]
    [] e[1] = "return" ->
        [ReturnedMeansAllLoaded |->
            \A bn \in 1..NB : \A c \in TargetSet(bn) : HoldsFinally(Spelt(c), Tr.app, Want(bn), AskedToWait),
         NoUnrequestedCoreLoaded |->
            \A c \in DOMAIN st.cores \ Requested :
               LET was == IF \E i \in 1..Len(Tr.init) : <<Tr.init[i][1], Tr.init[i][2], Tr.init[i][3]>> = c
                          THEN St0.cores[c] ELSE DefaultCore
                   now == st.cores[c] IN
               /\ now.app = was.app /\ ImgBytes(now.img) = (IF was.img = 0 THEN <<>> ELSE St0.imgs[was.img])
               /\ (now.img = 0) = (was.img = 0)
               /\ \/ now.state = was.state
                  \/ ~AskedToWait /\ now.state = AfterSignal(was, SigStart, Tr.app).state,
         StartedUnlessAskedToWait |-> AskedToWait \/ Requested = {} \/ st.phase = "signalled",
         FinalStateSeen |-> st.seen]
    [] e[1] = "raise" ->
        [OnlyLoadingError |-> e[2] = "SpiNNakerLoadingError",
         RaisedOnlyWhenMissing |-> AllMissing # {},
         RaisedNamesExactlyMissing |->
            UNION { { <<m[1], m[2], m[3], m[4][j]>> : j \in 1..Len(m[4]) } : m \in SeqSet(e[3]) }
              = UNION { { <<bn, c[1], c[2], c[3]>> : c \in TrulyMissing(bn) } : bn \in 1..NB },
         RaisedOnlyAfterAllowedAttempts |-> st.att >= Tr.ntries,
         NoStartSignalBeforeRaise |-> st.phase # "signalled",
         FinalStateSeen |-> st.seen]
    [] OTHER -> [UnknownEvent |-> FALSE]

Apply(e) ==
  CASE e[1] = "start" ->
        LET newAtt == st.phase \in {"idle", "verify"}
            att2 == IF newAtt THEN st.att + 1 ELSE st.att IN
        [st EXCEPT !.att = att2, !.nfill = @ + 1, !.phase = "fill",
                   !.filled = IF newAtt THEN {} ELSE @,
                   !.expect = IF newAtt THEN [bn \in 1..NB |-> IF att2 = 1 THEN TargetSet(bn) ELSE TrulyMissing(bn)] ELSE @,
                   !.fl = [pid |-> e[2], nb |-> e[3], sels |-> <<>>, cnt |-> 0, bytes |-> <<>>,
                           rx |-> ChipSet \ MissOf(st.nfill + 1)]]
    [] e[1] = "select" ->
        [st EXCEPT !.fl.sels = Append(@, <<e[2][1], e[2][2], e[2][3], e[2][4], e[3]>>)]
    [] e[1] = "data" ->
        [st EXCEPT !.fl.cnt = @ + 1, !.fl.bytes = @ \o e[7]]
    [] e[1] = "end" ->
        LET k == Len(st.imgs) + 1
            won == ModelCommit
            bn == IF Matching = {} THEN 0 ELSE CHOOSE m \in Matching : TRUE IN
        [st EXCEPT !.cores = [c \in DOMAIN st.cores \cup won |-> IF c \in won THEN Loaded(e[3], e[4], k) ELSE st.cores[c]],
                   !.imgs = Append(@, st.fl.bytes),
                   !.filled = @ \cup {bn},
                   !.phase = "between"]
    [] e[1] \in {"count", "read"} ->
        [st EXCEPT !.phase = IF @ = "between" THEN "verify" ELSE @]
    [] e[1] = "signal" ->
        [st EXCEPT !.cores = [c \in DOMAIN st.cores |-> AfterMaskedSignal(st.cores[c], e[2], e[3], e[4])], !.phase = "signalled"]
    [] e[1] = "final" -> [st EXCEPT !.seen = TRUE]
    [] OTHER -> st

Bad == LET ck == Checks(Ev) IN {c \in DOMAIN ck : ~ck[c]}
TInit == tid \in 1..Len(Traces) /\ ei = 1 /\ st = St0 /\ verdict = <<>>
TStep == /\ ei <= Len(Tr.ev) /\ verdict = <<>> /\ tid' = tid
         /\ IF Bad = {} THEN ei' = ei + 1 /\ st' = Apply(Ev) /\ verdict' = verdict
            ELSE /\ PrintT("REJECT|" \o ToString(tid) \o "|" \o ToString(ei) \o "|" \o ToString(Bad))
                 /\ verdict' = <<ei, Bad>> /\ ei' = ei /\ st' = st
TSpec == TInit /\ [][TStep]_vars
=============================================================================
