------------------------------ MODULE RegionsSim ------------------------------
(***************************************************************************)
(* Behaviours of RegionsDesign for replay into rig (job R of C12): the     *)
(* design machine at the real branching factor (B = 4: blocks of 4 x 4     *)
(* chips) with a history variable; every target is added exactly once, in  *)
(* an order chosen by TLC's simulator, so that blocks fill up and collapse  *)
(* at different moments.  The finished history is printed as an INFO line   *)
(* and replayed into rig.machine_control.regions.RegionCoreTree.add_core.   *)
(***************************************************************************)
EXTENDS RegionsDesign, Sequences

VARIABLE hist
SInit == DInit /\ hist = <<>>
SNext == \E t \in Targets \ added : AddCore(t) /\ hist' = Append(hist, t)
SSpec == SInit /\ [][SNext]_<<root, leaf, added, hist>>
\* evaluated as an invariant: prints the history once it is complete
Emit == (added = Targets) => PrintT("INFO|" \o ToString(hist))
=============================================================================
