-------------------------- MODULE StructFileDesign --------------------------
(***************************************************************************)
(* Design job of the struct-file model: Struct objects of one small struct *)
(*                                                                         *)
(*     size = 8;  c1 c 0 (a signed byte)   default  0                      *)
(*                h2 v 2 (16 bits)         default  0x0201                 *)
(*                w4 V 4 (32 bits)         default  1         byte 1: gap  *)
(*                                                                         *)
(* under every sequence of update_default_values calls (any non-empty set  *)
(* of fields at once, a call naming an unknown field) and copies.  The     *)
(* implementation modelled is the one the docstrings describe: an object   *)
(* owns a dictionary of defaults; pack() takes a zeroed buffer of `size`   *)
(* bytes and inserts every field little-endian at its offset.  Against it  *)
(* stand the declarative operators of StructFile.tla (the ones the traces  *)
(* of the real code are judged by) applied to the fold of the updates.     *)
(*                                                                         *)
(* Design errors switched on by constants, each of which must be refuted:  *)
(*   BigEndian   fields inserted most significant byte first               *)
(*   WideWrite   every field inserted as a 32-bit word                     *)
(*   SharedCopy  a copy shares the dictionary of its original              *)
(*   Overlap     h2 laid over c1 (a struct file whose offsets collide)     *)
(* Also checked here, once (ASSUME): Boot.tla's PackedByte - the operator  *)
(* C20 judges the boot configuration by - and this module's generalisation *)
(* agree byte for byte on Boot.tla's table of the bundled sv struct, with  *)
(* and without options; and a few readings of numbers and lines.           *)
(***************************************************************************)
EXTENDS StructFile

CONSTANTS MaxSteps, MaxObjs, BigEndian, WideWrite, SharedCopy, Overlap

B == INSTANCE Boot WITH BlockBytes <- 1024, CfgOffset <- 384, CfgLen <- 128

DSize == 8
DNames == <<"c1", "h2", "w4">>
DLetter == [c1 |-> <<98>>, h2 |-> <<72>>, w4 |-> <<73>>]          \* b, H, I
DOffset == [c1 |-> 0, h2 |-> IF Overlap THEN 0 ELSE 2, w4 |-> 4]
DWidth == [c1 |-> 1, h2 |-> 2, w4 |-> 4]
DDefault == [c1 |-> 0, h2 |-> 513, w4 |-> 1]
DValues == [c1 |-> {-1, 5}, h2 |-> {258}, w4 |-> {16909060}]      \* -1, 0x0102, 0x01020304
\* the updates of one call: every non-empty assignment of values to some of the fields
Calls == UNION { {u \in [S -> UNION {DValues[n] : n \in S}] : \A n \in S : u[n] \in DValues[n]} :
                 S \in (SUBSET {"c1", "h2", "w4"}) \ {{}} }

VARIABLES dictHeap,     \* the dictionaries of defaults that exist (sequence of functions name -> value)
          dictOf,       \* object -> index of its dictionary
          folded,       \* object -> the fold of the updates made to it (and to its original before the copy)
          lastCall,     \* what the last step was
          stepsDone
dvars == <<dictHeap, dictOf, folded, lastCall, stepsDone>>
Objs == 1..Len(dictOf)

DInit == /\ dictHeap = <<DDefault>> /\ dictOf = <<1>> /\ folded = <<DDefault>>
         /\ lastCall = [kind |-> "none", obj |-> 0, names |-> {}] /\ stepsDone = 0
DUpdate(o, u) == /\ dictHeap' = [dictHeap EXCEPT ![dictOf[o]] = u @@ @]
                 /\ folded' = [folded EXCEPT ![o] = u @@ @]
                 /\ lastCall' = [kind |-> "update", obj |-> o, names |-> DOMAIN u]
                 /\ UNCHANGED dictOf
DUnknown(o) == /\ lastCall' = [kind |-> "keyerror", obj |-> o, names |-> {}]      \* refused: nothing moves
               /\ UNCHANGED <<dictHeap, dictOf, folded>>
DCopy(o) == /\ Len(dictOf) < MaxObjs
            /\ IF SharedCopy THEN dictOf' = Append(dictOf, dictOf[o]) /\ UNCHANGED dictHeap
               ELSE dictOf' = Append(dictOf, Len(dictHeap) + 1) /\ dictHeap' = Append(dictHeap, dictHeap[dictOf[o]])
            /\ folded' = Append(folded, folded[o])
            /\ lastCall' = [kind |-> "copy", obj |-> o, names |-> {}]
Tick == stepsDone < MaxSteps /\ stepsDone' = stepsDone + 1
DoUpdate == Tick /\ \E o \in Objs, u \in Calls : DUpdate(o, u)
DoUnknown == Tick /\ \E o \in Objs : DUnknown(o)
DoCopy == Tick /\ \E o \in Objs : DCopy(o)
DNext == DoUpdate \/ DoUnknown \/ DoCopy
DSpec == DInit /\ [][DNext]_dvars

\* ---- the implementation's pack(): a zeroed buffer, every field inserted at its offset
LEBytes(v, w) == SubSeq(Bytes8(v), 1, w)
Insert(buf, off, bytes) == [i \in 1..(IF off + Len(bytes) > Len(buf) THEN off + Len(bytes) ELSE Len(buf)) |->
                               IF i > off /\ i <= off + Len(bytes) THEN bytes[i - off] ELSE buf[i]]
ImplPack(dict) ==
    FoldLeft(LAMBDA buf, n : LET w == IF WideWrite THEN 4 ELSE DWidth[n]
                                 le == LEBytes(dict[n], w)
                             IN Insert(buf, DOffset[n], IF BigEndian THEN Reverse(le) ELSE le),
             [i \in 1..DSize |-> 0], DNames)
PackOf(o) == ImplPack(dictHeap[dictOf[o]])

\* ---- the same struct as StructFile.tla sees it
FieldsOf(vals) == [k \in 1..3 |-> LET n == DNames[k]
                                  IN <<n, DLetter[n], Bytes8(DOffset[n]), <<37, 100>>, Bytes8(vals[n]), Bytes8(1)>>]

PackIsFoldOfUpdates == \A o \in Objs : PackAgrees(Bytes8(DSize), FieldsOf(folded[o]), PackOf(o))
PackHasSize == \A o \in Objs : Len(PackOf(o)) = DSize
LayoutIsSpecified == \A o \in Objs : PackSpecified(Bytes8(DSize), FieldsOf(folded[o]))
EveryFieldReadsBack == \A o \in Objs : \A k \in 1..3 :
    LET n == DNames[k]
    IN SubSeq(PackOf(o), DOffset[n] + 1, DOffset[n] + DWidth[n]) = LEBytes(folded[o][n], DWidth[n])
\* a call moves exactly the bytes of the fields it names, in the object it is made on; nothing else ever moves
FieldIsolation ==
    [][\A o \in Objs : \A p \in 0..(DSize - 1) :
          PackOf(o)'[p + 1] # PackOf(o)[p + 1] =>
              /\ lastCall'.kind = "update" /\ lastCall'.obj = o
              /\ p \in Extent(FieldsOf(folded[o]), lastCall'.names)]_dvars
CopyStartsEqual == [][lastCall'.kind = "copy" =>
                        ImplPack(dictHeap'[dictOf'[Len(dictOf')]]) = PackOf(lastCall'.obj)]_dvars
RefusedCallChangesNothing == [][lastCall'.kind = "keyerror" => \A o \in Objs : PackOf(o)' = PackOf(o)]_dvars

(***************************************************************************)
(* Boot.tla's packing and this one on Boot.tla's table (defaults below     *)
(* 2^31, of an array only the first element, options as four bytes).       *)
(***************************************************************************)
BootLetter(w) == CASE w = 1 -> <<66>> [] w = 2 -> <<72>> [] w = 4 -> <<73>>
FromBootTable(tbl, opts) ==
    [k \in 1..Len(tbl) |->
        <<tbl[k][1], BootLetter(tbl[k][2]), Bytes8(tbl[k][3]), <<>>,
          IF tbl[k][1] \in DOMAIN opts THEN [i \in 1..8 |-> IF i <= tbl[k][2] THEN opts[tbl[k][1]][i] ELSE 0]
          ELSE Bytes8(tbl[k][4]),
          Bytes8(tbl[k][5])>>]
NoOpts == [x \in {} |-> <<>>]
SomeOpts == [hw_ver |-> <<5, 0, 0, 0>>, led0 |-> <<2, 5, 0, 128>>, cpu_clk |-> <<144, 1, 0, 0>>,
             status_map |-> <<9, 0, 0, 0>>]
AgreesWithBoot(opts) ==
    LET fs == FromBootTable(B!SvBundled, opts)
    IN /\ PackSpecified(Bytes8(256), fs)
       /\ \A p \in 0..255 : B!PackedByte(B!SvBundled, opts, p) = ExpectedByte(fs, p, FALSE)
ASSUME AgreesWithBoot(NoOpts)
ASSUME AgreesWithBoot(SomeOpts)

\* ---- readings
ASSUME NumVal(<<48, 120, 102, 53, 48, 48, 55, 102, 48, 48>>) = <<0, 127, 0, 245, 0, 0, 0, 0>>   \* 0xf5007f00
ASSUME NumVal(<<48, 88, 49, 70>>) = Bytes8(31) /\ NumVal(<<49, 48, 52, 56, 53, 55, 54>>) = Bytes8(1048576)
ASSUME NumVal(<<45, 49>>) = Bytes8(-1) /\ NumVal(<<45, 49, 50, 56>>) = Bytes8(-128) /\ Small(Bytes8(70000)) = 70000
ASSUME NumClass(<<48, 120>>, TRUE) = "bad" /\ NumClass(<<49, 50, 122>>, TRUE) = "bad"
       /\ NumClass(<<102, 102>>, TRUE) = "bad" /\ NumClass(<<43, 53>>, TRUE) = "odd"
       /\ NumClass(<<45, 53>>, FALSE) = "odd" /\ NumClass(<<45, 53>>, TRUE) = "ok"
\* "  cpu_clk v\t0x24 %d 200 # MHz"
ASSUME LineMeaning(TokensOf(Uncommented(<<32, 32, 99, 112, 117, 95, 99, 108, 107, 32, 118, 9, 48, 120, 50, 52, 32,
                                          37, 100, 32, 50, 48, 48, 32, 35, 32, 77, 72, 122>>))).field
       = <<<<99, 112, 117, 95, 99, 108, 107>>, <<1, 72>>, Bytes8(36), <<37, 100>>, Bytes8(200), Bytes8(1)>>
\* "m[20] A16 8 %s 0"
ASSUME LineMeaning(TokensOf(<<109, 91, 50, 48, 93, 32, 65, 49, 54, 32, 56, 32, 37, 115, 32, 48>>)).field
       = <<<<109>>, <<16, 115>>, Bytes8(8), <<37, 115>>, Bytes8(0), Bytes8(20)>>
=============================================================================
