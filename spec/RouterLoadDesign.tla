-------------------------- MODULE RouterLoadDesign --------------------------
(***************************************************************************)
(* Design job for C10: two small state machines showing that the RULES     *)
(* imply the property.                                                     *)
(*                                                                         *)
(* T (DSpecT): table generation.  Up to DMaxTrees routing trees of up to   *)
(* DMaxNodes nodes are built hop by hop on a ring of DW chips (each chip   *)
(* at most once per tree), with leaves whose route is a core or missing,   *)
(* and every tree gets one of DNKeys key/mask values.  Then the rule       *)
(* "walk the trees; the first visit of a (chip, key, mask) records the     *)
(* exits and the entry direction; a later visit with the same exits adds   *)
(* its entry direction, one with different exits raises" is executed one   *)
(* visit per step in EVERY order of visits.  Shown: whenever the walk      *)
(* completes its result is TablesOf and MultiSource is false; whenever it  *)
(* raises MultiSource is true - in particular when one tree's exits are a  *)
(* strict subset of the other's, whichever is walked first.                *)
(*                                                                         *)
(* R (DSpecR): a router with entries 1..DTop (entry 0 is never given), an  *)
(* allocator that hands out ANY free block of the requested length (or     *)
(* fails when there is none), the staging of <<position, entry>> records,  *)
(* the load command that puts record k at base + its position field, and   *)
(* clearing by application.  Shown: every table loaded and not yet cleared *)
(* stays installed exactly - its entries, in order, owned by its           *)
(* application - nothing else is installed, blocks never overlap, and a    *)
(* failed allocation or a load changes nothing outside its own block.      *)
(***************************************************************************)
EXTENDS RouterLoad

CONSTANTS DW, DMaxTrees, DMaxNodes, DMaxLeaves, DDirs, DLeafCores, DNoRouteLeaves, DNKeys, DAnyOrder,
          DTop, DApps, DVals, DMaxLen

VARIABLES dTrees, dKeys, dPhase, dLeft, dSets,          \* part T
          dRtr, dOwn, dReq, dLive, dFailed              \* part R
dvarsT == <<dTrees, dKeys, dPhase, dLeft, dSets>>
dvarsR == <<dRtr, dOwn, dReq, dLive, dFailed>>
dvars == <<dTrees, dKeys, dPhase, dLeft, dSets, dRtr, dOwn, dReq, dLive, dFailed>>

(* ------------------------------- part T ------------------------------- *)
\* routes a leaf may carry: a core, or none (-1)
DLeafRoutes == DLeafCores \cup (IF DNoRouteLeaves THEN {-1} ELSE {})
KeyOf(kn) == <<kn, 0, 65535, 65535>>
KeySeq == [ti \in 1..Len(dKeys) |-> KeyOf(dKeys[ti])]
RingChips == { <<cx, 0>> : cx \in 0..(DW - 1) }
Single(chip) == [nodes |-> <<chip>>, edges |-> <<>>, leaves |-> <<>>]

\* up to rotation of the ring and renaming of the keys: the first tree starts on chip (0, 0) with key 1
DInitT == /\ \E cnt \in 1..DMaxTrees :
                /\ dTrees \in { tt \in [1..cnt -> { Single(chip) : chip \in RingChips }] : tt[1] = Single(<<0, 0>>) }
                /\ dKeys \in { kk \in [1..cnt -> 1..DNKeys] : kk[1] = 1 }
          /\ dPhase = "build" /\ dLeft = {} /\ dSets = {}
          /\ dRtr = <<>> /\ dOwn = <<>> /\ dReq = <<>> /\ dLive = {} /\ dFailed = FALSE

AddHop(ti, nd, dir) ==
    LET tree == dTrees[ti]  new == Nbr(tree.nodes[nd], dir, DW, 1) IN
    /\ dPhase = "build" /\ Len(tree.nodes) < DMaxNodes /\ new \notin SeqSet(tree.nodes)
    /\ dTrees' = [dTrees EXCEPT ![ti] = [tree EXCEPT !.nodes = Append(tree.nodes, new),
                                                     !.edges = Append(tree.edges, <<nd, dir, Len(tree.nodes) + 1>>)]]
    /\ UNCHANGED <<dKeys, dPhase, dLeft, dSets>> /\ UNCHANGED dvarsR
AddLeaf(ti, nd, route) ==
    LET tree == dTrees[ti] IN
    /\ dPhase = "build" /\ <<nd, route, 0>> \notin SeqSet(tree.leaves) /\ Len(tree.leaves) < DMaxLeaves
    \* leaves are appended in increasing (node, route) order: one representative per set of leaves
    /\ \A lf \in SeqSet(tree.leaves) : lf[1] < nd \/ (lf[1] = nd /\ lf[2] < route)
    /\ dTrees' = [dTrees EXCEPT ![ti] = [tree EXCEPT !.leaves = Append(tree.leaves, <<nd, route, 0>>)]]
    /\ UNCHANGED <<dKeys, dPhase, dLeft, dSets>> /\ UNCHANGED dvarsR
Begin == /\ dPhase = "build" /\ dPhase' = "walk"
         /\ dLeft' = UNION { { <<ti, nd>> : nd \in 1..Len(dTrees[ti].nodes) } : ti \in 1..Len(dTrees) }
         /\ UNCHANGED <<dTrees, dKeys, dSets>> /\ UNCHANGED dvarsR

\* which visits may come next: any (DAnyOrder) or tree by tree, nodes of a tree in index order
MayVisit(tn) == tn \in dLeft /\
                (DAnyOrder \/ ( /\ \A other \in dLeft : other[1] = tn[1] => other[2] >= tn[2]
                                \* no other tree is half walked
                                /\ \A other \in dLeft : other[1] # tn[1] => <<other[1], 1>> \in dLeft ))
VisitOf(tn) == [chip |-> dTrees[tn[1]].nodes[tn[2]], km |-> KeyOf(dKeys[tn[1]]),
                outs |-> ExitsAt(dTrees[tn[1]], tn[2]), ins |-> EntriesAt(dTrees[tn[1]], tn[2])]
Recorded(vis) == { rs \in dSets : rs.chip = vis.chip /\ rs.km = vis.km }
VisitNew(tn) == LET vis == VisitOf(tn) IN
    /\ dPhase = "walk" /\ MayVisit(tn) /\ Recorded(vis) = {}
    /\ dSets' = dSets \cup {vis} /\ dLeft' = dLeft \ {tn}
    /\ UNCHANGED <<dTrees, dKeys, dPhase>> /\ UNCHANGED dvarsR
VisitMerge(tn) == LET vis == VisitOf(tn) IN
    /\ dPhase = "walk" /\ MayVisit(tn)
    /\ \E rs \in Recorded(vis) :
          /\ rs.outs = vis.outs
          /\ dSets' = (dSets \ {rs}) \cup {[rs EXCEPT !.ins = rs.ins \cup vis.ins]}
    /\ dLeft' = dLeft \ {tn}
    /\ UNCHANGED <<dTrees, dKeys, dPhase>> /\ UNCHANGED dvarsR
VisitClash(tn) == LET vis == VisitOf(tn) IN
    /\ dPhase = "walk" /\ MayVisit(tn)
    /\ \E rs \in Recorded(vis) : rs.outs # vis.outs
    /\ dPhase' = "raised"
    /\ UNCHANGED <<dTrees, dKeys, dLeft, dSets>> /\ UNCHANGED dvarsR
Finish == /\ dPhase = "walk" /\ dLeft = {} /\ dPhase' = "done"
          /\ UNCHANGED <<dTrees, dKeys, dLeft, dSets>> /\ UNCHANGED dvarsR

Hop == \E ti \in 1..Len(dTrees) : \E nd \in 1..Len(dTrees[ti].nodes) : \E dir \in DDirs : AddHop(ti, nd, dir)
Leaf == \E ti \in 1..Len(dTrees) : \E nd \in 1..Len(dTrees[ti].nodes) : \E route \in DLeafRoutes : AddLeaf(ti, nd, route)
New == \E tn \in dLeft : VisitNew(tn)
Merge == \E tn \in dLeft : VisitMerge(tn)
Clash == \E tn \in dLeft : VisitClash(tn)
DNextT == Hop \/ Leaf \/ Begin \/ New \/ Merge \/ Clash \/ Finish
DSpecT == DInitT /\ [][DNextT]_dvars

ResultTables == [ ch \in { rs.chip : rs \in dSets } |->
                    { << rs.km[1], rs.km[2], rs.km[3], rs.km[4], SumPow2(rs.outs), SumPow2(rs.ins) >> :
                      rs \in { rs \in dSets : rs.chip = ch } } ]
TreesValid == \A ti \in 1..Len(dTrees) : IsTree(dTrees[ti]) /\ ChipOnce(dTrees[ti])
OneRecordPerChipKey == \A r1, r2 \in dSets : (r1.chip = r2.chip /\ r1.km = r2.km) => r1 = r2
CompletesRight == dPhase = "done" => /\ ~MultiSource(dTrees, KeySeq)
                                     /\ ResultTables = TablesOf(dTrees, KeySeq)
RaisesRight == dPhase = "raised" => MultiSource(dTrees, KeySeq)
\* the walk cannot get stuck: it ends in done or raised
WalkEnds == (dPhase = "walk" /\ dLeft # {}) => \E tn \in dLeft : MayVisit(tn)
\* the subset case: one tree's exits on a shared chip strictly inside the other's is a clash whichever comes first
SubsetIsMultiSource ==
    dPhase = "build" =>
    \A uu, vv \in Visits(dTrees, KeySeq) :
        (uu.chip = vv.chip /\ uu.km = vv.km /\ uu.outs \subseteq vv.outs /\ uu.outs # vv.outs)
            => MultiSource(dTrees, KeySeq)

(* ------------------------------- part R ------------------------------- *)
Slots == 1..DTop
SeqsUpTo(SS, nn) == UNION { [1..kk -> SS] : kk \in 0..nn }
BlockOf(base, len) == base..(base + len - 1)
FreeStarts(len) == IF len = 0 THEN {}
                   ELSE { bs \in Slots : BlockOf(bs, len) \subseteq Slots /\ \A pp \in BlockOf(bs, len) : dOwn[pp] = 0 }

DInitR == /\ dRtr = [pp \in Slots |-> <<>>] /\ dOwn = [pp \in Slots |-> 0]
          /\ dReq = <<>> /\ dLive = {} /\ dFailed = FALSE
          /\ dTrees = <<>> /\ dKeys = <<>> /\ dPhase = "none" /\ dLeft = {} /\ dSets = {}

RCall(app, ents) == /\ dReq = <<>>
                    /\ dReq' = <<[app |-> app, ents |-> ents, base |-> 0, staged |-> <<>>]>>
                    /\ dFailed' = FALSE /\ UNCHANGED <<dRtr, dOwn, dLive>> /\ UNCHANGED dvarsT
RAlloc == /\ dReq # <<>> /\ dReq[1].base = 0
          /\ \E bs \in FreeStarts(Len(dReq[1].ents)) :
                /\ dOwn' = [pp \in Slots |-> IF pp \in BlockOf(bs, Len(dReq[1].ents)) THEN dReq[1].app ELSE dOwn[pp]]
                /\ dReq' = <<[dReq[1] EXCEPT !.base = bs]>>
          /\ UNCHANGED <<dRtr, dLive, dFailed>> /\ UNCHANGED dvarsT
RAllocFail == /\ dReq # <<>> /\ dReq[1].base = 0 /\ FreeStarts(Len(dReq[1].ents)) = {}
              /\ dReq' = <<>> /\ dFailed' = TRUE                      \* the call raises the router error
              /\ UNCHANGED <<dRtr, dOwn, dLive>> /\ UNCHANGED dvarsT
RStage == /\ dReq # <<>> /\ dReq[1].base # 0 /\ dReq[1].staged = <<>>
          /\ dReq' = <<[dReq[1] EXCEPT !.staged = [pos \in 1..Len(dReq[1].ents) |-> <<pos - 1, dReq[1].ents[pos]>>]]>>
          /\ UNCHANGED <<dRtr, dOwn, dLive, dFailed>> /\ UNCHANGED dvarsT
RLoad == /\ dReq # <<>> /\ dReq[1].staged # <<>>
         /\ LET rq == dReq[1] IN
            /\ dRtr' = [pp \in Slots |->
                          IF \E kk \in 1..Len(rq.staged) : rq.base + rq.staged[kk][1] = pp
                          THEN << rq.staged[CHOOSE kk \in 1..Len(rq.staged) : rq.base + rq.staged[kk][1] = pp][2], rq.app >>
                          ELSE dRtr[pp]]
            /\ dLive' = dLive \cup {[app |-> rq.app, base |-> rq.base, ents |-> rq.ents]}
         /\ dReq' = <<>> /\ UNCHANGED <<dOwn, dFailed>> /\ UNCHANGED dvarsT
RClear(app) == /\ dReq = <<>>
               /\ dRtr' = [pp \in Slots |-> IF dRtr[pp] # <<>> /\ dRtr[pp][2] = app THEN <<>> ELSE dRtr[pp]]
               /\ dOwn' = [pp \in Slots |-> IF dOwn[pp] = app THEN 0 ELSE dOwn[pp]]
               /\ dLive' = { ld \in dLive : ld.app # app }
               /\ dFailed' = FALSE /\ UNCHANGED dReq /\ UNCHANGED dvarsT

Call == \E app \in DApps : \E ents \in SeqsUpTo(DVals, DMaxLen) : RCall(app, ents)
Clear == \E app \in DApps : RClear(app)
DNextR == Call \/ RAlloc \/ RAllocFail \/ RStage \/ RLoad \/ Clear
DSpecR == DInitR /\ [][DNextR]_dvars

LiveBlock(ld) == BlockOf(ld.base, Len(ld.ents))
InstalledExactly == \A ld \in dLive : \A pos \in 1..Len(ld.ents) : dRtr[ld.base + pos - 1] = <<ld.ents[pos], ld.app>>
NothingElseInstalled == \A pp \in Slots : dRtr[pp] # <<>> => \E ld \in dLive : pp \in LiveBlock(ld)
BlocksDisjoint == \A l1, l2 \in dLive : l1 # l2 => LiveBlock(l1) \cap LiveBlock(l2) = {}
OwnedByApp == \A ld \in dLive : \A pp \in LiveBlock(ld) : dOwn[pp] = ld.app
\* a failed allocation installs nothing; a load touches only its own block
FailInstallsNothing == [][dFailed' /\ ~dFailed => dRtr' = dRtr /\ dOwn' = dOwn]_dvars
LoadTouchesOwnBlock == [][(dReq # <<>> /\ dReq' = <<>> /\ ~dFailed') =>
                            \A pp \in Slots : pp \notin BlockOf(dReq[1].base, Len(dReq[1].ents)) => dRtr'[pp] = dRtr[pp]]_dvars
\* a request that fits a free block is never refused
NoSpuriousFailure == [][dFailed' /\ ~dFailed => FreeStarts(Len(dReq[1].ents)) = {}]_dvars
=============================================================================
