---------------------------- MODULE FileViewTrace ----------------------------
(***************************************************************************)
(* Trace specification for C13.  One trace = one history of operations on  *)
(* a root view (a real MemoryIO) and views sliced from it (real            *)
(* SlicedMemoryIO objects) over a recording controller.                    *)
(*                                                                         *)
(* Setup fields of the trace record:                                       *)
(*   mem   : the recorded memory window before the first operation, a      *)
(*           sequence of bytes; address a (relative to the window) is      *)
(*           mem[a + 1].  All addresses in the trace are relative to the   *)
(*           window (the driver subtracts the window's origin).            *)
(*   start, end : the addresses the root view was created with             *)
(*   x, y  : the chip of the allocation                                    *)
(* Events, one per operation:                                              *)
(*   <<op, v, args, out, acc, warn, after>>                                *)
(*   op    : "seek" "tell" "read" "write" "slice" "close" "free" "flush"   *)
(*           "address" "len"                                               *)
(*   v     : view id; 1 = the root, slices are numbered as they are made   *)
(*   args  : seek <<offset, whence>>; read <<>> (default) or <<n>>;        *)
(*           write <<data>>; slice <<a, b>>, each <<>> (absent) or <<i>>;  *)
(*           close <<>> or <<"with">> (closed by leaving a with block);    *)
(*           otherwise <<>>                                                *)
(*   out   : <<"raise", class name>> or <<"ok", value>>; value: read the   *)
(*           bytes; write <<count>>; tell <<p>>; address <<a>>; len <<n>>; *)
(*           slice <<new id, len(new), addr, tell>> with addr / tell the   *)
(*           new view's address and tell(), <<value>> or <<>> if that      *)
(*           raised (len(new) is -1 if len() raised); otherwise <<>>       *)
(*   acc   : the controller accesses the operation caused, in order        *)
(*           <<kind, address, length, data, x, y>> (see FileView); besides *)
(*           "r" / "w" / "f" the kinds "rx" / "wx": a read / write access  *)
(*           which FAILED (the controller raised - the machine did not     *)
(*           answer, the network lost the command): it was attempted at    *)
(*           that address with that length, nothing came back, nothing was *)
(*           stored (data = <<>>)                                          *)
(*   warn  : number of TruncationWarnings issued                           *)
(*   after : tell() of view v straight after the operation: <<p>>, or <<>> *)
(*           if it raised                                                  *)
(* closed by <<"end", mem>>: the whole memory window at the end.           *)
(* State st: [mem, views, freed].                                          *)
(***************************************************************************)
EXTENDS FileView, Json, IOUtils

Traces == JsonDeserialize(IOEnv.TRACE_FILE)
VARIABLES tid, ei, st, verdict
vars == <<tid, ei, st, verdict>>
Tr == Traces[tid]
Ev == Tr.ev[ei]

Guarded == {"seek", "tell", "read", "write", "flush", "address"}
Ops == Guarded \cup {"slice", "close", "free", "len"}

\* ------------------------------------------------------------------ failed accesses
\* an access the controller did not carry out (it raised instead): no byte was transferred
Attempt(ac) == ac[1] \in {"rx", "wx"}
Touches(ac) == IsTransfer(ac) \/ Attempt(ac)
\* the addresses of failed attempts count like those of transfers
AllTouchesInside(accs, lo, hi) == \A i \in 1..Len(accs) : Touches(accs[i]) => AccessInside(accs[i], lo, hi)
Faulted(e) == \E i \in 1..Len(e[5]) : Attempt(e[5][i])

\* ------------------------------------------------------------------ the model's view of event e
Vw(e) == st.views[e[2]]
Ok(e) == e[4][1] = "ok"
Dead(e) == Vw(e).closed \/ st.freed
Target(e) == SeekTarget(Vw(e), e[3][1], e[3][2])
ReadN(e) == IF e[3] = <<>> THEN -1 ELSE e[3][1]
\* bytes transferred according to the event itself
Moved(e) == IF ~Ok(e) THEN 0
            ELSE IF e[1] = "read" THEN Len(e[4][2])
            ELSE IF e[1] = "write" /\ e[4][2] # <<>> THEN e[4][2][1] ELSE 0
\* bytes to transfer according to the file
Count(e) == IF e[1] = "read" THEN ReadCount(Vw(e), ReadN(e)) ELSE WriteCount(Vw(e), Len(e[3][1]))
Truncated(e) == IF e[1] = "read" THEN ReadTruncated(Vw(e), ReadN(e)) ELSE WriteTruncated(Vw(e), Len(e[3][1]))
Here(e) == Vw(e).lo + Vw(e).pos
\* memory after the operation according to the file
MemModel(e) == IF e[1] = "write" /\ Ok(e) /\ Count(e) > 0
               THEN Poke(st.mem, Here(e), SubSeq(e[3][1], 1, Count(e))) ELSE st.mem
PosModel(e) == IF ~Ok(e) THEN Vw(e).pos
               ELSE IF e[1] = "seek" THEN Target(e)
               ELSE Vw(e).pos + Moved(e)
ClosedAfter(e) == Vw(e).closed \/ (e[1] = "close" /\ Ok(e))
FreedAfter(e) == st.freed \/ (e[1] = "free" /\ Ok(e))
SliceRg(e) == SliceRange(Vw(e), e[3][1], e[3][2])
\* base address of the new view: where it is empty its address (if observable) is taken from the
\* event and must lie in the parent; otherwise it is the clipped start
SliceLo(e) == LET rg == SliceRg(e)  ad == e[4][2][3]
              IN IF rg[1] = rg[2] /\ ad # <<>> THEN ad[1] ELSE rg[1]
SliceHi(e) == SliceLo(e) + (SliceRg(e)[2] - SliceRg(e)[1])

Apply(e) ==
    IF e[1] \notin Ops THEN st ELSE
    LET vs1 == [st.views EXCEPT ![e[2]].pos = PosModel(e), ![e[2]].closed = ClosedAfter(e)]
        vs2 == IF e[1] = "slice" /\ Ok(e) THEN Append(vs1, NewView(SliceLo(e), SliceHi(e))) ELSE vs1
    IN [mem |-> MemModel(e), views |-> vs2, freed |-> FreedAfter(e)]

PosClass(e) == IF Vw(e).pos < 0 THEN "neg" ELSE IF Vw(e).pos > VLen(Vw(e)) THEN "beyond" ELSE "in"
Root == st.views[1]

\* ------------------------------------------------------------------ clauses
Common(e) ==
  LET vw == Vw(e)  acc == e[5]  inside == AllTouchesInside(acc, vw.lo, vw.hi) IN
  [ \* no operation on a view reads or writes an address outside that view's range; the three
    \* names tell where the view's position was when the access was made
    Confined                   |-> PosClass(e) = "in" => inside,
    ConfinedAtNegativePosition |-> PosClass(e) = "neg" => inside,
    ConfinedBeyondEnd          |-> PosClass(e) = "beyond" => inside,
    \* ... nor the memory of another chip
    OnViewsChip    |-> \A i \in 1..Len(acc) : acc[i][5] = Tr.x /\ acc[i][6] = Tr.y,
    \* the memory after the accesses is the file after the operation: written bytes are stored
    \* where the file says, nothing else changes
    WrittenBytesStored |-> MemAfter(st.mem, acc) = MemModel(e),
    \* after close / free every guarded operation fails (and touches nothing); the tell() made
    \* straight after the operation is such an operation as well
    ClosedFails    |-> /\ (vw.closed /\ e[1] \in Guarded) => (~Ok(e) /\ acc = <<>>)
                       /\ vw.closed => \A i \in 1..Len(acc) : ~Touches(acc[i])
                       /\ ClosedAfter(e) => e[7] = <<>>,
    FreedFails     |-> /\ (st.freed /\ e[1] \in Guarded) => ~Ok(e)
                       /\ st.freed => acc = <<>>
                       /\ FreedAfter(e) => e[7] = <<>>,
    \* positions advance by the bytes transferred, and not otherwise (seeks have their own clauses);
    \* an operation that raised - because the view refused it or because its controller access
    \* failed - transferred nothing (PosModel: the position stays where it was)
    PositionAdvances |-> (e[1] # "seek" \/ ~Ok(e)) /\ ~ClosedAfter(e) /\ ~FreedAfter(e) => e[7] = <<PosModel(e)>>,
    \* on a live view operations succeed (a seek to before the start, and a transfer at a negative
    \* position, may be refused; a transfer whose controller access failed cannot succeed)
    NoSpuriousFailure |-> (~Dead(e) /\ ~Ok(e)) =>
                             \/ e[1] = "seek" /\ Target(e) < 0
                             \/ e[1] \in {"read", "write"} /\ vw.pos < 0
                             \/ e[1] \in {"read", "write"} /\ Faulted(e),
    \* (what the driver's controllers record of a failed access: no data)
    env_FailedAccessEmpty |-> \A i \in 1..Len(acc) : Attempt(acc[i]) => acc[i][4] = <<>>,
    \* only the free operation releases memory, and it names the allocation
    FreeNamesAllocation |-> IF e[1] = "free" /\ Ok(e) /\ ~st.freed
                            THEN Len(acc) = 1 /\ acc[1][1] = "f" /\ acc[1][2] = Root.lo
                            ELSE \A i \in 1..Len(acc) : acc[i][1] # "f",
    \* the recording controller answered reads from the memory this specification tracks
    env_ControllerMemory |-> ReadsAgree(st.mem, acc),
    harness_KnownView |-> e[2] \in 1..Len(st.views),
    inv_Nested |-> \A i \in 1..Len(Apply(e).views) :
                      LET w == Apply(e).views[i] IN Root.lo <= w.lo /\ w.lo <= w.hi /\ w.hi <= Root.hi ]

Specific(e) ==
  LET vw == Vw(e) IN
  CASE e[1] = "seek" ->
        [SeekFromStart   |-> (Ok(e) /\ e[3][2] = 0 /\ ~Dead(e)) => e[7] = <<Target(e)>>,
         SeekFromCurrent |-> (Ok(e) /\ e[3][2] = 1 /\ ~Dead(e)) => e[7] = <<Target(e)>>,
         SeekFromEnd     |-> (Ok(e) /\ e[3][2] = 2 /\ ~Dead(e)) => e[7] = <<Target(e)>>]
    [] e[1] = "tell" ->
        [TellIsPosition |-> Ok(e) => e[4][2] = <<vw.pos>>]
    [] e[1] = "read" ->
        [TruncatedAtEnd    |-> Ok(e) => Len(e[4][2]) = Count(e),
         TruncationWarning |-> (Ok(e) /\ Truncated(e)) => e[6] > 0,
         WarningMeansTruncation |-> (e[6] > 0 /\ PosClass(e) = "in") => Truncated(e),
         \* as many of the returned bytes as the file has at those positions are the bytes last written
         ReadsLastWritten  |-> Ok(e) => \A i \in 1..Min(Len(e[4][2]), Count(e)) : e[4][2][i] = st.mem[Here(e) + i]]
    [] e[1] = "write" ->
        [TruncatedAtEnd    |-> Ok(e) => e[4][2] = <<Count(e)>>,
         TruncationWarning |-> (Ok(e) /\ Truncated(e)) => e[6] > 0,
         WarningMeansTruncation |-> (e[6] > 0 /\ PosClass(e) = "in") => Truncated(e)]
    [] e[1] = "slice" ->
        [SliceCoversClippedRange |->
            Ok(e) => LET rg == SliceRg(e)  nlen == e[4][2][2]  ad == e[4][2][3] IN
                     /\ nlen = rg[2] - rg[1]
                     /\ (ad # <<>> /\ nlen > 0) => ad[1] = rg[1]
                     /\ (ad # <<>> /\ nlen = 0) => (vw.lo <= ad[1] /\ ad[1] <= vw.hi),
         \* the new view starts at position 0 and is usable unless the allocation is freed
         SliceStartsAtZero |-> (Ok(e) /\ ~st.freed) => (e[4][2][4] = <<0>> /\ e[4][2][3] # <<>>),
         SliceOfFreedFails |-> (Ok(e) /\ st.freed) => (e[4][2][4] = <<>> /\ e[4][2][3] = <<>>),
         harness_ViewIds |-> Ok(e) => e[4][2][1] = Len(st.views) + 1]
    [] e[1] = "address" ->
        [AddressIsBasePlusPosition |-> (Ok(e) /\ PosClass(e) = "in") => e[4][2] = <<Here(e)>>]
    [] e[1] = "len" ->
        [LenIsViewLength |-> Ok(e) => e[4][2] = <<VLen(vw)>>]
    [] e[1] = "free" ->
        [harness_FreeOnRoot |-> e[2] = 1]
    [] OTHER -> [Op |-> TRUE]

Checks(e) ==
  IF e[1] = "end" THEN [FinalMemory |-> e[2] = st.mem]
  ELSE IF e[1] \notin Ops THEN [UnknownEvent |-> FALSE]
  ELSE IF e[2] \notin 1..Len(st.views) THEN [harness_KnownView |-> FALSE]
  ELSE Common(e) @@ Specific(e)

Bad == LET ck == Checks(Ev) IN {c \in DOMAIN ck : ~ck[c]}
St0 == [mem |-> Tr.mem, views |-> <<NewView(Tr.start, Tr.end)>>, freed |-> FALSE]
TInit == tid \in 1..Len(Traces) /\ ei = 1 /\ st = St0 /\ verdict = <<>>
TStep == /\ ei <= Len(Tr.ev) /\ verdict = <<>> /\ tid' = tid
         /\ IF Bad = {} THEN ei' = ei + 1 /\ st' = Apply(Ev) /\ verdict' = verdict
            ELSE /\ PrintT("REJECT|" \o ToString(tid) \o "|" \o ToString(ei) \o "|" \o ToString(Bad))
                 /\ verdict' = <<ei, Bad>> /\ ei' = ei /\ st' = st
TSpec == TInit /\ [][TStep]_vars
=============================================================================
