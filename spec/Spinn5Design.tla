---------------------------- MODULE Spinn5Design ----------------------------
EXTENDS Spinn5, TLC
(***************************************************************************)
(* A (deliberately small) state machine so that the design job has a       *)
(* behaviour to explore: walk around a 24 x 24 torus of four 12 x 12 cells *)
(* and check at every step that crossing a board edge is exactly what      *)
(* Leaves says, and that the local Ethernet chip changes exactly then.     *)
(***************************************************************************)
CONSTANTS RootX, RootY
VARIABLES chip, lastleft
Init == chip \in (0..23) \X (0..23) /\ lastleft = FALSE
Move(k) == /\ chip' = Nbr(chip, k, 24, 24)
           /\ lastleft' = Leaves(ChipCoord(chip[1], chip[2], RootX, RootY), k)
Next == \E k \in Links : Move(k)
Spec == Init /\ [][Next]_<<chip, lastleft>>
EdgeIffBoardChanges ==
    [][\A k \in Links : Move(k) =>
          (Leaves(ChipCoord(chip[1], chip[2], RootX, RootY), k)
             <=> LocalEth(chip[1], chip[2], 24, 24, RootX, RootY)
                  # LocalEth(chip'[1], chip'[2], 24, 24, RootX, RootY))]_<<chip, lastleft>>
OnBoard == ChipCoord(chip[1], chip[2], RootX, RootY) \in Tile
=============================================================================
