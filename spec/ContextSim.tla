------------------------------ MODULE ContextSim ------------------------------
(***************************************************************************)
(* Behaviours of ContextDesign for replay into rig (job R of C18).         *)
(*                                                                         *)
(* The design machine (the stack of blocks, the exception that unwinds,    *)
(* the call that is being bound) is run by TLC's simulator with a history  *)
(* variable.  Instead of the design's three toy methods over <<app_id, x,  *)
(* p>> the simulated program calls the REAL methods: their signatures      *)
(* (name, positional parameters, defaults, keyword-only parameters,        *)
(* star-args - the method encoding of Context.tla, the one ContextTrace    *)
(* already reads) are data, read from IOEnv.SIM_FILE, and the parameter    *)
(* names of the design are replaced (cfg: ParamSeq <- SimParamSeq) by the  *)
(* contextual names of the controller that is driven (x, y, p, processor,  *)
(* app_id / cabinet, frame, board) plus one name no method declares.  The  *)
(* methods fall into the design's three shapes (every contextual parameter *)
(* required / one with a default / star-args with keyword-only ones); an   *)
(* Invoke step picks a shape, then a method of that shape, a positional    *)
(* prefix, and for every remaining parameter whether it is given by        *)
(* keyword or left to the context / the default / nobody.                  *)
(*                                                                         *)
(* Added to the design (it has neither): context objects the program keeps *)
(* and enters again - also inside themselves - and update_current_context  *)
(* on a block that is not a kept object (Context.tla's Update).  The       *)
(* design's invariants and action properties stay switched on.             *)
(*                                                                         *)
(* Every step appends to the history what the step was AND what the design *)
(* says holds after it: the arguments in force (Merged of the stack), the  *)
(* stop signals a leave sends (sentlog), for a call whether the mechanism  *)
(* refuses it and the value every declared parameter is bound to           *)
(* (MechCall / MechBound).  A finished history (budget used up, every      *)
(* block left, no exception in flight) is printed as one INFO line of      *)
(* JSON.  harness/props/c18_replay.py turns it into a program of nested    *)
(* `with` blocks over the real controller, attaches the predictions to the *)
(* recorded events and has ContextReplayTrace.tla compare them.            *)
(*                                                                         *)
(* Random draws use TLC!RandomElement (seeded by -seed), each bound by an  *)
(* \E over a singleton inside a conjunction, so that a draw is made once   *)
(* per step and TLC does not expand it when it splits the next-state       *)
(* relation into actions.                                                  *)
(***************************************************************************)
EXTENDS ContextDesign, Json, IOUtils

CONSTANTS Budget,       \* history entries after which only leaving / catching / returning is possible
          NKept         \* context objects a program may keep

SimIn == JsonDeserialize(IOEnv.SIM_FILE)
\* [kind |-> "mc" | "bmp", params |-> <<names>>, meths |-> << <<method, longest positional prefix that can be
\*  supplied, number of star arguments, 1 if a call visits every chip of the machine (such a draw is repeated
\*  three times out of four) else 0>>, ... >>]
SimParamSeq == SimIn.params
SimKind == SimIn.kind
NMeths == Len(SimIn.meths)
MethAt(i) == SimIn.meths[i][1]

VARIABLES simhist,      \* the history
          keptmaps,     \* keptmaps[j]: the map of kept object j (made at its first entry)
          ownerof       \* ownerof[i]: the kept object block i was made from, 0 for a fresh one; bottom first

svars == <<blocks, saved, unwinding, sentlog, lastcall, simhist, keptmaps, ownerof>>

Pick(S) == RandomElement(S)
ParamNames == { ParamSeq[i] : i \in 1..Len(ParamSeq) }
\* sparse maps: every name present with probability 3/8.  (An operator WITH a parameter: TLC evaluates a
\* constant-level definition without one once and for all.  The design's AllMaps - every map - is not used here
\* and is replaced by the empty set in the cfg: TLC evaluates constant definitions eagerly, 4^6 maps cost seconds.)
DrawMap(salt) == LET drawn == [ j \in 1..NP |-> IF Pick(1..8) <= 3 THEN <<ParamSeq[j], Pick(Values)>> ELSE <<>> ]
                 IN  SelectSeq(drawn, LAMBDA d : Len(d) > 0)
NoMaps == {}
\* initial contexts: every map with at most two names
SmallMaps == {<<>>} \cup { << <<ParamSeq[j], v>> >> : j \in 1..NP, v \in Values }
             \cup { << <<ParamSeq[jj[1]], vv[1]>>, <<ParamSeq[jj[2]], vv[2]>> >> :
                       jj \in { q \in (1..NP) \X (1..NP) : q[1] < q[2] }, vv \in Values \X Values }
\* a (small) set as a sequence, for printing
SetAsSeq(S) == LET F[T \in SUBSET S] == IF T = {} THEN <<>>
                                        ELSE LET el == CHOOSE el \in T : TRUE IN Append(F[T \ {el}], el)
               IN  F[S]
InForceSeq(stack) == SetAsSeq(Merged(stack))
Note(entry) == simhist' = Append(simhist, entry)

----------------------------------------------------------------------------
CtxNames(meth) == Declared(meth) \cap ParamNames
ShapeOf(meth) == IF meth[5] = 1 THEN "star"
                 ELSE IF \E k \in CtxNames(meth) : DefaultOf(meth, k) # <<"req">> THEN "default" ELSE "required"
Shapes == {"required", "default", "star"}
\* (a constant without parameters: evaluated once)
ByShape == [ s \in Shapes |-> { i \in 1..NMeths : ShapeOf(MethAt(i)) = s } ]
OfShape(s) == ByShape[s]

PosDraw(i, n) == LET meth == MethAt(i)
                 IN  IF meth[5] = 1 THEN [ j \in 1..SimIn.meths[i][3] |-> <<"other">> ]
                     ELSE [ j \in 1..n |-> IF meth[2][j] \in ParamNames THEN <<"int", Pick(Values)>> ELSE <<"other">> ]
\* the parameters a keyword may still name
RestOf(meth, n) == (IF meth[5] = 1 THEN <<>> ELSE SubSeq(meth[2], n + 1, Len(meth[2])))
                   \o [ j \in 1..Len(meth[4]) |-> meth[4][j][1] ]
\* a contextual one is given half of the time; one that is no destination is given when the method demands it
\* (left out once in 16 calls: the call must then be refused), never when it has a default
KwDraw(meth, n) ==
    LET rest == RestOf(meth, n)
        drawn == [ j \in 1..Len(rest) |->
                     IF rest[j] \in ParamNames
                     THEN IF Pick(1..2) = 1 THEN <<rest[j], <<"int", Pick(Values)>>>> ELSE <<>>
                     ELSE IF DefaultOf(meth, rest[j]) = <<"req">> /\ Pick(1..16) > 1 THEN <<rest[j], <<"other">>>>
                     ELSE <<>> ]
    IN  SelectSeq(drawn, LAMBDA d : Len(d) > 0)

Closing == Len(simhist) > Budget
Open == ~Closing

----------------------------------------------------------------------------
SInit == /\ blocks \in { << [args |-> mm, app |-> <<>>] >> : mm \in SmallMaps }
         /\ saved = <<>> /\ unwinding = FALSE /\ sentlog = <<>> /\ lastcall = NoCall
         /\ simhist = << [op |-> "init", map |-> blocks[1].args] >>
         /\ keptmaps = <<>> /\ ownerof = <<0>>

Entered(key) == ownerof' = Append(ownerof, key)
Left == ownerof' = SubSeq(ownerof, 1, Len(ownerof) - 1)

SEnterFresh ==
    /\ Open
    /\ \E mm \in {DrawMap(simhist)} :
          /\ Enter(mm) /\ Entered(0) /\ UNCHANGED keptmaps
          /\ Note([op |-> "enter", map |-> mm, key |-> 0, force |-> InForceSeq(blocks')])

SEnterKept ==
    /\ Open
    /\ \E j \in {Pick(1..NKept)} :
          IF j <= Len(keptmaps)
          THEN /\ Enter(keptmaps[j]) /\ Entered(j) /\ UNCHANGED keptmaps
               /\ Note([op |-> "enter", map |-> keptmaps[j], key |-> j, force |-> InForceSeq(blocks')])
          ELSE \E mm \in {DrawMap(simhist)} :
               /\ Enter(mm) /\ Entered(Len(keptmaps) + 1) /\ keptmaps' = Append(keptmaps, mm)
               /\ Note([op |-> "enter", map |-> mm, key |-> Len(keptmaps) + 1, force |-> InForceSeq(blocks')])

\* application(a) with the id given positionally / by keyword, or application() with the id left to the context
SEnterApp ==
    /\ Open /\ SimKind = "mc"
    /\ \E how \in {Pick({"pos", "kw", "ctx"})} :
          /\ IF how = "ctx" THEN EnterAppFromContext ELSE \E a \in {Pick(Values)} : EnterApp(a)
          /\ Entered(0) /\ UNCHANGED keptmaps
          /\ Note([op |-> "app", how |-> how, id |-> blocks'[Len(blocks')].app[1], force |-> InForceSeq(blocks')])

\* update_current_context(**u) on the initial context or on a block that is no kept object; inside an application
\* block the application id is left alone (which application such a block then stops is not something the
\* property speaks about)
SUpdate ==
    /\ Open /\ Idle /\ ownerof[Len(ownerof)] = 0
    /\ \E u \in {DrawMap(simhist)} :
          /\ blocks[Len(blocks)].app # <<>> => ~Has(u, "app_id")
          /\ blocks' = Update(blocks, u)
          /\ sentlog' = <<>> /\ lastcall' = NoCall /\ UNCHANGED <<saved, unwinding, keptmaps, ownerof>>
          /\ Note([op |-> "update", map |-> u, force |-> InForceSeq(blocks')])

LeaveNote(how) == Note([op |-> "exit", how |-> how, stops |-> sentlog', force |-> InForceSeq(blocks')])
SExitNormally    == ExitNormally /\ Left /\ UNCHANGED keptmaps /\ LeaveNote("normal")
\* an exception is raised at the end of the body of the innermost block ...
SExitByException == Open /\ ExitByException /\ Left /\ UNCHANGED keptmaps /\ LeaveNote("exception")
\* ... unwinds through the enclosing one ...
SPropagate       == Propagate /\ Left /\ UNCHANGED keptmaps /\ LeaveNote("exception")
\* ... or is caught here
SCatch           == Catch /\ UNCHANGED <<keptmaps, ownerof>> /\ Note([op |-> "catch"])
SReturn          == Return /\ UNCHANGED <<keptmaps, ownerof, simhist>>

SInvoke(shape) ==
    /\ Open /\ Idle /\ OfShape(shape) # {}
    /\ \E first \in {Pick(OfShape(shape))} :
       \E i \in {IF SimIn.meths[first][4] = 1 /\ Pick(1..4) > 1 THEN Pick(OfShape(shape)) ELSE first} :
       \E n \in {Pick(0..SimIn.meths[i][2])} :
       \E pos \in {PosDraw(i, n)} :
       \E kw \in {KwDraw(MethAt(i), n)} :
          /\ Invoke(MethAt(i), pos, kw)
          /\ UNCHANGED <<keptmaps, ownerof>>
          /\ LET meth == MethAt(i)
                 names == CtxNames(meth)
                 out == lastcall'.out
                 bound == [ k \in names |-> MechBound(meth, pos, out.kwargs, k) ]
             IN  Note([op |-> "invoke", meth |-> meth[1], pos |-> pos, kw |-> kw,
                       refused |-> IF out.refused THEN 1 ELSE 0,
                       bound |-> IF out.refused THEN <<>> ELSE SetAsSeq({ <<k, bound[k]>> : k \in names })])

\* (the weights: half of the steps of an idle program are calls)
SNext == \/ SEnterFresh \/ SEnterKept \/ SEnterApp \/ SUpdate
         \/ SExitNormally \/ SExitByException \/ SPropagate \/ SCatch \/ SReturn
         \/ \E weight \in 1..2, shape \in Shapes : SInvoke(shape)
SSpec == SInit /\ [][SNext]_svars

\* evaluated as an invariant: prints a history once it is finished
Finished == Closing /\ Depth = 0 /\ Idle
Emit == Finished => PrintT("INFO|" \o ToJson(simhist))
=============================================================================
