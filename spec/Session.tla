------------------------------ MODULE Session ------------------------------
(***************************************************************************)
(* A whole controller session against one machine: what the MACHINE does   *)
(* with each command it receives (the model of SC&MP / SARK that rig is    *)
(* written against), and what each method of rig's MachineController is    *)
(* OBLIGED to send and to return, given the machine's state.               *)
(*                                                                         *)
(* This module grows the specification beyond the twenty listed            *)
(* properties: it covers signals and application states, SDRAM allocation  *)
(* with tags, router-entry allocation / loading / clearing by application, *)
(* IP tags, LEDs, core-state counting and polling, and the application     *)
(* block, as ONE state machine, so that the cross-cutting guarantees       *)
(*   - nothing of an application outlives its stop signal (NoLeak),        *)
(*   - a call naming application a changes nothing owned by b (Isolation), *)
(*   - router entries sit only in positions allocated to their own         *)
(*     application, SDRAM blocks are disjoint and tags unique              *)
(* can be checked of the design (SessionDesign) and every step of a real   *)
(* session can be judged against it (SessionTrace).                        *)
(*                                                                         *)
(* Machine state s (a record of finite sets; power-on = all empty):        *)
(*   core   <<x, y, p, state, app>>   application cores not idle           *)
(*   alloc  <<x, y, off, size, tag, app>>   SDRAM blocks; off = address    *)
(*          minus SdramBase                                                *)
(*   brk    <<x, y, off>>   per chip: where the next block will start      *)
(*   own    <<x, y, pos, app>>   router positions allocated                *)
(*   ent    <<x, y, pos, app, k1, k0, m1, m0, r1, r0>>   entries installed *)
(*   iptag  <<x, y, tag, ip1, ip0, port>>                                  *)
(* 32-bit words are pairs <<high 16 bits, low 16 bits>>.                   *)
(*                                                                         *)
(* A command c, as the machine logged it:                                  *)
(*   c[1] cmd  c[2],c[3] chip that executed it  c[4] core  c[5..7] arg1..3 *)
(*   c[8] bytes of data  c[9] return code  c[10] reply arg1                *)
(*   c[11] aux: what the machine itself noted (cores a fill loaded,        *)
(*         entries a router load installed, whether written data was zero) *)
(*   c[12] <<x, y>> as addressed in the datagram (255,255 = "the root")    *)
(***************************************************************************)
EXTENDS Integers, Sequences, FiniteSets, SequencesExt, TLC

SdramBase == 1610612736             \* 0x60000000
StIdle == 15  StWait == 5  StRun == 7  StSync0 == 8  StSync1 == 9  StPause == 10  StExit == 11
StRte == 2  StWdog == 3  StInit == 4  StCMain == 6
RtrSize == 1024

Num(w) == w[1] * 65536 + w[2]                  \* only for words below 2^31
Word(n) == <<n \div 65536, n % 65536>>
SeqSet(q) == { q[i] : i \in 1..Len(q) }
Al4(n) == ((n + 3) \div 4) * 4
Min2(a, b) == IF a < b THEN a ELSE b

Empty == [core |-> {}, alloc |-> {}, brk |-> {}, own |-> {}, ent |-> {}, iptag |-> {}]

----------------------------------------------------------------------------
\* signals and states by name (SC&MP's numbering; rig/machine_control/consts.py mirrors it)
SigCode == [init |-> 0, power_down |-> 1, stop |-> 2, start |-> 3, sync0 |-> 4, sync1 |-> 5, pause |-> 6,
            cont |-> 7, exit |-> 8, timer |-> 9, usr0 |-> 10, usr1 |-> 11, usr2 |-> 12, usr3 |-> 13]
\* how a signal travels: nearest-neighbour flood (2) for those that must reach cores whatever the routing
\* tables hold, multicast (0) for the others
SigType(name) == IF name \in {"init", "power_down", "start", "stop", "exit"} THEN 2 ELSE 0
StateCode == [dead |-> 0, power_down |-> 1, runtime_exception |-> 2, watchdog |-> 3, init |-> 4, wait |-> 5,
              c_main |-> 6, run |-> 7, sync0 |-> 8, sync1 |-> 9, pause |-> 10, exit |-> 11, idle |-> 15]

----------------------------------------------------------------------------
\* THE MACHINE
CoresOf(chips) == UNION { { <<ch[1], ch[2], p>> : p \in 1..(ch[3] - 1) } : ch \in chips }
CoreSt(s, xyp) == IF \E c \in s.core : <<c[1], c[2], c[3]>> = xyp
                  THEN LET c == CHOOSE c \in s.core : <<c[1], c[2], c[3]>> = xyp IN <<c[4], c[5]>>
                  ELSE <<StIdle, 0>>
CountIn(s, chips, state, app) == Cardinality({ xyp \in CoresOf(chips) : CoreSt(s, xyp) = <<state, app>> })

\* what a signal does to one core of the signalled application
AfterSignal(sig, state) ==
    CASE sig = 3 /\ state = StWait  -> StRun
      [] sig = 4 /\ state = StSync0 -> StRun
      [] sig = 5 /\ state = StSync1 -> StRun
      [] sig = 6 /\ state = StRun   -> StPause
      [] sig = 7 /\ state = StPause -> StRun
      [] sig = 8                    -> StExit
      [] OTHER -> state
Signal(s, sig, app) ==
    IF sig = 2
    THEN \* stop: the cores go back to idle and everything held in the application's name is released
         [s EXCEPT !.core  = { c \in @ : c[5] # app },
                   !.alloc = { a \in @ : a[6] # app },
                   !.own   = { o \in @ : o[4] # app },
                   !.ent   = { e \in @ : e[4] # app }]
    ELSE [s EXCEPT !.core = { IF c[5] = app THEN <<c[1], c[2], c[3], AfterSignal(sig, c[4]), c[5]>> ELSE c : c \in @ }]

BrkOf(s, x, y) == IF \E b \in s.brk : b[1] = x /\ b[2] = y
                  THEN (CHOOSE b \in s.brk : b[1] = x /\ b[2] = y)[3] ELSE 0
TagInUse(s, x, y, tag, app) == tag # 0 /\ \E a \in s.alloc : a[1] = x /\ a[2] = y /\ a[5] = tag /\ a[6] = app
AllocFails(s, heap, x, y, size, tag, app) ==
    size = 0 \/ TagInUse(s, x, y, tag, app) \/ BrkOf(s, x, y) + Al4(size) > heap
SdramAlloc(s, heap, x, y, size, tag, app) ==
    IF AllocFails(s, heap, x, y, size, tag, app) THEN s
    ELSE LET off == BrkOf(s, x, y)
         IN [s EXCEPT !.alloc = @ \cup {<<x, y, off, size, tag, app>>},
                      !.brk = { b \in @ : ~(b[1] = x /\ b[2] = y) } \cup {<<x, y, off + Al4(size) + 8>>}]
SdramFree(s, x, y, off) == [s EXCEPT !.alloc = { a \in @ : ~(a[1] = x /\ a[2] = y /\ a[3] = off) }]

Taken(s, x, y) == { o[3] : o \in { o \in s.own : o[1] = x /\ o[2] = y } } \cup { e[3] : e \in { e \in s.ent : e[1] = x /\ e[2] = y } }
\* first fit from position 1 (position 0 is never given out: 0 means "failed").  The lowest fitting start is
\* position 1 or the position after a taken one.
RtrBase(s, x, y, count) ==
    IF count < 1 \/ count > RtrSize - 1 THEN 0
    ELSE LET T == Taken(s, x, y)
             fits == { b \in {1} \cup { t + 1 : t \in T } : b + count - 1 <= RtrSize - 1 /\ ~\E t \in T : b <= t /\ t <= b + count - 1 }
         IN IF fits = {} THEN 0 ELSE CHOOSE b \in fits : \A b2 \in fits : b <= b2
RtrAlloc(s, x, y, count, app) ==
    LET b == RtrBase(s, x, y, count)
    IN IF b = 0 THEN s ELSE [s EXCEPT !.own = @ \cup { <<x, y, i, app>> : i \in b..(b + count - 1) }]
RtrLoad(s, x, y, app, installed) ==      \* installed: sequence of <<pos, k1, k0, m1, m0, r1, r0>>
    LET poss == { e[1] : e \in SeqSet(installed) }
    IN [s EXCEPT !.ent = { e \in @ : ~(e[1] = x /\ e[2] = y /\ e[3] \in poss) }
                         \cup { <<x, y, e[1], app, e[2], e[3], e[4], e[5], e[6], e[7]>> : e \in SeqSet(installed) }]
RtrClear(s, x, y, app) ==
    [s EXCEPT !.own = { o \in @ : ~(o[1] = x /\ o[2] = y /\ o[4] = app) },
              !.ent = { e \in @ : ~(e[1] = x /\ e[2] = y /\ e[4] = app) }]
\* the longest run of untaken positions among 1 .. RtrSize - 1 = the widest gap between neighbouring taken ones
LargestFree(s, x, y) ==
    LET B == {0, RtrSize} \cup Taken(s, x, y)
        NextIn(b) == CHOOSE t \in B : t > b /\ \A u \in B : u > b => t <= u
        gaps == { NextIn(b) - b - 1 : b \in B \ {RtrSize} }
    IN CHOOSE g \in gaps : \A g2 \in gaps : g >= g2

Loaded(s, cores, app, wait) ==           \* cores: set of <<x, y, p>>
    [s EXCEPT !.core = { c \in @ : <<c[1], c[2], c[3]>> \notin cores }
                       \cup { <<k[1], k[2], k[3], IF wait THEN StWait ELSE StRun, app>> : k \in cores }]

IptagSet(s, x, y, tag, ip, port) ==
    [s EXCEPT !.iptag = { t \in @ : ~(t[1] = x /\ t[2] = y /\ t[3] = tag) } \cup {<<x, y, tag, ip[1], ip[2], port>>}]
IptagClear(s, x, y, tag) == [s EXCEPT !.iptag = { t \in @ : ~(t[1] = x /\ t[2] = y /\ t[3] = tag) }]

\* an application makes progress by itself: a core that runs something moves to another live state
OwnProgress(s, xyp, state) ==
    [s EXCEPT !.core = { IF <<c[1], c[2], c[3]>> = xyp THEN <<c[1], c[2], c[3], state, c[5]>> ELSE c : c \in @ }]

----------------------------------------------------------------------------
\* the machine's reaction to one logged command
CmdApp(c) == c[5][2] \div 256
CmdOp(c)  == c[5][2] % 256
IsSignal(c) == c[1] = 22 /\ c[5] \in {<<0, 0>>, <<0, 2>>}
IsCount(c)  == c[1] = 22 /\ c[5] = <<0, 1>>
SigOf(c) == c[6][1] % 256
SigApp(c) == c[6][2] % 256
SigMask(c) == c[6][2] \div 256
IsFillEnd(c) == c[1] = 20 /\ c[5][1] \div 256 = 15
\* does this command change the state modelled here at all?
Effective(c) == \/ IsSignal(c) \/ IsFillEnd(c) \/ c[1] = 29
                \/ (c[1] = 28 /\ CmdOp(c) \in {0, 1, 2, 3, 4, 5})
                \/ (c[1] = 26 /\ c[5][1] % 256 \in {1, 3})
Modelled(c) == /\ c[1] = 22 => (IsSignal(c) \/ IsCount(c)) /\ SigMask(c) = 255 /\ c[7] = <<0, 65535>>
               /\ c[1] = 28 => CmdOp(c) \in {0, 1, 3, 5}
               /\ c[1] = 29 => CmdOp(c) = 2

MStep(s, heap, c) ==
    IF c[9] # 128 THEN s                \* a refused command does nothing
    ELSE CASE IsSignal(c) -> Signal(s, SigOf(c), SigApp(c))
      [] c[1] = 28 /\ CmdOp(c) = 0 -> SdramAlloc(s, heap, c[2], c[3], Num(c[6]), Num(c[7]), CmdApp(c))
      [] c[1] = 28 /\ CmdOp(c) = 1 -> IF Num(c[6]) >= SdramBase THEN SdramFree(s, c[2], c[3], Num(c[6]) - SdramBase)
                                       ELSE s
      [] c[1] = 28 /\ CmdOp(c) = 3 -> RtrAlloc(s, c[2], c[3], Num(c[6]), CmdApp(c))
      [] c[1] = 28 /\ CmdOp(c) = 5 -> RtrClear(s, c[2], c[3], CmdApp(c))
      [] c[1] = 29 /\ CmdOp(c) = 2 -> RtrLoad(s, c[2], c[3], CmdApp(c), c[11])
      [] c[1] = 26 /\ c[5][1] % 256 = 1 -> IptagSet(s, c[2], c[3], c[5][2] % 256, c[7], Num(c[6]) % 65536)
      [] c[1] = 26 /\ c[5][1] % 256 = 3 -> IptagClear(s, c[2], c[3], c[5][2] % 256)
      [] IsFillEnd(c) -> Loaded(s, { <<k[1], k[2], k[3]>> : k \in SeqSet(c[11]) }, c[6][1] \div 256,
                                (c[6][1] \div 4) % 2 = 1)
      [] OTHER -> s
\* what the machine must have answered (where the answer carries state)
MReplyOk(s, heap, chips, c) ==
    IF c[9] # 128 THEN TRUE
    ELSE CASE IsCount(c) -> Num(c[10]) = CountIn(s, chips, c[6][1] % 16, SigApp(c))
      [] c[1] = 28 /\ CmdOp(c) = 0 ->
             IF AllocFails(s, heap, c[2], c[3], Num(c[6]), Num(c[7]), CmdApp(c)) THEN c[10] = <<0, 0>>
             ELSE Num(c[10]) = SdramBase + BrkOf(s, c[2], c[3])
      [] c[1] = 28 /\ CmdOp(c) = 3 -> Num(c[10]) = RtrBase(s, c[2], c[3], Num(c[6]))
      [] c[1] = 29 /\ CmdOp(c) = 2 ->       \* count entries go to base + 0 .. base + count - 1
             /\ Len(c[11]) = c[5][1]
             /\ \A i \in 1..Len(c[11]) : c[11][i][1] = Num(c[7]) + i - 1
      [] OTHER -> TRUE

\* the machine's state after a sequence of commands, and whether every answer on the way was the machine's
\* (FoldLeft evaluates step by step; a hand-written recursion re-evaluates its unevaluated arguments at every
\* level and takes time exponential in the number of commands)
Fold(s, heap, cmds, i) == FoldLeft(LAMBDA acc, c : MStep(acc, heap, c), s, cmds)
RepliesOk(s, heap, chips, cmds, i) ==
    FoldLeft(LAMBDA acc, c : [ms |-> MStep(acc.ms, heap, c), ok |-> acc.ok /\ MReplyOk(acc.ms, heap, chips, c)],
             [ms |-> s, ok |-> TRUE], cmds).ok

----------------------------------------------------------------------------
\* WHAT HOLDS OF EVERY REACHABLE MACHINE STATE (checked of the design; re-checked on every state a session visits)
TagUnique(s) == \A a, b \in s.alloc : (a[1] = b[1] /\ a[2] = b[2] /\ a[5] = b[5] /\ a[6] = b[6] /\ a[5] # 0) => a = b
AllocDisjoint(s, heap) ==
    /\ \A a \in s.alloc : a[3] >= 0 /\ a[4] > 0 /\ a[3] + a[4] <= heap
    /\ \A a, b \in s.alloc : (a[1] = b[1] /\ a[2] = b[2] /\ a # b) => (a[3] + a[4] <= b[3] \/ b[3] + b[4] <= a[3])
OnePerCore(s) == \A c, d \in s.core : (c[1] = d[1] /\ c[2] = d[2] /\ c[3] = d[3]) => c = d
OwnOneApp(s) == \A o, q \in s.own : (o[1] = q[1] /\ o[2] = q[2] /\ o[3] = q[3]) => o = q
\* an installed entry sits in a position allocated to its own application (so clearing / stopping the
\* application removes it, and nobody else's allocation is overwritten)
EntWithinOwn(s) == \A e \in s.ent : <<e[1], e[2], e[3], e[4]>> \in s.own
EntOnePerPos(s) == \A e, f \in s.ent : (e[1] = f[1] /\ e[2] = f[2] /\ e[3] = f[3]) => e = f
NoIdleInSet(s) == \A c \in s.core : c[4] # StIdle
MachineInv(s, heap) == /\ TagUnique(s) /\ AllocDisjoint(s, heap) /\ OnePerCore(s) /\ OwnOneApp(s)
                       /\ EntWithinOwn(s) /\ EntOnePerPos(s) /\ NoIdleInSet(s)

\* everything held in the name of application a
Holdings(s, a) == [core  |-> { c \in s.core : c[5] = a },  alloc |-> { b \in s.alloc : b[6] = a },
                   own   |-> { o \in s.own : o[4] = a },   ent   |-> { e \in s.ent : e[4] = a }]
NoHoldings == [core |-> {}, alloc |-> {}, own |-> {}, ent |-> {}]
=============================================================================
