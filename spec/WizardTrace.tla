----------------------------- MODULE WizardTrace -----------------------------
(***************************************************************************)
(* Trace specification for dialogues of rig.wizard's real generators, for  *)
(* runs of its command-line front-end cli_wrapper, and for calls of        *)
(* rig.machine_control.unbooted_ping.listen (beyond the listed properties).*)
(*                                                                         *)
(* Trace: mode "gen" | "cli" | "listen"; wiz - the wizard term; net - the  *)
(* sources of datagrams <<address, port, first time, period>> (ms);        *)
(* pred - for a replayed behaviour of WizardDesign its events, else <<>>.  *)
(* Events:                                                                 *)
(*  <<"yield", kind, text, options, default>>   the wizard yielded a message *)
(*  <<"send", response, shown>>       the front-end's answer reached it    *)
(*  <<"success", data>>  data: <<key, type, integers, string>> by key      *)
(*  <<"failure", message>>                                                 *)
(*  <<"input", prompt, answer, codes, shown>>   cli_wrapper called input() *)
(*      shown: where the question and each option of the message being     *)
(*      asked occur in what was printed since it was yielded (-1: nowhere) *)
(*  <<"return", "none" | "data" | type, data>>  cli_wrapper returned       *)
(*  <<"raise", exception>>  <<"overrun">> (dialogue cut off)  <<"end">>    *)
(*  <<"listen", args, t0, result, elapsed, outcome>>   one call of listen  *)
(***************************************************************************)
EXTENDS Wizard, Json, IOUtils

Traces == JsonDeserialize(IOEnv.TRACE_FILE)
VARIABLES tid, ei, st, verdict
vars == <<tid, ei, st, verdict>>
Tr == Traces[tid]
Ev == Tr.ev[ei]

\* what the wizard's listening finds: the board (at most one) that sends to the boot port
Disc == LET mine == { i \in 1..Len(Tr.net) : Tr.net[i][2] = BootPort }
        IN IF mine = {} THEN <<>> ELSE <<Tr.net[CHOOSE i \in mine : TRUE][1]>>

Cli == Tr.mode = "cli"
\* the data a Success must carry (sorted by key); Wildcard where the documentation leaves the value open
DataMatches(got, data) ==
    LET want == (IF data.dims # <<>> THEN << <<"dimensions", "tuple", data.dims, "">> >> ELSE <<>>)
                \o (IF data.ip # <<>> THEN << <<"ip_address", "str", <<>>, data.ip[1]>> >> ELSE <<>>)
    IN /\ Len(got) = Len(want)
       /\ \A i \in 1..Len(want) :
             IF want[i][3] = Wildcard THEN got[i][1] = want[i][1] /\ got[i][2] = "tuple" /\ Len(got[i][3]) = 2
             ELSE got[i] = want[i]
AllShown(shown, count) == Len(shown) = count /\ \A i \in 1..Len(shown) : shown[i] >= 0

Predicted(e) ==
    \/ Tr.pred = <<>>
    \/ e[1] = "end" /\ ei = Len(Tr.pred) + 1
    \/ /\ ei <= Len(Tr.pred) /\ Tr.pred[ei][1] = e[1]
       /\ e[1] = "yield" => MsgOf(Tr.pred[ei][2]).kind = e[2]
       /\ e[1] = "send" => <<e[2][1], e[2][2], e[2][3]>> = <<Tr.pred[ei][2], Tr.pred[ei][3], Tr.pred[ei][4]>>

ListenChecks(e) ==
    LET wait == IF e[2].timeout = <<>> THEN 6000 ELSE e[2].timeout[1]
        port == IF e[2].port = <<>> THEN BootPort ELSE e[2].port[1]
        sure == Heard(Tr.net, port, e[3], wait, FALSE)          \* arrive before the time-out
        edge == Heard(Tr.net, port, e[3], wait, TRUE)           \* ... or exactly on it (left open)
        FirstOf(S) == { h[2] : h \in { g \in S : \A o \in S : g[1] <= o[1] } }
    IN [ListenReturnsFirstSource |->
            /\ e[6] = "ok"
            /\ IF sure # {} THEN Len(e[4]) = 1 /\ e[4][1] \in FirstOf(sure)
               ELSE IF edge # {} THEN e[4] = <<>> \/ (Len(e[4]) = 1 /\ e[4][1] \in FirstOf(edge))
               ELSE e[4] = <<>>,
        ListenWaitsTheWholeTimeout |-> edge = {} => e[5] >= wait,
        ListenReturnsOnArrival |-> sure # {} => e[5] <= wait]

Checks(e) ==
    LET ds == st.dlg
        ex == Expected(ds)
        msg == MsgOf(ds.pos)
        phase == st.phase
    IN
    CASE e[1] = "raise" -> [NoException |-> FALSE]
      [] e[1] = "overrun" -> [DialogueTerminates |-> FALSE]
      [] phase = "listen" /\ e[1] = "listen" -> ListenChecks(e)
      [] phase = "listen" /\ e[1] = "end" -> [Closed |-> TRUE]
      [] phase = "wizard" /\ e[1] = "yield" ->
            [MessageInTurn |-> ex.act = "yield",
             MessageKind |-> ex.act = "yield" => e[2] = MsgOf(ex.pos).kind,
             MessageOptions |-> ex.act = "yield" =>
                                   /\ Len(e[4]) = MsgOf(ex.pos).nopts /\ e[5] = MsgOf(ex.pos).default
                                   /\ \A i \in 1..Len(e[4]) : e[4][i] # "",
             MessageHasText |-> e[3] # ""]
      [] phase = "wizard" /\ e[1] = "success" ->
            [SuccessOnlyWhenComplete |-> ex.act = "success",
             SuccessData |-> ex.act = "success" => DataMatches(e[2], ds.data)]
      [] phase = "wizard" /\ e[1] = "failure" ->
            [FailureOnlyWhenDue |-> ds.out \in {"failure", "maybe"},
             FailureHasMessage |-> e[2] # ""]
      \* ---- the front-end's turn
      [] phase = "front" /\ e[1] = "send" /\ ~Cli -> [ResponseInDomain |-> InDomain(ds.pos, e[2])]
      [] phase = "front" /\ e[1] = "send" /\ Cli ->
            [CliOneInputPerQuestion |-> msg.kind = "Info",                 \* only an Info is answered without asking
             CliShowsMessage |-> msg.kind = "Info" => AllShown(e[3], 1),
             ResponseInDomain |-> InDomain(ds.pos, e[2])]
      [] phase = "front" /\ e[1] = "input" /\ Cli ->
            [CliNoInputForInfo |-> msg.kind # "Info",
             CliShowsMessage |-> AllShown(e[5], 1 + msg.nopts)]
      [] phase = "answered" /\ e[1] = "send" ->
            LET pick == Choice(st.ans[2], msg.nopts, msg.default)
            IN [ResponseInDomain |-> InDomain(ds.pos, e[2]),
                CliSendsTheAnswer |->
                    CASE msg.kind = "MultipleChoice" -> pick[1] = "open" \/ (pick[1] = "pick" /\ e[2][2] = pick[2])
                      [] msg.kind = "Text" -> e[2][3] = st.ans[1] /\ e[2][4] = st.ans[2]
                      [] OTHER -> TRUE]
      [] phase = "answered" /\ e[1] = "return" ->
            [CliReturnsNoneOnlyForInvalidOption |->
                 msg.kind = "MultipleChoice" /\ Choice(st.ans[2], msg.nopts, msg.default)[1] \in {"invalid", "open"},
             CliReturnsNone |-> e[2] = "none"]
      [] phase = "answered" /\ e[1] = "input" -> [CliOneInputPerQuestion |-> FALSE]
      [] phase = "returning" /\ e[1] = "return" ->
            IF st.fin = "success" THEN [CliReturnsData |-> e[2] = "data" /\ e[3] = st.res]
            ELSE [CliReturnsNoneOnFailure |-> e[2] = "none"]
      [] phase = "closed" /\ e[1] = "end" -> [Closed |-> TRUE]
      [] e[1] = "end" -> [EndsWithOutcome |-> FALSE]
      [] phase = "closed" -> [NothingAfterTheOutcome |-> FALSE]
      [] OTHER -> [Protocol |-> FALSE]

Apply(e) ==
    LET ds == st.dlg IN
    CASE e[1] = "yield" -> [st EXCEPT !.dlg = Yielded(ds), !.phase = "front"]
      [] e[1] \in {"success", "failure"} ->
            [st EXCEPT !.phase = IF Cli THEN "returning" ELSE "closed", !.fin = e[1],
                       !.res = IF e[1] = "success" THEN e[2] ELSE <<>>]
      [] e[1] = "send" -> [st EXCEPT !.dlg = Answer(ds, e[2], Disc), !.phase = "wizard"]
      [] e[1] = "input" -> [st EXCEPT !.phase = "answered", !.ans = <<e[3], e[4]>>]
      [] e[1] = "return" -> [st EXCEPT !.phase = "closed"]
      [] OTHER -> st

Bad == LET ck == Checks(Ev) @@ [MatchesPrediction |-> Predicted(Ev)] IN {c \in DOMAIN ck : ~ck[c]}
TInit == /\ tid \in 1..Len(Traces) /\ ei = 1 /\ verdict = <<>>
         /\ st = [dlg |-> Start(Traces[tid].wiz), phase |-> IF Traces[tid].mode = "listen" THEN "listen" ELSE "wizard",
                  fin |-> "", res |-> <<>>, ans |-> <<>>]
TStep == /\ ei <= Len(Tr.ev) /\ verdict = <<>> /\ tid' = tid
         /\ LET bad == Bad
            IN IF bad = {} THEN ei' = ei + 1 /\ st' = Apply(Ev) /\ verdict' = verdict
               ELSE /\ PrintT("REJECT|" \o ToString(tid) \o "|" \o ToString(ei) \o "|" \o ToString(bad) \o "|"
                              \o ToString(Ev) \o " at " \o ToString(st.dlg.pos) \o " " \o st.phase)
                    /\ verdict' = <<ei, bad>> /\ ei' = ei /\ st' = st
TSpec == TInit /\ [][TStep]_vars
=============================================================================
