--------------------------- MODULE ContextDesign ---------------------------
(***************************************************************************)
(* Design job for C18: the context mechanism as rig codes it -             *)
(*   - a block pushes itself when entered; when left (normally or by an    *)
(*     exception unwinding through it) its registered callbacks run and    *)
(*     only then is it popped, whatever the callbacks did;                 *)
(*   - the arguments in force are the blocks' maps merged oldest to        *)
(*     newest;                                                             *)
(*   - a call collects the defaults of the parameters NOT supplied         *)
(*     positionally (plus the keyword-only ones), overwrites those the     *)
(*     merged context defines, then overwrites / adds the explicit         *)
(*     keywords, and is refused when a value is still `required';          *)
(*   - an application block is a block {app_id: a} whose callback sends    *)
(*     the stop signal with the app_id then in force -                     *)
(* explored for every nesting of depth <= MaxDepth over the parameters of  *)
(* ParamSeq x Values with normal exits and exceptions raised at any depth  *)
(* and caught at any enclosing level, and every call of three method       *)
(* shapes (all required / one default / star-args with keyword-only) with  *)
(* every split of the arguments into positional, keyword and omitted.      *)
(* Checked: the mechanism resolves every argument exactly as Context.tla's *)
(* Resolved / Lacking say (MechanismAgrees), leaving restores what was in  *)
(* force at entry (ExitRestores), an application block stops its own id    *)
(* exactly once and no other block sends anything (StopsOwnApp).  With     *)
(* PopFirst = TRUE (pop, then run the callbacks) StopsOwnApp is refuted:   *)
(* the stop would carry the enclosing application's id.                    *)
(***************************************************************************)
EXTENDS Context

CONSTANTS NParams,      \* 2 or 3: the parameters are the first NParams of <<"app_id", "x", "p">>
          Values, MaxDepth,
          FullInit,     \* TRUE: every map as initial context; FALSE: the empty one and one total one
          PopFirst      \* FALSE: as coded; TRUE: the refuted variant (pop, then run the callbacks)

ParamSeq == SubSeq(<<"app_id", "x", "p">>, 1, NParams)

NP == Len(ParamSeq)
Absent == 0
ASSUME Absent \notin Values
\* every partial map over the parameters, in the encoding of Context.tla
MapOf(f) == SelectSeq([i \in 1..NP |-> <<ParamSeq[i], f[i]>>], LAMBDA pr : pr[2] # Absent)
AllMaps == { MapOf(f) : f \in [1..NP -> Values \cup {Absent}] }

\* three method shapes
MethAllRequired == <<"all_required", ParamSeq, [i \in 1..NP |-> <<"req">>], <<>>, 0>>
MethOneDefault  == <<"one_default", ParamSeq, [i \in 1..NP |-> IF i = 1 THEN <<"int", 255>> ELSE <<"req">>], <<>>, 0>>
MethStarArgs    == <<"star_args", <<>>, <<>>,
                     [i \in 1..NP |-> <<ParamSeq[i], IF i = 1 THEN <<"req">> ELSE <<"int", 9>>>>], 1>>
Methods == {MethAllRequired, MethOneDefault, MethStarArgs}
\* positional arguments a call may supply
PosChoices(meth) == IF meth[5] = 1 THEN {<<>>, << <<"other">> >>}
                    ELSE UNION { [1..n -> { <<"int", v>> : v \in Values }] : n \in 0..NP }
\* keywords: any partial map over the parameters not already supplied positionally
KwChoices(meth, pos) ==
    LET taken == IF meth[5] = 1 THEN {} ELSE { ParamSeq[i] : i \in 1..Len(pos) }
    IN  { [i \in 1..Len(km) |-> <<km[i][1], <<"int", km[i][2]>>>>] :
            km \in { mm \in AllMaps : Names(mm) \cap taken = {} } }

VARIABLES blocks,      \* the stack, bottom (initial context) first
          saved,       \* history: what was in force when each open block was entered
          unwinding,   \* an exception is propagating outwards
          sentlog,     \* app ids of the stop signals sent by the last step
          lastcall     \* the last call and what the mechanism did with it

dvars == <<blocks, saved, unwinding, sentlog, lastcall>>
NoCall == [meth |-> <<>>]

----------------------------------------------------------------------------
\* the mechanism
\* merged context: a function name -> value built oldest to newest
Overlay(f, m) == [k \in DOMAIN f \cup Names(m) |-> IF Has(m, k) THEN Get(m, k) ELSE f[k]]
EmptyFcn == [k \in {} |-> 0]
MechMerged(stack) == LET F[i \in 0..Len(stack)] == IF i = 0 THEN EmptyFcn ELSE Overlay(F[i - 1], stack[i].args)
                      IN  F[Len(stack)]
\* the call is refused, or kwargs is the keyword dictionary handed to the wrapped function
MechCall(meth, pos, kw, stack) ==
    LET skip == IF meth[5] = 1 THEN 0 ELSE Len(pos)
        fillable == { meth[2][i] : i \in (skip + 1)..Len(meth[2]) } \cup { meth[4][i][1] : i \in 1..Len(meth[4]) }
        cx == MechMerged(stack)
        d0 == [k \in fillable |-> DefaultOf(meth, k)]
        d1 == [k \in fillable |-> IF k \in DOMAIN cx THEN <<"int", cx[k]>> ELSE d0[k]]
        d2 == [k \in fillable \cup Names(kw) |-> IF Has(kw, k) THEN Get(kw, k) ELSE d1[k]]
    IN  [refused |-> \E k \in DOMAIN d2 : d2[k][1] = "req", kwargs |-> d2]
\* the value parameter k finally receives
MechBound(meth, pos, kwargs, k) ==
    LET i == PosIndex(meth, k) IN IF i > 0 /\ i <= Len(pos) THEN pos[i] ELSE kwargs[k]

----------------------------------------------------------------------------
InitMaps == IF FullInit THEN AllMaps ELSE {<<>>, MapOf([i \in 1..NP |-> CHOOSE v \in Values : TRUE])}
DInit == /\ blocks \in { << [args |-> m, app |-> <<>>] >> : m \in InitMaps }
         /\ saved = <<>> /\ unwinding = FALSE /\ sentlog = <<>> /\ lastcall = NoCall

Depth == Len(blocks) - 1

Idle == ~unwinding /\ lastcall = NoCall
Enter(m) == /\ Idle /\ Depth < MaxDepth
            /\ blocks' = Push(blocks, m, <<>>)
            /\ saved' = Append(saved, Merged(blocks))
            /\ sentlog' = <<>> /\ lastcall' = NoCall /\ UNCHANGED unwinding

\* application(a): a is itself resolved like any argument; here it is given explicitly or taken from context
EnterApp(a) == /\ Idle /\ Depth < MaxDepth
               /\ blocks' = Push(blocks, << <<"app_id", a>> >>, <<a>>)
               /\ saved' = Append(saved, Merged(blocks))
               /\ sentlog' = <<>> /\ lastcall' = NoCall /\ UNCHANGED unwinding
EnterAppFromContext == /\ InForce(blocks, "app_id") # <<>> /\ EnterApp(InForce(blocks, "app_id")[1])

\* what leaving the innermost block does: callbacks, then pop (or the other way round when PopFirst)
StopSent == LET top == blocks[Len(blocks)]
                seen == IF PopFirst THEN MechMerged(Pop(blocks)) ELSE MechMerged(blocks)
            IN  IF top.app = <<>> THEN <<>>
                ELSE IF "app_id" \in DOMAIN seen THEN << seen["app_id"] >> ELSE << -1 >>    \* -1: the stop call is refused
Leave == /\ Depth > 0
         /\ sentlog' = StopSent
         /\ blocks' = Pop(blocks)
         /\ saved' = SubSeq(saved, 1, Len(saved) - 1)
         /\ lastcall' = NoCall

ExitNormally    == Idle /\ Leave /\ UNCHANGED unwinding
ExitByException == Idle /\ Leave /\ unwinding' = TRUE      \* raised in the body of the innermost block
Propagate       == unwinding /\ Leave /\ UNCHANGED unwinding     \* not caught: unwinds through the next block
Catch           == /\ unwinding /\ unwinding' = FALSE /\ sentlog' = <<>>
                   /\ UNCHANGED <<blocks, saved, lastcall>>

Invoke(meth, pos, kw) ==
    /\ Idle
    /\ lastcall' = [meth |-> meth, pos |-> pos, kw |-> kw, out |-> MechCall(meth, pos, kw, blocks)]
    /\ sentlog' = <<>> /\ UNCHANGED <<blocks, saved, unwinding>>

Return == /\ lastcall # NoCall /\ lastcall' = NoCall /\ sentlog' = <<>> /\ UNCHANGED <<blocks, saved, unwinding>>

DNext == \/ \E m \in AllMaps : Enter(m)
         \/ \E a \in Values : EnterApp(a)
         \/ EnterAppFromContext
         \/ ExitNormally \/ ExitByException \/ Propagate \/ Catch \/ Return
         \/ \E meth \in Methods : \E pos \in PosChoices(meth) : \E kw \in KwChoices(meth, pos) : Invoke(meth, pos, kw)
DSpec == DInit /\ [][DNext]_dvars

----------------------------------------------------------------------------
\* the mechanism's merge is the declarative `value of the innermost block that sets it'
MergedAgrees == LET f == MechMerged(blocks) IN { <<k, f[k]>> : k \in DOMAIN f } = Merged(blocks)
\* the mechanism's call binding is the property's resolution order
MechanismAgrees ==
    lastcall # NoCall =>
        LET meth == lastcall.meth  pos == lastcall.pos  kw == lastcall.kw
            lacking == Lacking(meth, pos, kw, blocks)
        IN  IF lacking # {} THEN lastcall.out.refused
            ELSE /\ ~lastcall.out.refused
                 /\ \A k \in Declared(meth) :
                        MechBound(meth, pos, lastcall.out.kwargs, k) = Resolved(meth, pos, kw, blocks, k)
\* history variable in step with the stack
SavedInStep == Len(saved) = Depth /\ Depth <= MaxDepth
Leaving == Len(blocks') < Len(blocks)
ExitRestores == [][Leaving => Merged(blocks') = saved[Len(saved)]]_dvars
StopsOwnApp  == [][Leaving => sentlog' = blocks[Len(blocks)].app]_dvars
\* only leaving an application block ever sends anything by itself
QuietOtherwise == [][~Leaving => sentlog' = <<>>]_dvars
=============================================================================
