----------------------------- MODULE StructFile -----------------------------
(***************************************************************************)
(* SARK / SC&MP struct files (rig.machine_control.struct_file) - beyond    *)
(* the listed properties, hosted by C20: booting packs the "sv" struct of  *)
(* such a file into the boot image.                                        *)
(*                                                                         *)
(* Written from the module's docstrings and from the format itself as the  *)
(* bundled rig/boot/sark.struct shows it:                                  *)
(*                                                                         *)
(*     # comment to the end of the line; blank lines mean nothing          *)
(*     name = sv             a struct begins                               *)
(*     size = 256            its size in bytes                             *)
(*     base = 0xf5007f00     its address                                   *)
(*     cpu_clk   v  0x24  %d    200     a field: name, Perl pack letter,   *)
(*     status_map[20] C 0x80 %02x 0     offset, printf format, default;    *)
(*     app_name[16]  A16 0x48 %s  0     [n] makes it an array of n         *)
(*                                                                         *)
(* Numbers are decimal or 0x... hexadecimal.  Perl's pack letters: A a     *)
(* string of bytes (A16: sixteen of them), c / C a signed / unsigned byte, *)
(* v / V an unsigned 16 / 32 bit little-endian word; Python's struct       *)
(* letters for the same: s, b, B, H, I.                                    *)
(*                                                                         *)
(* Characters are byte codes (0..255), texts sequences of them.  A number  *)
(* is 8 little-endian bytes, two's complement (TLC's integers end at       *)
(* 2^31); names are opaque values that are only ever compared.             *)
(*                                                                         *)
(* Verdict of a text: "ok" (it has the meaning Meaning(text).structs),     *)
(* "bad" (no reader may accept it) or "odd" (the format as documented says *)
(* neither: nothing is demanded).                                          *)
(***************************************************************************)
EXTENDS Integers, Sequences, FiniteSets, SequencesExt, TLC

(***************************************************************************)
(* Characters and numbers                                                  *)
(***************************************************************************)
Blank(c)    == c \in {32, 9, 13, 11, 12}
Digit(c)    == c \in 48..57
HexLetter(c) == c \in 65..70 \/ c \in 97..102
HexDigit(c) == Digit(c) \/ HexLetter(c)
WordChar(c) == Digit(c) \/ c \in 65..90 \/ c \in 97..122 \/ c = 95
KwName == <<110, 97, 109, 101>>
KwSize == <<115, 105, 122, 101>>
KwBase == <<98, 97, 115, 101>>
Equals == <<61>>

Zero8 == <<0, 0, 0, 0, 0, 0, 0, 0>>
\* b * m + d on 8 little-endian bytes (modulo 2^64)
MulAdd(b, m, d) ==
    FoldLeft(LAMBDA acc, x : LET t == x * m + acc.carry
                             IN [out |-> Append(acc.out, t % 256), carry |-> t \div 256],
             [out |-> <<>>, carry |-> d], b).out
Negate(b) == MulAdd([i \in 1..8 |-> 255 - b[i]], 1, 1)
HexVal(c) == IF Digit(c) THEN c - 48 ELSE IF c >= 97 THEN c - 87 ELSE c - 55
DigitsVal(ds, base) == FoldLeft(LAMBDA acc, c : MulAdd(acc, base, HexVal(c)), Zero8, ds)
\* the 8 bytes of an integer of TLC's own (|v| < 2^31)
Bytes8(v) == <<v % 256, (v \div 256) % 256, (v \div 65536) % 256, (v \div 16777216) % 256>>
             \o (IF v < 0 THEN <<255, 255, 255, 255>> ELSE <<0, 0, 0, 0>>)
\* a number as an integer of TLC's, -1 when it is negative or too large
Small(b) == IF b[5] = 0 /\ b[6] = 0 /\ b[7] = 0 /\ b[8] = 0 /\ b[4] < 128
            THEN b[1] + 256 * b[2] + 65536 * b[3] + 16777216 * b[4] ELSE -1

IsHexForm(tok) == Len(tok) >= 3 /\ tok[1] = 48 /\ tok[2] \in {120, 88} /\ \A i \in 3..Len(tok) : HexDigit(tok[i])
IsDecForm(tok) == Len(tok) >= 1 /\ \A i \in 1..Len(tok) : Digit(tok[i])
IsNegForm(tok) == Len(tok) >= 2 /\ tok[1] = 45 /\ \A i \in 2..Len(tok) : Digit(tok[i])
\* "ok": a number of the format; "bad": certainly not a number; "odd": neither is documented
NumClass(tok, signed) ==
    IF (IsHexForm(tok) /\ Len(tok) <= 18) \/ (IsDecForm(tok) /\ Len(tok) <= 18)
       \/ (signed /\ IsNegForm(tok) /\ Len(tok) <= 10) THEN "ok"
    ELSE IF \/ \E i \in 1..Len(tok) : ~(HexDigit(tok[i]) \/ tok[i] \in {120, 88, 95, 43, 45})
            \/ tok \in {<<48, 120>>, <<48, 88>>}
            \/ /\ \A i \in 1..Len(tok) : tok[i] \notin {120, 88}
               /\ \E i \in 1..Len(tok) : HexLetter(tok[i])
         THEN "bad"
    ELSE "odd"
NumVal(tok) == IF IsHexForm(tok) THEN DigitsVal(SubSeq(tok, 3, Len(tok)), 16)
               ELSE IF tok[1] = 45 THEN Negate(DigitsVal(Tail(tok), 10))
               ELSE DigitsVal(tok, 10)

(***************************************************************************)
(* Lines and tokens                                                        *)
(***************************************************************************)
Pieces(t, cuts) ==      \* t cut at the (sorted) positions cuts, the positions themselves dropped
    LET n == Len(cuts)
    IN [k \in 1..(n + 1) |-> SubSeq(t, IF k = 1 THEN 1 ELSE cuts[k - 1] + 1, IF k = n + 1 THEN Len(t) ELSE cuts[k] - 1)]
LinesOf(t) == Pieces(t, SetToSortSeq({i \in 1..Len(t) : t[i] = 10}, LAMBDA a, b : a < b))
\* a carriage return only ever directly before a line feed (anything else: "odd")
PlainLineEnds(t) == \A i \in 1..Len(t) : t[i] = 13 => (i < Len(t) /\ t[i + 1] = 10)
Uncommented(line) == LET h == SelectInSeq(line, LAMBDA c : c = 35)
                     IN IF h = 0 THEN line ELSE SubSeq(line, 1, h - 1)
TokensOf(line) ==
    LET starts == SetToSortSeq({i \in 1..Len(line) : ~Blank(line[i]) /\ (i = 1 \/ Blank(line[i - 1]))},
                               LAMBDA a, b : a < b)
        ends   == SetToSortSeq({i \in 1..Len(line) : ~Blank(line[i]) /\ (i = Len(line) \/ Blank(line[i + 1]))},
                               LAMBDA a, b : a < b)
    IN [k \in 1..Len(starts) |-> SubSeq(line, starts[k], ends[k])]

(***************************************************************************)
(* Pack letters.  A format is <<count, Python's letter>>.                  *)
(***************************************************************************)
PerlToPython(c) == CASE c = 65 -> 115 [] c = 99 -> 98 [] c = 67 -> 66 [] c = 118 -> 72 [] c = 86 -> 73
PackClass(tok) ==
    IF tok[1] \notin {65, 99, 67, 118, 86} THEN "bad"
    ELSE IF Len(tok) = 1 THEN "ok"
    ELSE IF tok[1] = 65 /\ IsDecForm(Tail(tok)) /\ Len(tok) <= 5 /\ Small(DigitsVal(Tail(tok), 10)) >= 1 THEN "ok"
    ELSE "odd"
PackFormat(tok) == <<IF Len(tok) = 1 THEN 1 ELSE Small(DigitsVal(Tail(tok), 10)), PerlToPython(tok[1])>>
\* a Python struct format of one item, e.g. "B" or "16s", read back as a format; <<-1, -1>> if it is none
PyFormat(chars) ==
    IF Len(chars) = 0 \/ Len(chars) > 6 \/ ~(\A i \in 1..(Len(chars) - 1) : Digit(chars[i])) THEN <<-1, -1>>
    ELSE <<IF Len(chars) = 1 THEN 1 ELSE Small(DigitsVal(Front(chars), 10)), chars[Len(chars)]>>
LetterWidth(l) == CASE l = 98 -> 1 [] l = 66 -> 1 [] l = 72 -> 2 [] l = 73 -> 4 [] OTHER -> 0   \* 0: not a number

(***************************************************************************)
(* One line.  A field line means <<name, format, offset, printf, default,  *)
(* elements>>.                                                             *)
(***************************************************************************)
FieldNameClass(tok) ==
    LET lb == SelectInSeq(tok, LAMBDA c : c = 91)
    IN IF lb = 0 /\ SelectInSeq(tok, LAMBDA c : c = 93) = 0 THEN "ok"
       ELSE IF /\ lb > 1 /\ tok[Len(tok)] = 93 /\ Len(tok) - lb >= 2 /\ Len(tok) - lb <= 7
               /\ \A i \in 1..(lb - 1) : WordChar(tok[i])
               /\ \A i \in (lb + 1)..(Len(tok) - 1) : Digit(tok[i]) THEN "ok"
       ELSE "odd"
FieldName(tok) == LET lb == SelectInSeq(tok, LAMBDA c : c = 91) IN IF lb = 0 THEN tok ELSE SubSeq(tok, 1, lb - 1)
FieldElements(tok) == LET lb == SelectInSeq(tok, LAMBDA c : c = 91)
                      IN IF lb = 0 THEN Bytes8(1) ELSE DigitsVal(SubSeq(tok, lb + 1, Len(tok) - 1), 10)
Worst(classes) == IF "bad" \in classes THEN "bad" ELSE IF "odd" \in classes THEN "odd" ELSE "ok"

LineMeaning(toks) ==
    CASE Len(toks) = 0 -> [kind |-> "blank", class |-> "ok"]
      [] Len(toks) = 3 ->
            IF toks[1] \notin {KwName, KwSize, KwBase} THEN [kind |-> "header", class |-> "bad"]
            ELSE IF toks[2] # Equals THEN [kind |-> "header", class |-> "odd"]
            ELSE IF toks[1] = KwName THEN [kind |-> "name", class |-> "ok", name |-> toks[3]]
            ELSE LET c == NumClass(toks[3], FALSE)
                 IN [kind |-> IF toks[1] = KwSize THEN "size" ELSE "base", class |-> c,
                     val |-> IF c = "ok" THEN NumVal(toks[3]) ELSE Zero8]
      [] Len(toks) = 5 ->
            LET c == Worst({FieldNameClass(toks[1]), PackClass(toks[2]), NumClass(toks[3], FALSE),
                            NumClass(toks[5], TRUE)})
            IN [kind |-> "field", class |-> c,
                field |-> IF c = "ok" THEN <<FieldName(toks[1]), PackFormat(toks[2]), NumVal(toks[3]), toks[4],
                                             NumVal(toks[5]), FieldElements(toks[1])>>
                          ELSE <<>>]
      [] OTHER -> [kind |-> "garbage", class |-> "bad"]

(***************************************************************************)
(* The whole text.  structs: sequence of [name, size, base, fields], size  *)
(* and base <<>> while not given.                                          *)
(***************************************************************************)
Meaning(text) ==
    LET ls == LinesOf(text)
        ms == [k \in 1..Len(ls) |-> LineMeaning(TokensOf(Uncommented(ls[k])))]
        classes == {ms[k].class : k \in 1..Len(ms)}
        Complete(s) == s.size # <<>> /\ s.base # <<>>
        step(acc, m) ==
            LET n == Len(acc.structs)
            IN CASE m.kind = "blank" -> acc
                 [] m.kind = "name" ->
                      [structs |-> Append(acc.structs, [name |-> m.name, size |-> <<>>, base |-> <<>>, fields |-> <<>>]),
                       bad |-> acc.bad \/ (n > 0 /\ ~Complete(acc.structs[n])),
                       odd |-> acc.odd \/ \E j \in 1..n : acc.structs[j].name = m.name]
                 [] n = 0 -> [acc EXCEPT !.bad = TRUE]              \* anything else before the first struct begins
                 [] m.kind = "size" -> [acc EXCEPT !.structs[n].size = m.val, !.odd = @ \/ acc.structs[n].size # <<>>]
                 [] m.kind = "base" -> [acc EXCEPT !.structs[n].base = m.val, !.odd = @ \/ acc.structs[n].base # <<>>]
                 [] m.kind = "field" -> [acc EXCEPT !.structs[n].fields = Append(@, m.field)]
        whole == FoldLeft(step, [structs |-> <<>>, bad |-> FALSE, odd |-> FALSE], ms)
        n == Len(whole.structs)
    IN IF "bad" \in classes THEN [verdict |-> "bad", structs |-> <<>>]
       ELSE IF "odd" \in classes \/ ~PlainLineEnds(text) THEN [verdict |-> "odd", structs |-> <<>>]
       ELSE IF whole.bad \/ (n > 0 /\ ~Complete(whole.structs[n])) THEN [verdict |-> "bad", structs |-> <<>>]
       ELSE IF whole.odd \/ n = 0 THEN [verdict |-> "odd", structs |-> <<>>]
       ELSE [verdict |-> "ok", structs |-> whole.structs]

(***************************************************************************)
(* What a reader returned, as a sequence of <<name, size, base, fields>>   *)
(* with fields <<name, Python format (characters), offset, printf,         *)
(* default, elements>>.  The mapping is by name, so of several lines with  *)
(* one name one survives (which one is not documented).                    *)
(***************************************************************************)
SameField(line, g) == /\ Len(g) = 6 /\ g[1] = line[1] /\ PyFormat(g[2]) = line[2] /\ g[3] = line[3]
                      /\ g[4] = line[4] /\ g[5] = line[5] /\ g[6] = line[6]
FieldsAgree(lines, gf) ==
    /\ \A i \in 1..Len(gf) : \E k \in 1..Len(lines) : SameField(lines[k], gf[i])
    /\ \A k \in 1..Len(lines) : \E i \in 1..Len(gf) : gf[i][1] = lines[k][1]
    /\ Cardinality({gf[i][1] : i \in 1..Len(gf)}) = Len(gf)
ReadAgrees(structs, got) ==
    /\ Len(got) = Len(structs)
    /\ \A j \in 1..Len(structs) : \E i \in 1..Len(got) :
          /\ Len(got[i]) = 4 /\ got[i][1] = structs[j].name /\ got[i][2] = structs[j].size
          /\ got[i][3] = structs[j].base /\ FieldsAgree(structs[j].fields, got[i][4])

(***************************************************************************)
(* Packing (this generalises PackedByte of Boot.tla, whose tables hold     *)
(* defaults below 2^31 and options of four bytes; StructFileDesign checks  *)
(* that the two agree on Boot.tla's table).  fields: sequence of           *)
(* <<name, format (characters), offset, printf, default, elements>>.       *)
(* The packed struct is `size` bytes: each field's default little-endian   *)
(* at its offset, everything else zero.  Of an array the first element     *)
(* holds the default; whether the others repeat it or stay zero is not     *)
(* documented (rep).  Nothing is said about strings with a numeric         *)
(* default, values that do not fit their field, fields that overlap or     *)
(* stick out of the struct: PackSpecified.                                 *)
(***************************************************************************)
FWidth(f) == LetterWidth(PyFormat(f[2])[2])
FExtent(f) == IF Small(f[6]) < 0 \/ Small(f[6]) > 65536 THEN -1 ELSE FWidth(f) * Small(f[6])
FFits(f) == LET w == FWidth(f)  l == PyFormat(f[2])[2]  v == f[5]
            IN IF l = 98 THEN \/ v[1] < 128 /\ \A i \in 2..8 : v[i] = 0
                              \/ v[1] >= 128 /\ \A i \in 2..8 : v[i] = 255
               ELSE \A i \in (w + 1)..8 : v[i] = 0
PackSpecified(size, fields) ==
    /\ Small(size) >= 0 /\ Small(size) <= 65536
    /\ \A i \in 1..Len(fields) :
          LET f == fields[i]
          IN /\ PyFormat(f[2])[1] = 1 /\ FWidth(f) > 0 /\ FFits(f) /\ Small(f[6]) >= 1
             /\ Small(f[3]) >= 0 /\ FExtent(f) >= 0 /\ Small(f[3]) + FExtent(f) <= Small(size)
    /\ \A i, j \in 1..Len(fields) :
          i < j => \/ Small(fields[i][3]) + FExtent(fields[i]) <= Small(fields[j][3])
                   \/ Small(fields[j][3]) + FExtent(fields[j]) <= Small(fields[i][3])
Covering(fields, p) == {i \in 1..Len(fields) : Small(fields[i][3]) <= p /\ p < Small(fields[i][3]) + FExtent(fields[i])}
ExpectedByte(fields, p, rep) ==
    LET c == Covering(fields, p)
    IN IF c = {} THEN 0
       ELSE LET f == fields[CHOOSE i \in c : TRUE]
                d == p - Small(f[3])
            IN IF d < FWidth(f) \/ rep THEN f[5][(d % FWidth(f)) + 1] ELSE 0
Packed(size, fields, rep) == [q \in 1..Small(size) |-> ExpectedByte(fields, q - 1, rep)]
PackAgrees(size, fields, bytes) ==
    /\ Len(bytes) = Small(size)
    /\ \E rep \in BOOLEAN : \A p \in 0..(Small(size) - 1) : bytes[p + 1] = ExpectedByte(fields, p, rep)
\* positions at which no packing of these fields may differ from the packing of those
Extent(fields, names) == UNION { Small(fields[i][3])..(Small(fields[i][3]) + FExtent(fields[i]) - 1) :
                                 i \in {i \in 1..Len(fields) : fields[i][1] \in names} }

(***************************************************************************)
(* update_default_values(name = value, ...): the named fields get the new  *)
(* default, every other component and every other field stays; a name the  *)
(* struct does not have is a KeyError (how many of the other names of the  *)
(* same call were applied before it is not documented).                    *)
(* kwargs: sequence of <<name, value>>.                                    *)
(***************************************************************************)
Names(fields) == {fields[i][1] : i \in 1..Len(fields)}
AllKnown(fields, kwargs) == \A k \in 1..Len(kwargs) : kwargs[k][1] \in Names(fields)
Given(kwargs, name) == {kwargs[k][2] : k \in {k \in 1..Len(kwargs) : kwargs[k][1] = name}}
Updated(fields, kwargs) ==
    [i \in 1..Len(fields) |-> LET g == Given(kwargs, fields[i][1])
                              IN IF g = {} THEN fields[i] ELSE [fields[i] EXCEPT ![5] = CHOOSE v \in g : TRUE]]
\* after a refused call: nothing but defaults of named fields may have moved, and only to the value given
PartlyUpdated(fields, kwargs, after) ==
    /\ Len(after) = Len(fields)
    /\ \A i \in 1..Len(fields) :
          \/ after[i] = fields[i]
          \/ \E v \in Given(kwargs, fields[i][1]) : after[i] = [fields[i] EXCEPT ![5] = v]
=============================================================================
