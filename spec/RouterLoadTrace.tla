--------------------------- MODULE RouterLoadTrace ---------------------------
(***************************************************************************)
(* Trace specification for C10.                                            *)
(*                                                                         *)
(* (i) One trace = one call of routing_tree_to_tables:                     *)
(*   <<"tables", trees, keys, <<"ok", tables>> | <<"raise", class>>>>      *)
(*   trees, keys, tables as described in RouterLoad.tla.                   *)
(*                                                                         *)
(* (ii) One trace = one session of the real MachineController against the  *)
(* simulated machine.  Setup: chips = sequence of <<x, y, contents>>, the  *)
(* router contents of every chip of the session before the first call      *)
(* (contents = sequence of <<index, keylo, keyhi, masklo, maskhi, routelo, *)
(* routehi, app>> for the entries in use).  Events, in the order of the    *)
(* simulator's command log:                                                *)
(*   <<"load", app, want, api>>   a call of load_routing_table_entries /   *)
(*        load_routing_tables begins; want = seq of <<x, y, entries>>,     *)
(*        entries = seq of <<keylo, keyhi, masklo, maskhi, routes>>        *)
(*   <<"alloc", x, y, count, app, base>>     alloc_rtr command and reply   *)
(*   <<"write", x, y, off, bytes>>   write command; off is relative to the *)
(*        chip's sdram_sys staging buffer                                  *)
(*   <<"rtrload", x, y, count, app, bufoff, base, contents>>  router load  *)
(*        command (buffer address relative to sdram_sys) and the router    *)
(*        contents the simulator holds after executing it                  *)
(*   <<"ret", outcome, chips>>   the call returned ("ok") or raised (class *)
(*        name); chips = contents of every chip named in the call          *)
(*   <<"get", x, y>>, <<"copy", x, y, off, bytes>> (a read inside the      *)
(*        router copy, off relative to it), <<"got", outcome, total,       *)
(*        items>>       get_routing_table_entries                          *)
(*   <<"clear", x, y, app>>, <<"free", x, y, app, contents>>,              *)
(*        <<"cleared", outcome>>     clear_routing_table_entries           *)
(*   <<"other", command number>>   any other state-changing command        *)
(*   <<"end", chips>>   final contents of every chip of the session        *)
(* State st: for every chip the index of the event that last recorded its  *)
(* router contents (0 = the setup), the same at the start of the call in   *)
(* flight, and the progress of that call.                                  *)
(***************************************************************************)
EXTENDS RouterLoad, Json, IOUtils

Traces == JsonDeserialize(IOEnv.TRACE_FILE)
VARIABLES tid, ei, st, verdict
vars == <<tid, ei, st, verdict>>
Tr == Traces[tid]
Ev == Tr.ev[ei]

ChipsOf(lst) == { <<lst[ii][1], lst[ii][2]>> : ii \in 1..Len(lst) }
\* third component of the element of lst for chip ch (lst: seq of <<x, y, something>>)
Third(lst, ch) == lst[CHOOSE ii \in 1..Len(lst) : <<lst[ii][1], lst[ii][2]>> = ch][3]
ListedOnce(lst) == Cardinality(ChipsOf(lst)) = Len(lst)

Idle == [mode |-> "idle", app |-> 0, want |-> <<>>, done |-> {}, cur |-> <<>>, base |-> 0, mem |-> <<>>,
         cmd |-> FALSE, failed |-> FALSE]
Init0(trace) == [rtr |-> [ch \in ChipsOf(trace.chips) |-> 0], pre |-> <<>>, call |-> Idle]
\* the router contents of chip ch as recorded by event number ptr (states stay small: they hold ptr only)
RtrAt(ch, ptr) == SeqSet(IF ptr = 0 THEN Third(Tr.chips, ch)
                         ELSE LET ev == Tr.ev[ptr] IN
                              CASE ev[1] = "rtrload" -> ev[8]
                                [] ev[1] = "free"    -> ev[5]
                                [] ev[1] = "ret"     -> Third(ev[3], ch))
Now(ch) == RtrAt(ch, st.rtr[ch])
Pre(ch) == RtrAt(ch, st.pre[ch])

Given(ch) == IF ch \in ChipsOf(st.call.want) THEN Third(st.call.want, ch) ELSE <<>>
BaseOf(ch) == (CHOOSE dd \in st.call.done : <<dd[1], dd[2]>> = ch)[3]
DoneChips == { <<dd[1], dd[2]>> : dd \in st.call.done }
\* what a chip's router must hold when the call in flight ends
Expected(ch) == IF ch \in DoneChips THEN AfterLoad(Pre(ch), BaseOf(ch), st.call.app, Given(ch)) ELSE Pre(ch)

Checks(e) ==
  CASE e[1] = "tables" ->
        LET trees == e[2]  keys == e[3]  kind == e[4][1]
            multi == MultiSource(trees, keys)
        IN [NoOtherError         |-> kind = "ok" \/ (kind = "raise" /\ e[4][2] = "MultisourceRouteError"),
            MultisourcePrecisely |-> (kind = "raise" /\ e[4][2] = "MultisourceRouteError") <=> multi,
            TablesExact          |-> (kind = "ok" /\ ~multi) => TablesExact(e[4][2], TablesOf(trees, keys)),
            OneEntryPerKeyMask   |-> kind = "ok" => OneEntryPerKeyMask(e[4][2])]
    [] e[1] = "load" ->
        [NoCallInFlight |-> st.call.mode = "idle",
         KnownChips     |-> ChipsOf(e[3]) \subseteq DOMAIN st.rtr /\ ListedOnce(e[3])]
    [] e[1] = "alloc" ->
        LET ch == <<e[2], e[3]>> IN
        [AllocInCall   |-> /\ st.call.mode = "load" /\ ~st.call.failed /\ st.call.cur = <<>>
                           /\ ch \in ChipsOf(st.call.want) /\ ch \notin DoneChips,
         AllocMatches  |-> e[4] = Len(Given(ch)) /\ e[5] = st.call.app,
         EnvAllocSound |-> ch \in DOMAIN st.rtr => AllocSound(Now(ch), e[4], e[6])]
    [] e[1] = "write" ->
        [StagingOnAllocatedChip |-> /\ st.call.mode = "load" /\ st.call.cur = <<e[2], e[3]>>
                                    /\ ~st.call.failed /\ ~st.call.cmd,
         StagingWithinBuffer    |-> e[4] >= 0 /\ e[4] + Len(e[5]) <= 65536]
    [] e[1] = "rtrload" ->
        LET ch == <<e[2], e[3]>>  count == e[4]  app == e[5]  bufoff == e[6]  base == e[7]
            given == Given(ch)
        IN [LoadCommandMatches   |-> /\ st.call.mode = "load" /\ st.call.cur = ch /\ ~st.call.failed /\ ~st.call.cmd
                                     /\ count = Len(given) /\ app = st.call.app /\ base = st.call.base
                                     /\ bufoff >= 0,
            StagingRecordsExact  |-> bufoff >= 0 => StagingRecordsExact(st.call.mem, bufoff, given),
            RouteWordIsSumOfBits |-> bufoff >= 0 => RouteWordIsSumOfBits(st.call.mem, bufoff, given),
            EnvInstallMatchesStaging |->
                (bufoff >= 0 /\ ch \in DOMAIN st.rtr) =>
                    SeqSet(e[8]) = MachineInstall(Now(ch), st.call.mem, count, app, bufoff, base)]
    [] e[1] = "ret" ->
        LET outcome == e[2]  after == e[3] IN
        [CallInFlight  |-> st.call.mode = "load",
         NoOtherError  |-> outcome \in {"ok", "SpiNNakerRouterError"},
         AllocFailureRaisesAndInstallsNothing |->
             st.call.failed => /\ outcome = "SpiNNakerRouterError"
                               /\ st.call.cur \in ChipsOf(after)
                               /\ SeqSet(Third(after, st.call.cur)) = Pre(st.call.cur),
         \* "raises the router error ... when the block cannot be allocated": the machine said so, or the table is
         \* longer than any router (1024 entries) so that no machine could - asking first is not required
         RouterErrorOnlyOnAllocFailure |-> outcome = "SpiNNakerRouterError" =>
                                               \/ st.call.failed
                                               \/ \E ii \in 1..Len(st.call.want) : Len(st.call.want[ii][3]) > 1024,
         InstalledExactlyGiven |->
             st.call.mode = "load" =>
               /\ ChipsOf(after) = ChipsOf(st.call.want) /\ ListedOnce(after)
               /\ outcome = "ok" => (DoneChips = ChipsOf(st.call.want) /\ st.call.cur = <<>>)
               /\ \A ch \in ChipsOf(after) : ch \in DOMAIN st.pre => SeqSet(Third(after, ch)) = Expected(ch)]
    [] e[1] = "get" ->
        [NoCallInFlight |-> st.call.mode = "idle", KnownChips |-> <<e[2], e[3]>> \in DOMAIN st.rtr]
    [] e[1] = "copy" ->
        [ReadInGet |-> st.call.mode = "get",
         EnvCopyMatchesRouter |-> <<e[2], e[3]>> \in DOMAIN st.rtr
                                  /\ CopyMatchesRouter(Now(<<e[2], e[3]>>), e[4], e[5])]
    [] e[1] = "got" ->
        [CallInFlight |-> st.call.mode = "get",
         NoOtherError |-> e[2] = "ok",
         ReadBackSame |-> (e[2] = "ok" /\ st.call.mode = "get") => ReadBackSame(Now(st.call.cur), e[3], e[4])]
    [] e[1] = "clear" ->
        [NoCallInFlight |-> st.call.mode = "idle", KnownChips |-> <<e[2], e[3]>> \in DOMAIN st.rtr]
    [] e[1] = "free" ->
        LET ch == <<e[2], e[3]>> IN
        [ClearCommandMatches |-> st.call.mode = "clear" /\ ch = st.call.cur /\ e[4] = st.call.app /\ ~st.call.cmd,
         EnvFreeRemovesApp   |-> ch \in DOMAIN st.rtr => SeqSet(e[5]) = AfterFree(Now(ch), e[4])]
    [] e[1] = "cleared" ->
        [CallInFlight |-> st.call.mode = "clear",
         NoOtherError |-> e[2] = "ok",
         ClearedByCommand |-> st.call.cmd]
    [] e[1] = "other" -> [NoOtherCommand |-> FALSE]
    [] e[1] = "end" ->
        [NoCallInFlight |-> st.call.mode = "idle",
         FinalContents  |-> /\ ChipsOf(e[2]) = DOMAIN st.rtr
                            /\ \A ch \in ChipsOf(e[2]) : ch \in DOMAIN st.rtr => SeqSet(Third(e[2], ch)) = Now(ch)]
    [] OTHER -> [UnknownEvent |-> FALSE]

SetRtr(ch) == [st.rtr EXCEPT ![ch] = ei]
Apply(e) ==
  CASE e[1] = "load" ->
        [st EXCEPT !.pre = st.rtr, !.call = [Idle EXCEPT !.mode = "load", !.app = e[2], !.want = e[3]]]
    [] e[1] = "alloc" ->
        [st EXCEPT !.call.cur = <<e[2], e[3]>>, !.call.base = e[6], !.call.failed = (e[6] = 0),
                   !.call.mem = <<>>, !.call.cmd = FALSE]
    [] e[1] = "write" -> [st EXCEPT !.call.mem = Overlay(st.call.mem, e[4], e[5])]
    [] e[1] = "rtrload" ->
        [st EXCEPT !.rtr = SetRtr(<<e[2], e[3]>>),
                   !.call.done = st.call.done \cup {<<e[2], e[3], e[7]>>},
                   !.call.cur = <<>>, !.call.mem = <<>>]
    [] e[1] = "ret" ->
        [st EXCEPT !.rtr = [ch \in DOMAIN st.rtr |-> IF ch \in ChipsOf(e[3]) THEN ei
                                                     ELSE st.rtr[ch]],
                   !.pre = <<>>, !.call = Idle]
    [] e[1] = "get" -> [st EXCEPT !.call = [Idle EXCEPT !.mode = "get", !.cur = <<e[2], e[3]>>]]
    [] e[1] = "got" -> [st EXCEPT !.call = Idle]
    [] e[1] = "clear" -> [st EXCEPT !.call = [Idle EXCEPT !.mode = "clear", !.cur = <<e[2], e[3]>>, !.app = e[4]]]
    [] e[1] = "free" -> [st EXCEPT !.rtr = SetRtr(<<e[2], e[3]>>), !.call.cmd = TRUE]
    [] e[1] = "cleared" -> [st EXCEPT !.call = Idle]
    [] OTHER -> st

Bad == LET ch == Checks(Ev) IN {c \in DOMAIN ch : ~ch[c]}
TInit == tid \in 1..Len(Traces) /\ ei = 1 /\ st = Init0(Traces[tid]) /\ verdict = <<>>
TStep == /\ ei <= Len(Tr.ev) /\ verdict = <<>> /\ tid' = tid
         /\ IF Bad = {} THEN ei' = ei + 1 /\ st' = Apply(Ev) /\ verdict' = verdict
            ELSE /\ PrintT("REJECT|" \o ToString(tid) \o "|" \o ToString(ei) \o "|" \o ToString(Bad))
                 /\ verdict' = <<ei, Bad>> /\ ei' = ei /\ st' = st
TSpec == TInit /\ [][TStep]_vars
=============================================================================
