--------------------------- MODULE BitFieldDesign ---------------------------
(***************************************************************************)
(* Design job for C08: field layout as a state machine.                    *)
(*                                                                         *)
(*   AddField   define a field in any valid scope (root, a=v, a=v & b=w);  *)
(*              a name clash or a definitely bad explicit position is      *)
(*              refused (the rules of BitField.tla)                        *)
(*   SetValue   a larger value is given to an automatic-length field       *)
(*   AssignAny  the permissive post-condition: ANY layout that gives each  *)
(*              field its width, honours explicit positions, stays inside  *)
(*              the bit field and keeps co-enabled fields disjoint; fails  *)
(*              only when there is none                                    *)
(*   StartFirstFit / PlaceFixed / PlaceFloat / Finish                      *)
(*              the algorithm: explicitly positioned fields first, then    *)
(*              automatic ones leaf-first, each at the lowest free         *)
(*              position among the fields that can be present with it.     *)
(*              The order is left open wherever the outcome could depend   *)
(*              on definition order, so every order is explored.           *)
(*                                                                         *)
(* TopTried = TRUE  : the scan tries every position 0..BLen-n (intended).  *)
(* TopTried = FALSE : the scan stops one short (0..BLen-n-1), which is how *)
(*                    rig codes it; the job run with this constant is      *)
(*                    EXPECTED to violate SuccessFirstFit.                 *)
(***************************************************************************)
EXTENDS BitField

CONSTANTS BLen,        \* length of the bit field
          MaxFields,
          MaxDepth,    \* most values in a field's condition
          Vals,        \* values used to open scopes
          Lens,        \* explicit lengths offered (0 = automatic)
          Starts,      \* explicit positions offered (automatic is always offered)
          MaxNeed,     \* widest value given to an automatic-length field
          WithAny,     \* explore the permissive post-condition too (every valid layout is a successor)
          TopTried

IdSeq == <<"a", "b", "c", "d", "e">>

VARIABLES fields,      \* sequence of field records, in definition order
          place,       \* set of layout entries made so far
          phase,       \* "define", "placing", "done", "failed"
          how          \* "none", "any", "firstfit"
vars == <<fields, place, phase, how>>

FS == SeqSet(fields)
UsedIds == { fields[i].id : i \in 1..Len(fields) }
\* names are introduced in a fixed order (a, then b, ...): renaming symmetry only
IdChoices == UsedIds \cup (IF Cardinality(UsedIds) < Len(IdSeq) THEN {IdSeq[Cardinality(UsedIds) + 1]} ELSE {})
AllPairs == { <<IdSeq[i], v>> : i \in 1..Len(IdSeq), v \in Vals }
\* a bit field derived by giving values: every named field exists under the other values
ValidScope(V) == /\ Consistent(V) /\ Cardinality(V) <= MaxDepth
                 /\ \A p \in V : \E f \in FS : f.id = p[1] /\ f.cond \subseteq (V \ {p})
ScopeChoices == { V \in SUBSET { p \in AllPairs : p[1] \in UsedIds } : ValidScope(V) }

DInit == fields = <<>> /\ place = {} /\ phase = "define" /\ how = "none"

AddField(V, id, fl, fs) ==
    /\ phase = "define" /\ Len(fields) < MaxFields
    /\ ~\E f \in FS : f.id = id /\ Compatible(f.cond, V)                       \* name clash: refused
    /\ LET new == [id |-> id, cond |-> V, flen |-> fl, fstart |-> fs, tags |-> {}, need |-> 1]
       IN  /\ ~DefinitelyBad(new, FS, {}, BLen)                                  \* bad explicit: refused
           /\ fields' = Append(fields, new)
    /\ UNCHANGED <<place, phase, how>>

SetValue(i, w) ==
    /\ phase = "define" /\ fields[i].flen = 0 /\ w > fields[i].need
    /\ fields' = [fields EXCEPT ![i].need = w]
    /\ UNCHANGED <<place, phase, how>>

Entry(f, loc) == [id |-> f.id, cond |-> f.cond, loc |-> loc, len |-> Width(f)]
Placed(f) == \E x \in place : SameField(x, f)

\* ---- the permissive post-condition
PosChoices(f) == { b \in 0..(BLen - 1) : (f.fstart >= 0 => b = f.fstart) /\ b + Width(f) <= BLen }
ValidLayouts ==
    LET n == Len(fields)
        G == { g \in [1..n -> 0..(BLen - 1)] : \A i \in 1..n : g[i] \in PosChoices(fields[i]) }
    IN  { lay \in { { Entry(fields[i], g[i]) : i \in 1..n } : g \in G } : LayoutDisjoint(lay, BLen) }
AssignAny ==
    /\ WithAny /\ phase = "define" /\ how' = "any" /\ UNCHANGED fields
    /\ IF ValidLayouts = {} THEN phase' = "failed" /\ place' = place
       ELSE phase' = "done" /\ place' \in ValidLayouts

\* ---- the algorithm
Occupied(V) == UNION { Bits(x.loc, x.len) : x \in { x \in place : Compatible(x.cond, V) } }
\* node P lies on the path from the root to node Q of the field tree
TreeAbove(P, Q) == /\ P # Q /\ P \subseteq Q
                   /\ \A p \in Q \ P : \E f \in FS : f.id = p[1] /\ f.cond \subseteq Q /\ P \subseteq f.cond
StartFirstFit ==
    /\ phase = "define" /\ phase' = "placing" /\ how' = "firstfit" /\ UNCHANGED fields
    \* fields defined with both position and length are in place from the outset
    /\ place' = { Entry(f, f.fstart) : f \in { f \in FS : f.flen > 0 /\ f.fstart >= 0 } }
PlaceFixed(f) ==
    /\ phase = "placing" /\ f.fstart >= 0 /\ ~Placed(f) /\ UNCHANGED <<fields, how>>
    /\ IF Bits(f.fstart, Width(f)) \cap Occupied(f.cond) # {} \/ f.fstart + Width(f) > BLen
       THEN phase' = "failed" /\ place' = place
       ELSE phase' = phase /\ place' = place \cup {Entry(f, f.fstart)}
PlaceFloat(f) ==
    /\ phase = "placing" /\ f.fstart < 0 /\ ~Placed(f) /\ UNCHANGED <<fields, how>>
    /\ \A g \in FS : g.fstart >= 0 => Placed(g)                                 \* fixed positions first
    /\ \A g \in FS : (g.fstart < 0 /\ TreeAbove(f.cond, g.cond)) => Placed(g)   \* leaf first
    /\ LET n == Width(f)
           top == IF TopTried THEN BLen - n ELSE BLen - n - 1
           free == { b \in 0..top : Bits(b, n) \cap Occupied(f.cond) = {} }
       IN  IF free = {} THEN phase' = "failed" /\ place' = place
           ELSE phase' = phase /\ place' = place \cup {Entry(f, MinOf(free))}
Finish ==
    /\ phase = "placing" /\ \A f \in FS : Placed(f)
    /\ phase' = "done" /\ UNCHANGED <<fields, place, how>>

AddAny == \E V \in ScopeChoices : \E id \in IdChoices : \E fl \in Lens : \E fs \in Starts \cup {-1} : AddField(V, id, fl, fs)
SetAny == \E i \in 1..Len(fields) : \E w \in 2..MaxNeed : SetValue(i, w)
PlaceFixedAny == \E f \in FS : PlaceFixed(f)
PlaceFloatAny == \E f \in FS : PlaceFloat(f)
DNext == AddAny \/ SetAny \/ AssignAny \/ StartFirstFit \/ PlaceFixedAny \/ PlaceFloatAny \/ Finish
DSpec == DInit /\ [][DNext]_vars

\* ---------------------------------------------------------------- what TLC checks
FieldOfEntry(x) == CHOOSE f \in FS : SameField(x, f)
\* NoOverlap, also of every partial layout the algorithm passes through
NoOverlap == LayoutDisjoint(place, BLen)
\* WideEnough, and explicit lengths/positions are honoured
WideEnough == \A x \in place : LET f == FieldOfEntry(x)
                               IN  /\ f.need <= x.len
                                   /\ (f.flen > 0 => x.len = f.flen) /\ (f.fstart >= 0 => x.loc = f.fstart)
\* the algorithm's result satisfies the post-condition: it is one of the layouts AssignAny may choose
Refines == (phase = "done" /\ how = "firstfit") => place \in ValidLayouts
AllPlacedWhenDone == phase = "done" => \A f \in FS : Placed(f)
\* the success guarantee is satisfiable: the post-condition fails only with an explicit position or
\* when co-enabled widths exceed the length
SuccessAny == (phase = "failed" /\ how = "any") => (~NoExplicitStart(FS) \/ ~Fits(FS, BLen))
\* ... and the first-fit algorithm delivers it on tree-shaped hierarchies
SuccessFirstFit == (phase = "failed" /\ how = "firstfit")
                      => (~NoExplicitStart(FS) \/ ~Fits(FS, BLen) \/ ~TreeShaped(FS))
\* at this scope even with independent scopes crossing (needs five fields to break, see c08.py)
SuccessFirstFitCross == (phase = "failed" /\ how = "firstfit") => (~NoExplicitStart(FS) \/ ~Fits(FS, BLen))
\* every value that is accepted fits: a field never needs more than its explicit length
ValuesFit == \A f \in FS : f.flen > 0 => f.need <= f.flen
=============================================================================
