------------------------------ MODULE FileView ------------------------------
(***************************************************************************)
(* File-like views of a block of memory (C13).  Pure operators only.       *)
(*                                                                         *)
(* The machine memory of one chip is a sequence of bytes "mem"; address a  *)
(* (counted from the start of the recorded window) is mem[a + 1].  A view  *)
(* is a record [lo, hi, pos, closed]: it covers the addresses lo .. hi-1   *)
(* (lo <= hi), pos is its position relative to lo.  All views cut from one *)
(* allocation share that allocation's "freed" flag.                        *)
(*                                                                         *)
(* What "behaves like a fixed-length file" means here.  The file of a view *)
(* is the byte sequence mem[lo+1 .. hi]; its length VLen never changes.    *)
(*   - seek(off, whence) moves to  off / pos + off / VLen + off  (whence   *)
(*     0 / 1 / 2, as for any Python or POSIX file).  As for POSIX files a   *)
(*     target beyond the end is legal; a target before the start may be    *)
(*     refused (then the position is unchanged).  If it is accepted the    *)
(*     position is that negative number and, there being no such place in  *)
(*     the file, a later read or write there transfers nothing (or fails). *)
(*   - read(n) transfers k = min(n, bytes left before the end) bytes       *)
(*     (all the bytes left if n is negative or omitted), write(data)       *)
(*     transfers k = min(Len(data), bytes left) bytes; "bytes left" is     *)
(*     max(0, VLen - pos) and 0 at a negative position.  The length is     *)
(*     fixed, so a write begun at or beyond the end transfers nothing.     *)
(*     The position advances by the number of bytes transferred.  A        *)
(*     transfer cut short by the end of the view (0 <= pos and fewer bytes *)
(*     left than asked for) carries a truncation warning, and at a         *)
(*     position inside 0..VLen a truncation warning means just that.       *)
(*   - v[a:b] is a new view of the addresses Python's sequence slicing     *)
(*     names in a sequence of length VLen: indices clipped into 0..VLen,   *)
(*     negative ones counted from the end, a reversed pair is empty.       *)
(* For positions outside 0..VLen nothing more is demanded than the         *)
(* property states: no access outside the view, and position bookkeeping   *)
(* consistent with the bytes transferred.                                  *)
(***************************************************************************)
EXTENDS Integers, Sequences, FiniteSets, TLC

Min(a, b) == IF a < b THEN a ELSE b
Max(a, b) == IF a > b THEN a ELSE b

VLen(vw) == vw.hi - vw.lo
NewView(start, end) == [lo |-> start, hi |-> Max(start, end), pos |-> 0, closed |-> FALSE]

\* ------------------------------------------------------------------ seek
SeekTarget(vw, off, whence) ==
    CASE whence = 0 -> off
      [] whence = 1 -> vw.pos + off
      [] whence = 2 -> VLen(vw) + off

\* ------------------------------------------------------------------ transfers
Avail(vw) == IF vw.pos < 0 THEN 0 ELSE Max(0, VLen(vw) - vw.pos)
\* n < 0 stands for "all the rest" (the default of read)
ReadCount(vw, n) == IF n < 0 THEN Avail(vw) ELSE Min(n, Avail(vw))
ReadTruncated(vw, n) == vw.pos >= 0 /\ n >= 0 /\ n > Avail(vw)
WriteCount(vw, m) == Min(m, Avail(vw))
WriteTruncated(vw, m) == vw.pos >= 0 /\ m > Avail(vw)

\* ------------------------------------------------------------------ slicing
\* a slice bound is <<>> (absent) or <<i>>
ClipIndex(i, n) == IF i < 0 THEN Max(0, n + i) ELSE Min(i, n)
SliceStart(vw, a) == IF a = <<>> THEN 0 ELSE ClipIndex(a[1], VLen(vw))
SliceStop(vw, b) == IF b = <<>> THEN VLen(vw) ELSE ClipIndex(b[1], VLen(vw))
\* the addresses <<lo, hi>> named by vw[a:b]
SliceRange(vw, a, b) == LET s == SliceStart(vw, a)
                            t == Max(s, SliceStop(vw, b))
                        IN <<vw.lo + s, vw.lo + t>>

\* ------------------------------------------------------------------ memory
InWindow(mem, a) == 0 <= a /\ a < Len(mem)
\* the k bytes at addresses a .. a+k-1 (all of them inside the window)
FileBytes(mem, a, k) == [i \in 1..k |-> mem[a + i]]
\* mem with data stored at addresses a .. a+Len(data)-1 (parts outside the window are lost)
Poke(mem, a, data) == [i \in 1..Len(mem) |-> IF a < i /\ i <= a + Len(data) THEN data[i - a] ELSE mem[i]]

\* ------------------------------------------------------------------ controller accesses
\* an access is <<kind, address, length, data, x, y>>, kind "r" (data = what came back),
\* "w" (data = what was stored) or "f" (the allocation at that address is released)
IsTransfer(ac) == ac[1] \in {"r", "w"}
AccessInside(ac, lo, hi) == ac[3] <= 0 \/ (lo <= ac[2] /\ ac[2] + ac[3] <= hi)
AllInside(accs, lo, hi) == \A i \in 1..Len(accs) : IsTransfer(accs[i]) => AccessInside(accs[i], lo, hi)
\* memory after the first i accesses
MemAfterTable(mem, accs) ==
    LET F[i \in 0..Len(accs)] ==
          IF i = 0 THEN mem
          ELSE IF accs[i][1] = "w" THEN Poke(F[i - 1], accs[i][2], accs[i][4]) ELSE F[i - 1]
    IN F
MemAfter(mem, accs) == MemAfterTable(mem, accs)[Len(accs)]
\* every read access returned what the memory held at that moment (addresses outside the
\* recorded window are not judged)
ReadsAgree(mem, accs) ==
    LET F == MemAfterTable(mem, accs) IN
    \A i \in 1..Len(accs) : accs[i][1] = "r" =>
        /\ Len(accs[i][4]) = Max(0, accs[i][3])
        /\ \A j \in 1..Len(accs[i][4]) :
              InWindow(mem, accs[i][2] + j - 1) => accs[i][4][j] = F[i - 1][accs[i][2] + j]
=============================================================================
