------------------------------ MODULE BitField ------------------------------
(***************************************************************************)
(* Hierarchical bit fields (C08): what the property permits, written from  *)
(* the property statement and the documentation of rig.bitfield, not from  *)
(* the way rig lays fields out.                                            *)
(*                                                                         *)
(* Representation (32-bit quantities never travel as TLC integers):        *)
(*   a value, key or mask is the SET of its one-bit positions (bit 0 is    *)
(*   the least significant bit);                                           *)
(*   a scope / enabling condition is a set of <<name, value>> pairs (the   *)
(*   value in whatever canonical form the caller uses: equality only);     *)
(*   a field is a record                                                   *)
(*     [id, cond, flen, fstart, tags, need]                                *)
(*   id     name, unique among the fields that can be present together     *)
(*   cond   the values that must be set for the field to exist: the        *)
(*          values held by the bit field through which it was defined      *)
(*   flen   explicit length, 0 = automatic                                 *)
(*   fstart explicit position of the least significant bit, -1 = automatic *)
(*   tags   the tags given when it was defined                             *)
(*   need   bits needed by the largest value ever given to it (>= 1);      *)
(*   a layout entry is a record [id, cond, loc, len].                      *)
(***************************************************************************)
EXTENDS Integers, Sequences, FiniteSets, TLC

SeqSet(q) == { q[i] : i \in 1..Len(q) }
MaxOf(S) == CHOOSE m \in S : \A n \in S : n <= m
MinOf(S) == CHOOSE m \in S : \A n \in S : m <= n
MaxI(a, b) == IF a >= b THEN a ELSE b
RECURSIVE SumSet(_, _)      \* sum of fn[x] over x in S
SumSet(fn, S) == IF S = {} THEN 0 ELSE LET x == CHOOSE x \in S : TRUE IN fn[x] + SumSet(fn, S \ {x})

\* ---------------------------------------------------------------- bits
Bits(loc, len) == loc..(loc + len - 1)
BitsFor(v) == IF v = {} THEN 1 ELSE MaxOf(v) + 1          \* width of the value whose one-bits are v
InRange(loc, len, L) == len >= 1 /\ loc >= 0 /\ loc + len <= L
Disjoint(l1, n1, l2, n2) == l1 + n1 <= l2 \/ l2 + n2 <= l1
\* the value found in key at <<loc, len>> is val
ReadBackOK(key, loc, len, val) == { b - loc : b \in { b \in key : loc <= b /\ b < loc + len } } = val
\* some key matches both key/mask pairs: they agree wherever both masks look
KeysMatch(k1, m1, k2, m2) == \A b \in m1 \cap m2 : (b \in k1) <=> (b \in k2)

\* ---------------------------------------------------------------- scopes
Consistent(V) == \A p, q \in V : p[1] = q[1] => p[2] = q[2]
Compatible(c, d) == Consistent(c \cup d)        \* both conditions can hold at the same time
Names(V) == { p[1] : p \in V }
ValOf(V, name) == (CHOOSE p \in V : p[1] = name)[2]
EnabledIn(F, V) == { f \in F : f.cond \subseteq V }
Resolve(F, V, name) == { f \in EnabledIn(F, V) : f.id = name }
SameField(x, y) == x.id = y.id /\ x.cond = y.cond
\* g exists only for a particular value of f
DependsOn(g, f) == f.id \in Names(g.cond) /\ f.cond \subseteq g.cond
\* a tag given to a field is also carried by every field it depends on
TagsOf(F, f) == f.tags \cup UNION { g.tags : g \in { g \in F : DependsOn(g, f) } }

\* ---------------------------------------------------------------- widths
Width(f) == IF f.flen > 0 THEN f.flen ELSE f.need     \* bits the field must get
MinLen(f) == IF f.flen > 0 THEN f.flen ELSE 1         \* bits it occupies whatever values come
\* every set of values under which some fields exist together: unions of compatible conditions
Scopes(F) == { UNION S : S \in { S \in SUBSET { f.cond : f \in F } : Consistent(UNION S) } }
Load(F, V) == SumSet([f \in F |-> Width(f)], EnabledIn(F, V))
MaxLoad(F) == MaxOf({ Load(F, V) : V \in Scopes(F) })
Fits(F, L) == MaxLoad(F) <= L
NoExplicitStart(F) == \A f \in F : f.fstart < 0
\* The hierarchy is a tree: conditions that can hold together are nested, and the fields a field depends on
\* form a chain (each depends on the previous one).  Otherwise independent scopes cross - a field under a=0
\* and a field under b=1, or a field under a=1 & b=1 where a and b do not depend on one another - and packing
\* contiguous fields is a harder problem.
NestedOnly(F) == \A f, g \in F : Compatible(f.cond, g.cond) => (f.cond \subseteq g.cond \/ g.cond \subseteq f.cond)
ChainDeps(F) == \A g \in F : \A f1, f2 \in { f \in F : DependsOn(g, f) } :
                    f1 = f2 \/ DependsOn(f1, f2) \/ DependsOn(f2, f1)
TreeShaped(F) == NestedOnly(F) /\ ChainDeps(F)

\* ---------------------------------------------------------------- explicit definitions
\* bits a field is already known to occupy: its laid-out range, else its explicit start with the
\* least length it can have
KnownRange(f, LAY) ==
    LET e == { x \in LAY : SameField(x, f) }
    IN  IF e # {} THEN LET x == CHOOSE x \in e : TRUE IN Bits(x.loc, x.len)
        ELSE IF f.fstart >= 0 THEN Bits(f.fstart, MinLen(f)) ELSE {}
\* the definition overflows the bit field or overlaps a field that can be present at the same time,
\* whatever values are given later
DefinitelyBad(new, F, LAY, L) ==
    /\ new.fstart >= 0
    /\ LET r == Bits(new.fstart, MinLen(new))
       IN  \/ ~(r \subseteq 0..(L - 1))
           \/ \E g \in F : Compatible(g.cond, new.cond) /\ KnownRange(g, LAY) \cap r # {}

\* ---------------------------------------------------------------- layouts
\* LAY: set of layout entries
LayoutDisjoint(LAY, L) ==
    \A x \in LAY : /\ InRange(x.loc, x.len, L)
                   /\ \A y \in LAY : (~SameField(x, y) /\ Compatible(x.cond, y.cond))
                                        => Disjoint(x.loc, x.len, y.loc, y.len)
=============================================================================
