---------------------------- MODULE PacketsTrace ----------------------------
(***************************************************************************)
(* Trace specification for C15.  Events (f = packet record, b = bytes):    *)
(*   <<"new", g, f>>            a packet constructed from the arguments g  *)
(*                              has the fields f (g holds the parameters   *)
(*                              the caller gave; f every field)            *)
(*   <<"raised", what, exc>>    a call in the property's domain raised     *)
(*   <<"sdp_enc", f, b>>        SDPPacket(f).bytestring = b                *)
(*   <<"sdp_dec", b, f>>        SDPPacket.from_bytestring(b) has fields f  *)
(*   <<"scp_enc", f, b>>        SCPPacket(f).bytestring = b                *)
(*   <<"scp_dec", b, n, f>>     SCPPacket.from_bytestring(b, n_args=n) = f *)
(* f.args is <<a1, a2, a3>> with <<>> for None and 4 little-endian bytes   *)
(* otherwise.                                                              *)
(***************************************************************************)
EXTENDS Packets, Json, IOUtils

Traces == JsonDeserialize(IOEnv.TRACE_FILE)
VARIABLES tid, ei, verdict
vars == <<tid, ei, verdict>>
Tr == Traces[tid]
Ev == Tr.ev[ei]

SdpFields == {"reply", "tag", "dport", "dcpu", "sport", "scpu", "dx", "dy", "sx", "sy", "data"}
ScpFields == SdpFields \cup {"cmd", "seq", "args"}
\* field-by-field comparison so that a rejection names the field
SameOn(F, a, b) == { f \in F : a[f] # b[f] } = {}

Checks(e) ==
  CASE e[1] = "new" -> [HoldsWhatWasGiven |-> \A fld \in DOMAIN e[2] : e[3][fld] = e[2][fld]]
    [] e[1] = "sdp_enc" -> [WireLayout |-> e[3] = EncodeSDP(e[2])]
    [] e[1] = "scp_enc" -> [WireLayout |-> e[3] = EncodeSCP(e[2])]
    [] e[1] = "sdp_dec" -> [DecodeFields |-> SameOn(SdpFields, e[3], DecodeSDP(e[2]))]
    [] e[1] = "scp_dec" ->
         LET d == DecodeSCP(e[2], e[3]) IN
         [DecodeFields  |-> SameOn(SdpFields \ {"data"}, e[4], d) /\ e[4].cmd = d.cmd /\ e[4].seq = d.seq,
          DecodeArgs    |-> e[4].args = d.args,
          DecodePayload |-> e[4].data = d.data]
    [] e[1] = "raised" -> [CompletesWithoutError |-> FALSE]
    [] OTHER -> [UnknownEvent |-> FALSE]

Bad == {c \in DOMAIN Checks(Ev) : ~Checks(Ev)[c]}
TInit == tid \in 1..Len(Traces) /\ ei = 1 /\ verdict = <<>>
TStep == /\ ei <= Len(Tr.ev) /\ verdict = <<>> /\ tid' = tid
         /\ IF Bad = {} THEN ei' = ei + 1 /\ verdict' = verdict
            ELSE /\ PrintT("REJECT|" \o ToString(tid) \o "|" \o ToString(ei) \o "|" \o ToString(Bad))
                 /\ verdict' = <<ei, Bad>> /\ ei' = ei
TSpec == TInit /\ [][TStep]_vars
=============================================================================
