--------------------------- MODULE AllocateDesign ---------------------------
(***************************************************************************)
(* Design job for C05: the greedy scan as rig codes it - a bump pointer    *)
(* aligned upwards; on overlap with reservations jump to the stop of the   *)
(* LAST overlapping reservation in list order and retry - explored for     *)
(* every layout of reservations (any order, overlapping or adjacent),      *)
(* every request sequence and alignment at small constants.                *)
(* Each loop iteration is one action so that TLC also checks termination   *)
(* (the proposal's start strictly increases) and the completeness claim.   *)
(***************************************************************************)
EXTENDS Allocate

CONSTANTS Cap, MaxRes, MaxReq, MaxSize, Aligns

Ranges == { r \in (0..Cap) \X (0..Cap) : r[1] < r[2] }
SeqsUpTo(S, n) == UNION { [1..k -> S] : k \in 0..n }

VARIABLES res,      \* sequence of reserved ranges (list order matters to the algorithm)
          reqs,     \* sequence of request sizes
          al,       \* alignment
          ptr, idx, given, phase, laststart

vars == <<res, reqs, al, ptr, idx, given, phase, laststart>>

DInit == /\ res \in SeqsUpTo(Ranges, MaxRes)
         /\ reqs \in SeqsUpTo(0..MaxSize, MaxReq)
         /\ al \in Aligns
         /\ ptr = 0 /\ idx = 1 /\ given = <<>> /\ phase = "scan" /\ laststart = -1

Proposal == LET s == AlignUp(ptr, al) IN <<s, s + reqs[idx]>>
Overlapping == { i \in 1..Len(res) : Overlap(Proposal, res[i]) }
MaxOfSet(S) == CHOOSE m \in S : \A n \in S : n <= m

\* one iteration of the while loop
Fail == /\ phase = "scan" /\ idx <= Len(reqs) /\ Proposal[2] > Cap
        /\ phase' = "failed" /\ UNCHANGED <<res, reqs, al, ptr, idx, given, laststart>>
Skip == /\ phase = "scan" /\ idx <= Len(reqs) /\ Proposal[2] <= Cap /\ Overlapping # {}
        /\ ptr' = res[MaxOfSet(Overlapping)][2]          \* the last overlapping one in list order wins
        /\ laststart' = Proposal[1]
        /\ UNCHANGED <<res, reqs, al, idx, given, phase>>
Grant == /\ phase = "scan" /\ idx <= Len(reqs) /\ Proposal[2] <= Cap /\ Overlapping = {}
         /\ given' = Append(given, Proposal) /\ ptr' = Proposal[2] /\ idx' = idx + 1
         /\ laststart' = -1
         /\ UNCHANGED <<res, reqs, al, phase>>
Done == /\ phase = "scan" /\ idx > Len(reqs) /\ phase' = "done"
        /\ UNCHANGED <<res, reqs, al, ptr, idx, given, laststart>>
DNext == Fail \/ Skip \/ Grant \/ Done
DSpec == DInit /\ [][DNext]_vars /\ WF_vars(DNext)

ResSet == { res[i] : i \in 1..Len(res) }
Sound == \A i \in 1..Len(given) :
            /\ RLen(given[i]) = reqs[i] /\ Within(given[i], Cap) /\ AlignedTo(given[i], al)
            /\ \A r \in ResSet : ~Overlap(given[i], r)
            /\ \A j \in 1..Len(given) : i # j => ~Overlap(given[i], given[j])
\* the start of successive proposals for one request strictly increases: the loop terminates
Progress == [][Skip => AlignUp(ptr', al) > AlignUp(ptr, al)]_vars
Terminates == <>(phase \in {"done", "failed"})
\* completeness: no alignment, reservations only at the ends, total demand fits => success
SumSeq(q) == LET F[i \in 0..Len(q)] == IF i = 0 THEN 0 ELSE F[i-1] + q[i] IN F[Len(q)]
Complete == (phase = "failed" /\ al = 1 /\ OnlyAtEnds(ResSet, Cap))
              => SumSeq(reqs) > FreeUnits(ResSet, Cap)
\* and in general a failure is never spurious when everything would fit after the last reservation
=============================================================================
