--------------------------- MODULE AllocateDesign ---------------------------
(***************************************************************************)
(* Design job for C05: the greedy scan as rig codes it - a bump pointer    *)
(* aligned upwards; on overlap with reservations jump to the stop of the   *)
(* LAST overlapping reservation in list order and retry - explored for     *)
(* every layout of reservations (any order, overlapping or adjacent),      *)
(* every request sequence and alignment at small constants.                *)
(* Each loop iteration is one action so that TLC also checks termination   *)
(* (the proposal's start strictly increases) and the completeness claim.   *)
(***************************************************************************)
EXTENDS AllocateScan

CONSTANTS MaxRes, MaxReq, MaxSize, Aligns

Ranges == { r \in (0..Cap) \X (0..Cap) : r[1] < r[2] }
SeqsUpTo(S, n) == UNION { [1..k -> S] : k \in 0..n }

DInit == /\ res \in SeqsUpTo(Ranges, MaxRes)
         /\ reqs \in SeqsUpTo(0..MaxSize, MaxReq)
         /\ al \in Aligns
         /\ ptr = 0 /\ idx = 1 /\ given = <<>> /\ phase = "scan" /\ laststart = -1

DSpec == DInit /\ [][DNext]_vars /\ WF_vars(DNext)

\* the start of successive proposals for one request strictly increases: the loop terminates
Progress == [][Skip => AlignUp(ptr', al) > AlignUp(ptr, al)]_vars
Terminates == <>(phase \in {"done", "failed"})
\* completeness: no alignment, reservations only at the ends, total demand fits => success
SumSeq(q) == LET F[i \in 0..Len(q)] == IF i = 0 THEN 0 ELSE F[i-1] + q[i] IN F[Len(q)]
Complete == (phase = "failed" /\ al = 1 /\ OnlyAtEnds(ResSet, Cap))
              => SumSeq(reqs) > FreeUnits(ResSet, Cap)
\* and in general a failure is never spurious when everything would fit after the last reservation
=============================================================================
