------------------------------ MODULE Placement ------------------------------
(***************************************************************************)
(* What a placement must satisfy (C02).  A problem p is a record           *)
(*   chips : sequence of <<x, y, caps>>   working chips; caps = sequence   *)
(*           of the chip's quantity of each resource (resources are        *)
(*           numbered 1..R)                                                *)
(*   vres  : sequence (one per vertex) of demand vectors                   *)
(*   loc   : sequence of <<vertex, x, y>>          location constraints    *)
(*   same  : sequence of sequences of vertices     same-chip constraints   *)
(*   gres  : sequence of <<resource, amount>>      reserved on every chip  *)
(*   lres  : sequence of <<x, y, resource, amount>> reserved on one chip   *)
(* A placement pl is a sequence (one per vertex) of <<x, y>>, or <<>> for  *)
(* a vertex the placer left out.                                           *)
(***************************************************************************)
EXTENDS Integers, Sequences, FiniteSets, TLC

SeqSet(q) == { q[i] : i \in 1..Len(q) }
SumOver(S, F(_)) == LET G[T \in SUBSET S] == IF T = {} THEN 0
                                             ELSE LET x == CHOOSE x \in T : TRUE IN F(x) + G[T \ {x}]
                    IN G[S]
\* sum of f(i) for i in 1..n without building subsets (n may be hundreds)
\* by halving: recursion depth log n
SumTo(n, F(_)) == LET RECURSIVE SR(_, _)
                      SR(lo, hi) == IF lo > hi THEN 0 ELSE IF lo = hi THEN F(lo)
                                    ELSE LET mid == (lo + hi) \div 2 IN SR(lo, mid) + SR(mid + 1, hi)
                  IN SR(1, n)

NRes(p) == IF Len(p.chips) = 0 THEN 0 ELSE Len(p.chips[1][3])
ChipOf(c) == <<c[1], c[2]>>
ChipSet(p) == { ChipOf(p.chips[i]) : i \in 1..Len(p.chips) }
Reserved(p, xy, r) ==
    SumTo(Len(p.gres), LAMBDA i : IF p.gres[i][1] = r THEN p.gres[i][2] ELSE 0)
  + SumTo(Len(p.lres), LAMBDA i : IF <<p.lres[i][1], p.lres[i][2]>> = xy /\ p.lres[i][3] = r
                                  THEN p.lres[i][4] ELSE 0)
\* what is left of resource r on chip number i after reservations
FreeCap(p, i, r) == p.chips[i][3][r] - Reserved(p, ChipOf(p.chips[i]), r)
Demand(p, v, r) == IF r <= Len(p.vres[v]) THEN p.vres[v][r] ELSE 0
Used(p, pl, xy, r) == SumTo(Len(pl), LAMBDA v : IF pl[v] = xy THEN Demand(p, v, r) ELSE 0)

EveryVertexOnAWorkingChip(p, pl) ==
    Len(pl) = Len(p.vres) /\ \A v \in 1..Len(pl) : pl[v] # <<>> /\ pl[v] \in ChipSet(p)
WithinResources(p, pl) ==
    \A i \in 1..Len(p.chips) : \A r \in 1..NRes(p) : Used(p, pl, ChipOf(p.chips[i]), r) <= FreeCap(p, i, r)
LocationsHonoured(p, pl) == \A k \in 1..Len(p.loc) : pl[p.loc[k][1]] = <<p.loc[k][2], p.loc[k][3]>>
SameChipHonoured(p, pl) == \A k \in 1..Len(p.same) : \A a, b \in SeqSet(p.same[k]) : pl[a] = pl[b]
Feasible(p, pl) == EveryVertexOnAWorkingChip(p, pl) /\ WithinResources(p, pl)
                   /\ LocationsHonoured(p, pl) /\ SameChipHonoured(p, pl)

(***************************************************************************)
(* The success guarantee: every vertex needs at most one unit of a single  *)
(* resource, no same-chip groups, located vertices fit on their chips and  *)
(* the total free capacity suffices.                                       *)
(***************************************************************************)
UsedResources(p) == { r \in 1..NRes(p) : \E v \in 1..Len(p.vres) : Demand(p, v, r) > 0 }
Located(p) == { p.loc[k][1] : k \in 1..Len(p.loc) }
LocOf(p, v) == LET k == CHOOSE k \in 1..Len(p.loc) : p.loc[k][1] = v IN <<p.loc[k][2], p.loc[k][3]>>
Easy(p) ==
    /\ Cardinality(UsedResources(p)) <= 1
    /\ \A v \in 1..Len(p.vres) : \A r \in 1..Len(p.vres[v]) : p.vres[v][r] \in {0, 1}
    /\ \A k \in 1..Len(p.same) : Cardinality(SeqSet(p.same[k])) <= 1
    \* constraints are consistent: one location per vertex, on a working chip; reservations fit
    /\ \A j, k \in 1..Len(p.loc) : p.loc[j][1] = p.loc[k][1] => p.loc[j] = p.loc[k]
    /\ \A k \in 1..Len(p.loc) : <<p.loc[k][2], p.loc[k][3]>> \in ChipSet(p)
    /\ \A i \in 1..Len(p.chips) : \A r \in 1..NRes(p) : FreeCap(p, i, r) >= 0
    /\ \A r \in UsedResources(p) :
          \* located vertices fit where they are put ...
          /\ \A i \in 1..Len(p.chips) :
                Cardinality({ v \in Located(p) : LocOf(p, v) = ChipOf(p.chips[i]) /\ Demand(p, v, r) = 1 })
                  <= FreeCap(p, i, r)
          \* ... and everything fits somewhere
          /\ SumTo(Len(p.vres), LAMBDA v : Demand(p, v, r)) <= SumTo(Len(p.chips), LAMBDA i : FreeCap(p, i, r))
=============================================================================
