--------------------------- MODULE LifecycleTrace ---------------------------
(***************************************************************************)
(* Trace specification for the application life cycle (beyond the listed   *)
(* properties; hosted by the C09 check).  One trace = one life cycle run   *)
(* through the REAL MachineController against the simulated machine: the   *)
(* machine (with dead chips and links and a FOREIGN application already    *)
(* holding cores, SDRAM blocks with contents, router positions and         *)
(* entries, an IP tag) is probed, the probe's report goes through          *)
(* place_and_route_wrapper, and inside `with mc.application(app):` the     *)
(* vertices' memory is allocated, the tables and the application loaded,   *)
(* the cores started, released from their barrier and awaited, their       *)
(* results read back; then the block is left - normally or by an exception *)
(* raised inside it at any point.                                          *)
(*                                                                         *)
(* It extends the session and glue trace modules: setup chips, heap and    *)
(* the "api" / "env" / "vsdram" events are theirs and all their clauses    *)
(* stay live (Simulator* validate the environment, *Command(s) pin what    *)
(* rig sent, *Outcome / *IsMachines / *Effect what it returned).  Further  *)
(* setup: app, foreign, init (the machine as the life cycle finds it),     *)
(* links <<x, y, working links>>, fmem <<x, y, off, bytes>> (contents of   *)
(* the foreign blocks).  Further events:                                   *)
(*  <<"probe", outcome, cmds, post>>   get_system_info; outcome = <<"ok",  *)
(*       chips>>, a chip = <<x, y, cores, core states, links, free SDRAM,  *)
(*       free SRAM, free router entries>>                                  *)
(*  <<"par", problem, outcome>>   place_and_route_wrapper on the probe;    *)
(*       problem.verts <<vid, cores, sdram (-1: none), binary>>; outcome = *)
(*       <<"ok", placements <<vid, x, y>>, allocations <<vid, <<c0, c1>>,  *)
(*       <<s0, s1>> or <<>>>>, application map <<binary, x, y, cores>>,    *)
(*       tables <<x, y, entries>>>> | <<"raise", class>>                   *)
(*  <<"enter", app, cmds>>   the application block is entered              *)
(*  <<"hostwrite", view, pos, data, outcome, cmds, post>>   seek + write   *)
(*       through the view <<vid, x, y, off, len>> of a vertex's block      *)
(*  <<"corewrite", x, y, p, off, data, post>>   (environment) the core     *)
(*       writes its results over the block it finds under its own tag      *)
(*  <<"coreread", x, y, p, off, data>>   (environment) what the core finds *)
(*       in the block under its tag                                        *)
(*  <<"readback", view, outcome, cmds, post>>   seek(0) + read() of a view *)
(*  <<"final", fmem>>   the contents of the foreign blocks at the end      *)
(* and api "app_exit" (args exc = 1: left by an exception) / "load_app"    *)
(* with a seventh field: the binary each loaded core holds.                *)
(*                                                                         *)
(* Clauses over the whole trace (every event): OnlyFreeResourcesUsed,      *)
(* Isolation, NoLeak (Lifecycle.tla).                                      *)
(***************************************************************************)
EXTENDS GlueTrace, Lifecycle

VARIABLE lifeCtx      \* what the life cycle has seen and asked for so far
lvars == <<tid, ei, st, verdict, lifeCtx>>

App == Tr.app
Start == ToState(Tr.init)
LinksAt(x, y) == LET hit == { l \in SeqSet(Tr.links) : l[1] = x /\ l[2] = y }
                 IN IF hit = {} THEN {} ELSE SeqSet((CHOOSE l \in hit : TRUE)[3])
CoresAt(x, y) == (CHOOSE ch \in Chips : ch[1] = x /\ ch[2] = y)[3]
NoFunction == [k \in {} |-> <<>>]
Ctx0 == [probe |-> {}, probed |-> FALSE, gr |-> NoGrants, views |-> {}, mem |-> NoFunction,
         entered |-> FALSE, left |-> FALSE]

PrNorm(chips) == { <<c[1], c[2], { p \in 1..(c[3] - 1) : c[4][p + 1] = StIdle }, c[6], c[8]>> : c \in SeqSet(chips) }
OnlyLooks(c) == c[1] \in {0, 2, 31}
Span(view) == view[4]..(view[4] + view[5] - 1)
MemKey(view) == <<view[2], view[3], view[4]>>
VertOf(verts, vid) == CHOOSE v \in SeqSet(verts) : v[1] = vid
SumOver(S, F(_)) == FoldLeft(LAMBDA acc, v : acc + F(v), 0, SetToSeq(S))
Guards == {"InsufficientResourceError", "InvalidConstraintError", "MachineHasDisconnectedSubregion",
           "MinimisationFailedError", "MultisourceRouteError"}

PostOf(e) ==
    CASE e[1] = "probe" -> ToState(e[4])
      [] e[1] = "vsdram" -> ToState(e[5])
      [] e[1] \in {"api", "env"} -> ToState(e[6])
      [] e[1] \in {"hostwrite", "corewrite"} -> ToState(e[7])
      [] e[1] = "readback" -> ToState(e[5])
      [] OTHER -> st

----------------------------------------------------------------------------
\* what the life cycle has seen and asked for once this event has happened
NextCtx(e) ==
    CASE e[1] = "probe" /\ e[2][1] = "ok" -> [lifeCtx EXCEPT !.probe = PrNorm(e[2][2]), !.probed = TRUE]
      [] e[1] = "enter" -> [lifeCtx EXCEPT !.entered = TRUE]
      [] e[1] = "vsdram" ->
            LET a == e[2]
                wanted == Wanted(a.verts, a.core_as_tag = 1)
                new == { b \in PostOf(e).alloc \ st.alloc : b[6] = a.app }
                fresh == [k \in { <<b[1], b[2], b[3]>> : b \in new } |->
                             LET b == CHOOSE b \in new : <<b[1], b[2], b[3]>> = k
                             IN IF a.clear = 1 THEN Zeros(b[4]) ELSE Unknown(b[4])]
                views == IF e[3][1] # "ok" THEN {}
                         ELSE { LET v == VertOf(a.verts, vw[1]) IN <<vw[1], v[2], v[3], vw[2], vw[3]>> : vw \in SeqSet(e[3][2]) }
            IN [lifeCtx EXCEPT !.gr.blocks = @ \cup { <<w[2], w[3], w[4], w[5]>> : w \in wanted },
                               !.mem = fresh @@ @, !.views = @ \cup views]
      [] e[1] = "api" /\ e[2] = "load_tables" ->
            [lifeCtx EXCEPT !.gr.ents = @ \o [i \in 1..Len(e[3].tables) |->
                                                <<e[3].tables[i][1], e[3].tables[i][2], Len(e[3].tables[i][3])>>]]
      [] e[1] = "api" /\ e[2] = "load_app" ->
            [lifeCtx EXCEPT !.gr.cores = @ \cup UNION { { <<t[1], t[2], p>> : p \in SeqSet(t[3]) } : t \in SeqSet(e[3].targets) }]
      [] e[1] = "api" /\ e[2] = "app_exit" -> [lifeCtx EXCEPT !.left = TRUE, !.mem = NoFunction, !.views = {}]
      [] e[1] = "hostwrite" /\ e[5][1] = "ok" /\ MemKey(e[2]) \in DOMAIN lifeCtx.mem ->
            [lifeCtx EXCEPT !.mem[MemKey(e[2])] = Put(@, e[3], SubSeq(e[4], 1, e[5][2]))]
      [] e[1] = "corewrite" /\ <<e[2], e[3], e[5]>> \in DOMAIN lifeCtx.mem ->
            [lifeCtx EXCEPT !.mem[<<e[2], e[3], e[5]>>] = Put(@, 0, e[6])]
      [] OTHER -> lifeCtx

----------------------------------------------------------------------------
ProbeChecks(outcome, cmds, post) ==
    [ProbeOnlyLooks |-> \A i \in 1..Len(cmds) : OnlyLooks(cmds[i]),
     ProbeLeavesMachine |-> post = st,
     StartStateIsAMachine |-> MachineInv(st, Heap),
     \* exactly the working chips; per chip the number of cores, each application core's state, the working links,
     \* the free SDRAM and the free router entries are the machine's
     ProbeIsMachines |->
        /\ outcome[1] = "ok" /\ Len(outcome[2]) = Cardinality(Chips)
        /\ { <<c[1], c[2], c[3]>> : c \in SeqSet(outcome[2]) } = Chips
        /\ PrNorm(outcome[2]) = ProbeOf(st, Chips, Heap)
        /\ \A c \in SeqSet(outcome[2]) :
              /\ Len(c[4]) = c[3]
              /\ \A p \in 1..(c[3] - 1) : c[4][p + 1] = CoreSt(st, <<c[1], c[2], p>>)[1]
              /\ SeqSet(c[5]) = LinksAt(c[1], c[2]) /\ Len(c[5]) = Cardinality(LinksAt(c[1], c[2]))]

ParChecks(prob, outcome) ==
    IF outcome[1] # "ok"
    THEN [PlanFailsOnlyAsDocumented |-> outcome[1] = "raise" /\ outcome[2] \in Guards]
    ELSE
    LET verts == SeqSet(prob.verts)
        place == SeqSet(outcome[2])
        allocs == SeqSet(outcome[3])
        pr == lifeCtx.probe
        XYOf(vid) == LET q == CHOOSE q \in place : q[1] = vid IN <<q[2], q[3]>>
        CoresOfA(a) == { <<XYOf(a[1])[1], XYOf(a[1])[2], p>> : p \in a[2][1]..(a[2][2] - 1) }
        SdramOfA(a) == IF a[3] = <<>> THEN 0 ELSE a[3][2] - a[3][1]
        OnChip(xy) == { a \in allocs : XYOf(a[1]) = xy }
    IN [PlanAfterProbe |-> lifeCtx.probed,
        PlanCoversVertices |-> /\ { q[1] : q \in place } = { v[1] : v \in verts } /\ Len(outcome[2]) = Cardinality(verts)
                               /\ { a[1] : a \in allocs } = { v[1] : v \in verts } /\ Len(outcome[3]) = Cardinality(verts),
        \* "only use working and unused chips, cores, memory": every vertex gets as many cores as it asked for, all
        \* of them reported idle by the probe, no core twice
        PlanOnIdleProbedCores |->
            /\ \A a \in allocs : /\ a[2][2] - a[2][1] = VertOf(prob.verts, a[1])[2]
                                 /\ CoresOfA(a) \subseteq PrIdle(pr)
            /\ \A a, b \in allocs : a # b => CoresOfA(a) \cap CoresOfA(b) = {},
        PlanSdramWithinProbe |->
            /\ \A a \in allocs : SdramOfA(a) = (IF VertOf(prob.verts, a[1])[3] < 0 THEN 0 ELSE VertOf(prob.verts, a[1])[3])
            /\ \A q \in place : SumOver(OnChip(<<q[2], q[3]>>), SdramOfA) <= PrSdram(pr, q[2], q[3]),
        \* the tables fit the router entries the probe reported free
        PlanTablesWithinProbe |-> \A t \in SeqSet(outcome[5]) : Len(t[3]) >= 1 => Len(t[3]) <= PrRtr(pr, t[1], t[2]),
        \* the application map is the allocation: each binary on exactly the cores of the vertices that run it
        PlanAppMapIsAllocation |->
            UNION { { <<m[1], m[2], m[3], m[4][i]>> : i \in 1..Len(m[4]) } : m \in SeqSet(outcome[4]) }
              = UNION { { <<VertOf(prob.verts, a[1])[4], k[1], k[2], k[3]>> : k \in CoresOfA(a) } : a \in allocs }]

ViewChecks(e) ==
  CASE e[1] = "hostwrite" ->
        LET view == e[2]  cmds == e[6]
            writes == { k \in 1..Len(cmds) : cmds[k][1] = 3 }
            n == Min2(Len(e[4]), view[5] - e[3])
        IN [WriteThroughAView |-> view \in lifeCtx.views,
            HostWriteOutcome |-> e[5] = <<"ok", n>>,
            \* the bytes go to the view's block on the view's chip, exactly where the view stands, nowhere else
            HostWriteOnlyThatBlock |->
                /\ \A k \in 1..Len(cmds) : ReadOnly(cmds[k]) \/ (cmds[k][1] = 3 /\ cmds[k][12] = <<view[2], view[3]>>
                                                                  /\ Num(cmds[k][5]) >= SdramBase)
                /\ UNION { BytesOf(cmds[k]) : k \in writes } = (view[4] + e[3])..(view[4] + e[3] + n - 1),
            NothingRefused |-> \A k \in 1..Len(cmds) : cmds[k][9] = 128,
            MachineUnchanged |-> ToState(e[7]) = st]
    [] e[1] = "readback" ->
        LET view == e[2]  cmds == e[4]
            reads == { k \in 1..Len(cmds) : cmds[k][1] = 2 }
        IN [ReadThroughAView |-> view \in lifeCtx.views /\ MemKey(view) \in DOMAIN lifeCtx.mem,
            \* what comes back is what the block holds: what the vertex's core (or the host, or clear) last put there
            ReadBackIsBlocksContents |-> /\ Len(e[3]) = 2 /\ e[3][1] = "ok" /\ Len(e[3][2]) = view[5]
                                         /\ MemKey(view) \in DOMAIN lifeCtx.mem => Agrees(e[3][2], lifeCtx.mem[MemKey(view)]),
            \* and only that block is read
            ReadBackOnlyThatBlock |->
                /\ \A k \in 1..Len(cmds) : OnlyLooks(cmds[k]) /\ cmds[k][1] # 31
                /\ \A k \in reads : cmds[k][12] = <<view[2], view[3]>> /\ Num(cmds[k][5]) >= SdramBase
                /\ UNION { BytesOf(cmds[k]) : k \in reads } = Span(view),
            NothingRefused |-> \A k \in 1..Len(cmds) : cmds[k][9] = 128,
            MachineUnchanged |-> ToState(e[5]) = st]
    [] e[1] = "corewrite" ->
        [\* (validates the environment) a core of the application writes over the block that carries its tag
         CoreWritesItsOwnBlock |-> /\ CoreSt(st, <<e[2], e[3], e[4]>>)[2] = App
                                   /\ <<e[2], e[3], e[5], Len(e[6]), e[4], App>> \in st.alloc,
         MachineUnchanged |-> ToState(e[7]) = st]
    [] e[1] = "coreread" ->
        [CoreReadsItsOwnBlock |-> /\ CoreSt(st, <<e[2], e[3], e[4]>>)[2] = App
                                  /\ <<e[2], e[3], e[5], Len(e[6]), e[4], App>> \in st.alloc,
         \* the block the core finds under its tag holds what the host wrote through the vertex's view
         CoreSeesHostsData |-> <<e[2], e[3], e[5]>> \in DOMAIN lifeCtx.mem /\ Agrees(e[6], lifeCtx.mem[<<e[2], e[3], e[5]>>])]
    [] OTHER -> [UnknownEvent |-> FALSE]

ApiExtra(e) ==
    LET a == e[3]  post == ToState(e[6]) IN
    CASE e[2] = "send_signal" /\ a.sig \in DOMAIN SigCode ->
            [Releases |-> ReleasesExactly(st, post, a.sig, a.app), InsideBlockUsesBlocksId |-> a.app = App]
      [] e[2] = "load_app" ->
            [EachCoreRunsItsBinary |-> SeqSet(e[7]) = SeqSet(a.images) /\ Len(e[7]) = Len(a.images),
             CallsAfterEntering |-> lifeCtx.entered /\ ~lifeCtx.left]
      [] e[2] = "app_exit" ->
            [NoLeakOnExit |-> NothingLeft(post, App), ExitOfTheBlockEntered |-> lifeCtx.entered /\ ~lifeCtx.left /\ a.app = App]
      [] OTHER -> [CallsAfterEntering |-> lifeCtx.entered /\ ~lifeCtx.left]

LChecks(e) ==
    LET post == PostOf(e)
        nctx == NextCtx(e)
        own == CASE e[1] = "probe" ->
                      IF \E i \in 1..Len(e[3]) : ~Modelled(e[3][i]) THEN [CommandsModelled |-> FALSE]
                      ELSE ProbeChecks(e[2], e[3], post)
                 [] e[1] = "par" -> ParChecks(e[2], e[3])
                 [] e[1] = "enter" -> [EnterSendsNothing |-> e[3] = <<>> /\ e[2] = App,
                                       EnterOnce |-> ~lifeCtx.entered]
                 [] e[1] = "final" -> [ForeignContentsUnchanged |-> e[2] = Tr.fmem,
                                       NothingLeftAtEnd |-> NothingLeft(st, App),
                                       BlockWasLeft |-> lifeCtx.entered => lifeCtx.left]
                 [] e[1] \in {"hostwrite", "readback", "corewrite", "coreread"} -> ViewChecks(e)
                 [] e[1] = "api" -> ApiExtra(e) @@ GChecks(e)
                 [] OTHER -> GChecks(e)
    IN own @@
       [\* everything the application holds was granted by a call of this trace, inside what the probe said is free
        OnlyFreeResourcesUsed |-> OnlyFreeResourcesUsed(post, Heap, App, nctx.probe, nctx.gr),
        \* nothing that is not the application's is ever touched
        Isolation |-> Isolated(post, Start, App),
        \* once the block has been left the application holds nothing, and nothing comes back
        NoLeak |-> nctx.left => NothingLeft(post, App)]

LDetail(e) == IF e[1] \in {"api", "env", "vsdram"} THEN GDetail(e)
              ELSE IF e[1] = "par" THEN "place_and_route_wrapper outcome=" \o ToString(e[3]) \o " probe=" \o ToString(lifeCtx.probe)
              ELSE IF e[1] = "probe" THEN "get_system_info outcome=" \o ToString(e[2]) \o " machine=" \o ToString(st)
              ELSE IF e[1] \in {"hostwrite", "readback"} THEN e[1] \o " view=" \o ToString(e[2]) \o " known contents="
                        \o ToString(lifeCtx.mem) \o " event=" \o ToString(<<e[3], e[4]>>)
              ELSE e[1] \o " " \o ToString(e) \o " context=" \o ToString(lifeCtx)
LBad == LET ck == LChecks(Ev) IN {c \in DOMAIN ck : ~ck[c]}
LInit == /\ tid \in 1..Len(Traces) /\ ei = 1 /\ verdict = <<>> /\ st = ToState(Traces[tid].init) /\ lifeCtx = Ctx0
LStep == /\ ei <= Len(Tr.ev) /\ verdict = <<>> /\ tid' = tid
         /\ LET bad == LBad
            IN IF bad = {} THEN ei' = ei + 1 /\ st' = PostOf(Ev) /\ lifeCtx' = NextCtx(Ev) /\ verdict' = verdict
               ELSE /\ PrintT("REJECT|" \o ToString(tid) \o "|" \o ToString(ei) \o "|" \o ToString(bad)
                              \o "|" \o LDetail(Ev))
                    /\ verdict' = <<ei, bad>> /\ ei' = ei /\ st' = st /\ lifeCtx' = lifeCtx
LSpec == LInit /\ [][LStep]_lvars
=============================================================================
