------------------------------- MODULE Spinn5 -------------------------------
(***************************************************************************)
(* The SpiNN-5 board tiling (C19).  A board is the 48-chip hexagon         *)
(*     Tile == {(x, y) : 0 <= x, y <= 7, -3 <= x - y <= 4}                 *)
(* and a machine is tiled from boards whose Ethernet (bottom-left) chips   *)
(* sit at (0,0), (4,8), (8,4) + 12 Z^2, all shifted by the root chip.      *)
(* Nothing here is taken from rig's lookup tables.                         *)
(***************************************************************************)
EXTENDS Hex

Tile == { c \in (0..7) \X (0..7) : c[1] - c[2] <= 4 /\ c[2] - c[1] <= 3 }

\* board origins that can cover a point with coordinates 0..11 (relative to the root chip)
Origins == { <<o[1] + 12 * i, o[2] + 12 * j>> : o \in {<<0, 0>>, <<4, 8>>, <<8, 4>>}, i \in {-1, 0}, j \in {-1, 0} }

\* the origins whose board covers relative point p
Covering(p) == { o \in Origins : <<p[1] - o[1], p[2] - o[2]>> \in Tile }

\* position of chip (x, y) on its board, for root chip (rx, ry)
Rel(x, y, rx, ry) == << (x - rx) % 12, (y - ry) % 12 >>
ChipCoord(x, y, rx, ry) ==
    LET p == Rel(x, y, rx, ry)  o == CHOOSE o \in Covering(p) : TRUE
    IN  << p[1] - o[1], p[2] - o[2] >>
\* Ethernet chip of the board holding (x, y) in a w x h machine
LocalEth(x, y, w, h, rx, ry) ==
    LET cc == ChipCoord(x, y, rx, ry) IN << (x - cc[1]) % w, (y - cc[2]) % h >>
\* Ethernet chips inside a w x h machine
EthCoords(w, h, rx, ry) == { c \in Chips(w, h) : ChipCoord(c[1], c[2], rx, ry) = <<0, 0>> }
\* does link k of board-chip cc leave the board?
Leaves(cc, k) == NbrMesh(cc, k) \notin Tile
LeavingPairs == { ck \in Tile \X Links : Leaves(ck[1], ck[2]) }

\* squarest arrangement of n = 3t boards: t = wt * ht triads, ht the largest divisor with ht^2 <= t
Divs(t) == { d \in 1..t : t % d = 0 /\ d * d <= t }
MaxOf(S) == CHOOSE m \in S : \A n \in S : n <= m
StandardDims(n) ==
    IF n = 0 THEN <<0, 0>> ELSE IF n = 1 THEN <<8, 8>>
    ELSE LET t == n \div 3  ht == MaxOf(Divs(t)) IN << 12 * (t \div ht), 12 * ht >>

(***************************************************************************)
(* Design obligations, evaluated by TLC.                                   *)
(***************************************************************************)
ASSUME Cardinality(Tile) = 48
\* the boards partition the plane: every point of a 12 x 12 cell lies on exactly one board
ASSUME \A p \in (0..11) \X (0..11) : Cardinality(Covering(p)) = 1
\* ... and three boards fill one 12 x 12 cell exactly
ASSUME 3 * 48 = 12 * 12
\* 48 links leave a board: 16 per FPGA
ASSUME Cardinality(LeavingPairs) = 48
\* a link leaving a board arrives on a different board, and the opposite link leaves that board
ASSUME \A ck \in LeavingPairs :
          LET n == NbrMesh(ck[1], ck[2])
              q == <<n[1] % 12, n[2] % 12>>
              o == CHOOSE o \in Covering(q) : TRUE
          IN  <<<<q[1] - o[1], q[2] - o[2]>>, Opp(ck[2])>> \in LeavingPairs

=============================================================================
