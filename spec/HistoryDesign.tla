--------------------------- MODULE HistoryDesign ---------------------------
(***************************************************************************)
(* Design job for C17: a process that makes calls of a two-function        *)
(* library on two caller-owned objects, every history up to MaxCalls       *)
(* calls, the caller re-using (and between calls modifying) its objects.   *)
(*                                                                         *)
(*   f(obj, radius)    looks the ring of `radius` up in a process-wide     *)
(*                     memo (computing and storing it on a miss) and       *)
(*                     returns it with a copy of obj                       *)
(*   g(obj, seed, acc = <a mutable default>)                               *)
(*                     returns acc united with obj, and the seed           *)
(*                                                                         *)
(* The rules (what the anchors of the property call the mechanism):        *)
(*   R1  work on a copy of the caller's object                             *)
(*   R2  copy a mutable default before use                                 *)
(*   R3  the memo only gains entries, each the ring of its radius          *)
(*   R4  no other state survives a call                                    *)
(* An implementation is the rules minus a set of faults, fixed per         *)
(* behaviour and chosen from FaultChoices:                                 *)
(*   "mutatesarg"     f marks the caller's object            (breaks R1)   *)
(*   "leakydefault"   g accumulates into its default         (breaks R2)   *)
(*   "evictingcache"  f keeps one memo entry only            (breaks R3)   *)
(*   "wrongcache"     f stores something else than the ring  (breaks R3)   *)
(*   "hiddenstate"    g counts its calls in a global         (breaks R4)   *)
(*                                                                         *)
(* Every call is judged by History!ProbeClauses - the very clauses the     *)
(* traces of the real library are judged by - with the value itself in the *)
(* place of a digest, and `fresh` computed by running the same             *)
(* implementation from the initial state of the process.                   *)
(*   FaultChoices = {{}}: the rules imply every clause and the property    *)
(*       itself (HistoryIndependent).                                      *)
(*   FaultChoices = all sets of R1-R3 faults: whenever a result depends on *)
(*       the history, one of the mechanism clauses has already failed      *)
(*       (MechanismImpliesIndependence) - they are sufficient for R1-R3.   *)
(*   single faults: the clause named in the cfg MUST be violated (the      *)
(*       clauses are not vacuous); "hiddenstate" violates only the         *)
(*       result clauses, which is why they are kept beside the mechanism   *)
(*       clauses.                                                          *)
(***************************************************************************)
EXTENDS History

CONSTANTS MaxCalls,       \* calls per history
          FaultChoices    \* sets of faults an implementation may have

Vals == {1, 2}            \* the caller's objects, also the radii
Seeds == {0, 1}
Mark == 0                 \* what a faulty f leaves in the caller's object
Ink == 3                  \* what the caller itself may add to one of its objects
MechFaults == {"mutatesarg", "leakydefault", "evictingcache", "wrongcache"}
MechSubsets == SUBSET MechFaults

Ring(r) == 10 * r         \* stands for the pure function the memo memoises

VARIABLES faults,      \* the faults of this behaviour's implementation
          objs,        \* the caller's objects: value -> set
          deflt,       \* the default-argument object of g
          rings,       \* the process-wide memo: set of <<radius, entry>>
          hidden,      \* a module-level counter (only a faulty g touches it)
          histSt,      \* abstract state of the history (History!EmptyHistory ...)
          judged,      \* History!ProbeClauses of the latest call
          mechOK,      \* all mechanism clauses held for every call so far
          ncalls
vars == <<faults, objs, deflt, rings, hidden, histSt, judged, mechOK, ncalls>>

\* ---------------------------------------------------------------- the implementation
ImplF(flt, radius, content, memo) ==
  LET hit    == { c \in memo : c[1] = radius }
      entry  == IF hit # {} THEN (CHOOSE c \in hit : TRUE)[2] ELSE Ring(radius)
      stored == IF "wrongcache" \in flt /\ hit = {} THEN Ring(radius) + 1 ELSE entry
      after  == IF "mutatesarg" \in flt THEN content \cup {Mark} ELSE content
      kept   == IF "evictingcache" \in flt THEN {} ELSE { c \in memo : c[1] # radius }
  IN [res |-> <<"f", after, entry>>, obj |-> after, memo |-> kept \cup {<<radius, stored>>}]

ImplG(flt, seed, content, acc, counter) ==
  LET local == acc \cup content
  IN [res |-> <<"g", local, seed + 10 * counter>>,
      acc |-> IF "leakydefault" \in flt THEN local ELSE acc,
      counter |-> IF "hiddenstate" \in flt THEN counter + 1 ELSE counter]

\* result of a call in a given state of the process
ResultIn(flt, fn, v, seed, content, acc, memo, counter) ==
  IF fn = "f" THEN ImplF(flt, v, content, memo).res ELSE ImplG(flt, seed, content, acc, counter).res
FreshResult(flt, fn, v, seed, content) == ResultIn(flt, fn, v, seed, content, {}, {}, 0)

RingsOf(memo) == { <<c[1], Ring(c[1])>> : c \in memo }

\* ---------------------------------------------------------------- the process
AllTrue == [c \in DOMAIN ProbeClauses(EmptyHistory,
                 [fn |-> "f", seed |-> 0, args |-> <<>>, res |-> 0, defs |-> {}, cbefore |-> {}, cafter |-> {},
                  cring |-> {}, fresh |-> 0, freshdefs |-> {}]) |-> TRUE]

DInit == /\ faults \in FaultChoices
         /\ objs = [v \in Vals |-> {v}] /\ deflt = {} /\ rings = {} /\ hidden = 0
         /\ histSt = EmptyHistory /\ judged = AllTrue /\ mechOK = TRUE /\ ncalls = 0

Judge(rec) == /\ judged' = ProbeClauses(histSt, rec)
              /\ histSt' = ApplyCall(histSt, rec, TRUE)
              /\ mechOK' = (mechOK /\ judged'.ArgsUnchanged /\ judged'.DefaultsUnchanged /\ judged'.DefaultsAsAtStart
                            /\ judged'.CacheOnlyGains /\ judged'.CacheEntriesCorrect)
              /\ ncalls' = ncalls + 1

CallF(v) ==
  /\ ncalls < MaxCalls
  /\ LET out == ImplF(faults, v, objs[v], rings)
     IN /\ objs' = [objs EXCEPT ![v] = out.obj] /\ rings' = out.memo
        /\ Judge([fn |-> "f", seed |-> 0,
                  args |-> << <<"obj", objs[v], out.obj>>, <<"radius", {v}, {v}>> >>,
                  res |-> out.res, defs |-> { <<"g.acc", deflt, deflt>> },
                  cbefore |-> rings, cafter |-> out.memo, cring |-> RingsOf(out.memo),
                  fresh |-> FreshResult(faults, "f", v, 0, objs[v]), freshdefs |-> { <<"g.acc", {}>> }])
  /\ UNCHANGED <<faults, deflt, hidden>>

CallG(v, seed) ==
  /\ ncalls < MaxCalls
  /\ LET out == ImplG(faults, seed, objs[v], deflt, hidden)
     IN /\ deflt' = out.acc /\ hidden' = out.counter
        /\ Judge([fn |-> "g", seed |-> seed,
                  args |-> << <<"obj", objs[v], objs[v]>> >>,
                  res |-> out.res, defs |-> { <<"g.acc", deflt, out.acc>> },
                  cbefore |-> rings, cafter |-> rings, cring |-> RingsOf(rings),
                  fresh |-> FreshResult(faults, "g", v, seed, objs[v]), freshdefs |-> { <<"g.acc", {}>> }])
  /\ UNCHANGED <<faults, objs, rings>>

\* between calls the caller may change an object of its own: later calls then have other arguments
Scribble(v) == /\ Ink \notin objs[v] /\ ncalls < MaxCalls
               /\ objs' = [objs EXCEPT ![v] = @ \cup {Ink}]
               /\ UNCHANGED <<faults, deflt, rings, hidden, histSt, judged, mechOK, ncalls>>

DNext == \E v \in Vals : CallF(v) \/ Scribble(v) \/ \E seed \in Seeds : CallG(v, seed)
DSpec == DInit /\ [][DNext]_vars

\* ---------------------------------------------------------------- what is checked
InvArgsUnchanged       == judged.ArgsUnchanged
InvDefaultsUnchanged   == judged.DefaultsUnchanged
InvDefaultsAsAtStart   == judged.DefaultsAsAtStart
InvCacheOnlyGains      == judged.CacheOnlyGains
InvCacheEntriesCorrect == judged.CacheEntriesCorrect
InvFunctional          == judged.Functional
InvFreshAgrees         == judged.FreshAgrees
InvDefaultsAsFresh     == judged.DefaultsAsFresh
InvMemoIsFunction      == MemoIsFunction(histSt)

\* the property itself, stated on the process rather than on an event: whatever has been called, every possible
\* next call returns what it returns in a fresh process
HistoryIndependent ==
  \A fn \in {"f", "g"}, v \in Vals, seed \in Seeds :
     ResultIn(faults, fn, v, seed, objs[v], deflt, rings, hidden) = FreshResult(faults, fn, v, seed, objs[v])

\* the mechanism clauses are sufficient: as long as none has failed, no result depends on the history
MechanismImpliesIndependence ==
  mechOK => (judged.Functional /\ judged.FreshAgrees /\ judged.DefaultsAsFresh /\ HistoryIndependent)

DefaultsNeverChange  == [][deflt' = deflt]_vars
MemoOnlyGains        == [][rings \subseteq rings']_vars
OnlyCallerChangesObjects == [][ncalls' # ncalls => objs' = objs]_vars
HistoryCounts        == histSt.n = ncalls /\ histSt.probes = ncalls
=============================================================================
