------------------------------ MODULE BmpTrace ------------------------------
(***************************************************************************)
(* Trace specification for sessions of rig's BMPController against the     *)
(* simulated BMPs of one frame (beyond the listed properties).             *)
(*                                                                         *)
(* Setup: hosts - the connections given to the controller, as              *)
(*   <<board or -1 for the frame's own connection, host name>>.            *)
(* Events: <<"api", name, args, outcome, cmds, post, slept>>: one call;    *)
(*   cmds = the commands the BMPs executed during it (Bmp.tla), post = the *)
(*   BMPs' state afterwards (lists), slept = milliseconds of (virtual)     *)
(*   time the call took.                                                   *)
(* Clauses: Simulator* validate the simulated BMP against the model;       *)
(* *Command pins what rig sent and to which connection; *Outcome /         *)
(* *Decoded what it returned.                                              *)
(***************************************************************************)
EXTENDS Bmp, SequencesExt, Json, IOUtils

Traces == JsonDeserialize(IOEnv.TRACE_FILE)
VARIABLES tid, ei, st, verdict
vars == <<tid, ei, st, verdict>>
Tr == Traces[tid]
Ev == Tr.ev[ei]
SeqSet(q) == { q[i] : i \in 1..Len(q) }
ToState(p) == [power |-> SeqSet(p.power), led |-> SeqSet(p.led), reg |-> SeqSet(p.reg)]

\* the connection for a board: its own when the controller was given one, else the frame's
HostFor(b) == LET own == { h \in SeqSet(Tr.hosts) : h[1] = b }
                  frame == { h \in SeqSet(Tr.hosts) : h[1] = -1 }
              IN IF own # {} THEN (CHOOSE h \in own : TRUE)[2] ELSE (CHOOSE h \in frame : TRUE)[2]
RECURSIVE MaskNum(_, _)
MaskNum(bs, i) == IF i > Len(bs) THEN 0 ELSE 2^bs[i] + MaskNum(bs, i + 1)
MaskWord(bs) == LET n == MaskNum(bs, 1) IN <<n \div 65536, n % 65536>>
RECURSIVE LedNum(_, _, _)
LedNum(ls, code, i) == IF i > Len(ls) THEN 0 ELSE code * 4^ls[i] + LedNum(ls, code, i + 1)
Is(c, cmd, board, a1, a2, a3) == c[1] = cmd /\ c[3] = board /\ c[4] = a1 /\ c[5] = a2 /\ c[6] = a3 /\ c[2] = HostFor(board)
Aligned(a) == <<a[1], a[2] - (a[2] % 4)>>
U16(d, i) == d[2 * i + 1] + 256 * d[2 * i + 2]                  \* i-th (from 0) little-endian half-word
S16(d, i) == IF U16(d, i) >= 32768 THEN U16(d, i) - 65536 ELSE U16(d, i)

ApiChecks(name, a, outcome, cmds, slept) ==
  CASE name = "set_power" ->
        [PowerCommand |-> /\ outcome = <<"ok">> /\ Len(cmds) = 1
                          \* always to board 0's BMP, the boards named in the mask
                          /\ Is(cmds[1], 57, 0, <<a.delay, a.state>>, MaskWord(a.boards), <<0, 0>>),
         \* after switching on, the call gives the boards the time asked for to come up
         PowerOnWaits |-> IF a.state = 1 THEN slept >= a.post ELSE slept = 0]
    [] name = "set_led" ->
        [LedCommand |-> /\ outcome = <<"ok">> /\ Len(cmds) = 1
                        /\ Is(cmds[1], 25, a.boards[1],
                              <<0, LedNum(a.leds, CASE a.action = 1 -> 3 [] a.action = 0 -> 2 [] OTHER -> 1, 1)>>,
                              MaskWord(a.boards), <<0, 0>>)]
    [] name = "read_fpga_reg" ->
        [RegReadCommand |-> Len(cmds) = 1 /\ Is(cmds[1], 17, a.board, Aligned(a.addr), <<0, 4>>, <<0, a.fpga>>),
         RegReadIsMachines |-> outcome = <<"ok">> \o RegValue(st, a.board, a.fpga, Aligned(a.addr))]
    [] name = "write_fpga_reg" ->
        [RegWriteCommand |-> /\ outcome = <<"ok">> /\ Len(cmds) = 1
                             /\ Is(cmds[1], 18, a.board, Aligned(a.addr), <<0, 4>>, <<0, a.fpga>>)
                             /\ cmds[1][7] = BytesOfWord(a.value)]
    [] name = "version" ->
        LET c == cmds[1]  r == c[10] IN
        [VersionCommand |-> Len(cmds) = 1 /\ Is(c, 0, a.board, <<0, 0>>, <<0, 0>>, <<0, 0>>),
         \* arg1 = code block, frame, CAN id, board (one byte each); arg2 low half = buffer size; arg3 = build date
         VersionDecoded |-> /\ Len(outcome) = 7 /\ outcome[1] = "ok"
                            /\ outcome[2] = r[1][1] \div 256 /\ outcome[3] = r[1][1] % 256
                            /\ outcome[4] = r[1][2] \div 256 /\ outcome[5] = r[1][2] % 256
                            /\ outcome[6] = r[2][2] /\ outcome[7] = r[3]]
    [] name = "read_adc" ->
        LET d == cmds[1][9]
            \* every figure times 2^14: 2.5 / 4096 V = 10 * 2^-14 per count, 3.75 / 4096 = 15, 15 / 4096 = 60;
            \* temperatures 1 / 256 degree = 64 * 2^-14; an absent sensor is None
            T(i) == IF S16(d, i) = -32768 THEN <<>> ELSE <<S16(d, i) * 64>>
            F(i) == IF S16(d, i) = -1 THEN <<>> ELSE <<S16(d, i) * 16384>>
        IN [AdcCommand |-> Len(cmds) = 1 /\ Is(cmds[1], 48, a.board, <<0, 3>>, <<0, 0>>, <<0, 0>>),
            AdcDecoded |-> outcome = <<"ok", << <<U16(d, 1) * 10>>, <<U16(d, 2) * 10>>, <<U16(d, 3) * 10>>,
                                               <<U16(d, 4) * 10>>, <<U16(d, 6) * 15>>, <<U16(d, 7) * 60>>,
                                               <<S16(d, 8) * 64>>, <<S16(d, 9) * 64>>, T(12), T(13), F(16), F(17) >> >>]
    [] OTHER -> [KnownMethod |-> FALSE]

Checks(e) ==
    LET cmds == e[5]  post == ToState(e[6])
    IN [SimulatorFollowsBmpModel |-> post = FoldLeft(LAMBDA acc, c : MStep(acc, c), st, cmds),
        SimulatorRepliesFollowModel |->
            FoldLeft(LAMBDA acc, c : [ms |-> MStep(acc.ms, c), ok |-> acc.ok /\ MReplyOk(acc.ms, c)],
                     [ms |-> st, ok |-> TRUE], cmds).ok,
        NothingRefused |-> \A i \in 1..Len(cmds) : cmds[i][8] = 128]
       @@ ApiChecks(e[2], e[3], e[4], cmds, e[7])

Bad == LET ck == Checks(Ev) IN {c \in DOMAIN ck : ~ck[c]}
TInit == /\ tid \in 1..Len(Traces) /\ ei = 1 /\ verdict = <<>> /\ st = Empty
TStep == /\ ei <= Len(Tr.ev) /\ verdict = <<>> /\ tid' = tid
         /\ LET bad == Bad
            IN IF bad = {} THEN ei' = ei + 1 /\ st' = ToState(Ev[6]) /\ verdict' = verdict
               ELSE /\ PrintT("REJECT|" \o ToString(tid) \o "|" \o ToString(ei) \o "|" \o ToString(bad) \o "|"
                              \o Ev[2] \o " args=" \o ToString(Ev[3]) \o " outcome=" \o ToString(Ev[4])
                              \o " commands=" \o ToString(Ev[5]))
                    /\ verdict' = <<ei, bad>> /\ ei' = ei /\ st' = st
TSpec == TInit /\ [][TStep]_vars
=============================================================================
