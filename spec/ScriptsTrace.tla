---------------------------- MODULE ScriptsTrace ----------------------------
(***************************************************************************)
(* Trace specification for rig's command-line tools run in-process against *)
(* simulated hosts (beyond the listed properties; hosted by C14).          *)
(*                                                                         *)
(* Setup of a trace:                                                       *)
(*   machine  the SpiNNaker machine behind host "spinn" (Scripts.tla)      *)
(*   phase0   "booted" / "unbooted" (waits for a boot image) / "dud"       *)
(*            (takes the image but never comes up)                         *)
(*   bmp      the board management processor behind host "bmp": version,   *)
(*            code_block, date, adc (the 22 raw values of board 0's block) *)
(*   host "nobody": nothing answers there                                  *)
(* Events: <<"run", tool, a, r, o>> one run of a tool, <<"end">>.          *)
(*   a  the arguments in structured form (the driver renders them to the   *)
(*      command line mechanically; a.usage: the command line is malformed) *)
(*   r  status (exit status; -1 when the tool raised), raised (exception   *)
(*      class or ""), outlen / errlen (characters written to the standard  *)
(*      streams), out (the printed report parsed into records)             *)
(*   o  what the environment observed: datagrams sent, commands executed,  *)
(*      virtual time elapsed, the machine's counters at every poll, ...    *)
(* State st: phase of "spinn", bmp (power / led / reg of the frame).       *)
(***************************************************************************)
EXTENDS Scripts, Json, IOUtils

BmpM == INSTANCE Bmp

Traces == JsonDeserialize(IOEnv.TRACE_FILE)
VARIABLES tid, ei, st, verdict
vars == <<tid, ei, st, verdict>>
Tr == Traces[tid]
Ev == Tr.ev[ei]
Mach == Tr.machine

ToBmpState(proj) == [power |-> SeqToSet(proj.power), led |-> SeqToSet(proj.led), reg |-> SeqToSet(proj.reg)]

\* what answers at a host
Device(host) == CASE host = "spinn" -> (IF st.phase = "booted" THEN "spinnaker" ELSE "silent")
                  [] host = "bmp" -> "bmp"
                  [] OTHER -> "silent"

\* a failure is reported: a non-zero exit status, a message on the standard error stream, no report
FailureReported(r) == r.status # 0 /\ r.errlen > 0 /\ r.outlen = 0
\* a malformed command line: argparse's usage error (exit status 2), and the machine is left alone
UsageRejected(r, o) == r.status = 2 /\ r.errlen > 0 /\ r.outlen = 0 /\ o.sent = 0
Sum(q) == FoldLeft(LAMBDA acc, v : acc + v, 0, q)

\* ------------------------------------------------------------------ rig-ps
RowRec(row) == [x |-> row[1], y |-> row[2], p |-> row[3], state |-> row[4], app |-> row[5], id |-> row[6]]
PsChecks(a, r, o) ==
    IF a.usage THEN [PsUsageErrorRejected |-> UsageRejected(r, o)]
    ELSE IF Device(a.host) # "spinnaker" THEN [PsFailureReported |-> FailureReported(r)]
    ELSE LET rows == [i \in 1..Len(r.out.rows) |-> RowRec(r.out.rows[i])] IN
         [PsExitZero |-> r.status = 0,
          PsHeaderAsDocumented |-> r.out.header = PsHeader,
          PsLinesParse |-> r.out.junk = <<>>,
          PsListsExactlySelected |-> SeqToSet(rows) = PsListing(Mach, a.sel),
          PsNoLineTwice |-> NoRepeats(rows)]

\* ------------------------------------------------------------------ rig-iobuf
IobufChecks(a, r, o) ==
    IF Device(a.host) # "spinnaker" THEN [IobufFailureReported |-> FailureReported(r)]
    ELSE LET i == ChipAt(Mach, a.x, a.y) IN
         [IobufExitZero |-> r.status = 0,
          IobufIsTheCoresText |-> i # 0 /\ r.out = IobufText(Mach.chips[i].cores[a.p + 1].io)]

\* ------------------------------------------------------------------ rig-counters
CountersChecks(a, r, o) ==
    IF Device(a.host) # "spinnaker" THEN [CountersFailureReported |-> FailureReported(r)]
    ELSE
    LET nchips == Len(Mach.chips)
        chipset == { <<Mach.chips[i].x, Mach.chips[i].y>> : i \in 1..nchips }
        wanted == IF Len(a.counters) = 0 THEN DefaultCounters ELSE a.counters
        \* samples asked for: one for the command, else one per "enter" - one only without --multiple
        nsamples == IF Len(a.command) > 0 THEN 1 ELSE IF a.multiple THEN a.enters ELSE (IF a.enters > 0 THEN 1 ELSE 0)
        lead == IF a.detailed THEN 3 ELSE 1
        hdr == r.out.header
        cols == SubSeq(hdr, lead + 1, Len(hdr))
        rows == r.out.rows
        perSample == IF a.detailed THEN nchips ELSE 1
        SampleOf(n) == (n - 1) \div perSample + 1
        ChipIndex(x, y) == CHOOSE j \in 1..nchips : o.readings[1][j][1] = x /\ o.readings[1][j][2] = y
        headerOk == /\ Len(hdr) = lead + Len(wanted) /\ hdr[1] = "time"
                    /\ (a.detailed => hdr[2] = "x" /\ hdr[3] = "y")
                    /\ SeqToSet(cols) = SeqToSet(wanted) /\ NoRepeats(cols)
        shapeOk == headerOk /\ r.out.junk = <<>> /\ Len(rows) = nsamples * perSample
                   /\ Len(o.readings) = nsamples + 1
                   /\ \A n \in 1..Len(rows) : Len(rows[n][4]) = Len(cols)
    IN [CountersExitZero |-> r.status = 0,
        CsvHeaderAsDocumented |-> headerOk,
        CsvNothingButHeaderAndRows |-> r.out.junk = <<>>,
        OneReportPerSample |-> Len(rows) = nsamples * perSample /\ o.triggers = nsamples,
        \* every reading of the machine (one before the first trigger, one after each) covers every chip
        PolledOnceAtStartAndOncePerSample |->
            /\ Len(o.polled) = nsamples + 1
            /\ \A k \in 1..Len(o.polled) : chipset \subseteq { <<c[1], c[2]>> : c \in SeqToSet(o.polled[k]) },
        ReportsTheAdvanceSinceLastReading |->
            shapeOk =>
              IF a.detailed
              THEN /\ \A k \in 1..nsamples :
                        { <<rows[n][2], rows[n][3]>> : n \in (k - 1) * nchips + 1..k * nchips } = chipset
                   /\ \A n \in 1..Len(rows), ci \in 1..Len(cols) :
                        <<rows[n][2], rows[n][3]>> \in chipset =>
                          rows[n][4][ci] = Widen(AdvanceAt(o.readings, SampleOf(n), ChipIndex(rows[n][2], rows[n][3]), cols[ci]))
              ELSE \A n \in 1..Len(rows), ci \in 1..Len(cols) :
                        rows[n][4][ci] = SummedAdvance(o.readings, n, cols[ci]),
        \* the time column: seconds since the tool started, to a tenth
        TimeColumnIsElapsedTime |->
            shapeOk => \A n \in 1..Len(rows) :
                          Abs(rows[n][1] * 100 - Sum(SubSeq(o.waits_ms, 1, SampleOf(n)))) <= 100,
        CommandRunExactlyOnce |-> o.calls = (IF Len(a.command) > 0 THEN <<a.command>> ELSE <<>>),
        SilentPrintsNoPrompts |-> a.silent => r.errlen = 0,
        OutputOnlyWhereAsked |-> a.tofile => r.outlen = 0]

\* ------------------------------------------------------------------ rig-info
Once(q) == Len(q) = 1
InfoChecks(a, r, o) ==
    LET dev == Device(a.host)  rep == r.out IN
    IF dev = "silent" THEN [InfoFailureReported |-> FailureReported(r)]
    ELSE IF dev = "spinnaker" THEN
        LET shape == /\ rep.junk = <<>> /\ Once(rep.device) /\ Once(rep.software) /\ Once(rep.dims) /\ Once(rep.chips)
                     /\ Once(rep.topology) /\ Once(rep.dead)
            torus == rep.topology[1] = "torus"
            between == Cardinality(BrokenBetweenChips(Mach, torus))
        IN [InfoExitZero |-> r.status = 0,
            InfoReportComplete |-> shape,
            InfoDeviceType |-> shape => rep.device[1] = "SpiNNaker",
            InfoSoftwareIsMachines |-> shape => rep.software[1] = <<Mach.sw, Mach.ver, Mach.labels, Civil(Mach.date)>>,
            InfoDimensionsAreMachines |-> shape => rep.dims[1] = <<Mach.w, Mach.h>>,
            InfoWorkingChipsCounted |-> shape => /\ rep.chips[1][1] = Len(Mach.chips)
                                                 /\ SeqToSet(rep.chips[1][2]) = CoreHistogram(Mach)
                                                 /\ NoRepeats(rep.chips[1][2]),
            InfoTopologyAdmitted |-> shape => TopologyAdmits(Mach, rep.topology[1]),
            InfoDeadLinksCounted |-> shape => rep.dead[1] = <<between, Cardinality(BrokenLinks(Mach)) - between>>,
            InfoApplicationStatesCounted |-> /\ SeqToSet(rep.apps) = AppStateCounts(Mach) /\ NoRepeats(rep.apps)]
    ELSE
        LET shape == /\ rep.junk = <<>> /\ Once(rep.device) /\ Once(rep.software) /\ Once(rep.code_block)
                     /\ Once(rep.board) /\ Once(rep.v12) /\ Once(rep.v18) /\ Once(rep.v33) /\ Once(rep.vin)
                     /\ Once(rep.ttop) /\ Once(rep.tbtm)
            raw == Tr.bmp.adc               \* positions from 0: raw[k + 1]
            Shown(q, k, absent) == IF raw[k + 1] = absent THEN q = <<>> ELSE Once(q)
        IN [InfoExitZero |-> r.status = 0,
            BmpReportComplete |-> shape,
            BmpDeviceType |-> shape => rep.device[1] = "BMP",
            BmpSoftwareIsBmps |-> shape => /\ rep.software[1] = <<"BC&MP", Tr.bmp.version, "", Civil(Tr.bmp.date)>>
                                           /\ rep.code_block[1] = Tr.bmp.code_block /\ rep.board[1] = 0,
            \* the three 1.2 V rails are printed as a, b, c; the BMP reports them as c, b, a (words 1, 2, 3 of the reply)
            BmpSuppliesAreAdcs |-> shape => /\ \A k \in 1..3 : VoltsShown(rep.v12[1][k], raw[5 - k], 10)
                                            /\ VoltsShown(rep.v18[1], raw[5], 10)
                                            /\ VoltsShown(rep.v33[1], raw[7], 15)
                                            /\ VoltsShown(rep.vin[1], raw[8], 60),
            BmpTemperaturesAreAdcs |-> shape => /\ DegreesShown(rep.ttop[1], raw[9]) /\ DegreesShown(rep.tbtm[1], raw[10])
                                                /\ Shown(rep.text0, 12, -32768) /\ Shown(rep.text1, 13, -32768)
                                                /\ (Once(rep.text0) => DegreesShown(rep.text0[1], raw[13]))
                                                /\ (Once(rep.text1) => DegreesShown(rep.text1[1], raw[14])),
            BmpFansAreAdcs |-> shape => /\ Shown(rep.fan0, 16, -1) /\ Shown(rep.fan1, 17, -1)
                                        /\ (Once(rep.fan0) => rep.fan0[1] = raw[17])
                                        /\ (Once(rep.fan1) => rep.fan1[1] = raw[18])]

\* ------------------------------------------------------------------ rig-power
PowerPredicted(a) == IF a.usage \/ Device(a.host) # "bmp" THEN st.bmp
                     ELSE BmpM!Power(st.bmp, SwitchOn(a.word), BoardsNamed(a.ranges))
PowerChecks(a, r, o) ==
    LET post == ToBmpState(o.post)
        env == [BmpSimulatorFollowsModel |-> post = FoldLeft(LAMBDA acc, c : BmpM!MStep(acc, c), st.bmp, o.cmds)]
        powerCmds == { i \in 1..Len(o.cmds) : o.cmds[i][1] = 57 }
    IN env @@
       (IF a.usage THEN [PowerUsageErrorRejected |-> UsageRejected(r, o), PowerLeftAlone |-> post = st.bmp]
        ELSE IF Device(a.host) = "silent" THEN [PowerFailureReported |-> FailureReported(r)]
        ELSE IF Device(a.host) = "spinnaker" THEN [PowerNotABmpReported |-> FailureReported(r) /\ o.sim_power_cmds = 0]
        ELSE [PowerExitZero |-> r.status = 0 /\ r.outlen = 0,
              PowerSwitchesExactlyNamedBoards |-> post = PowerPredicted(a),
              PowerOneCommandAccepted |-> Cardinality(powerCmds) = 1 /\ \A i \in powerCmds : o.cmds[i][8] = 128,
              \* after switching on, the boards get the time asked for to come up before the tool returns
              PowerOnDelayObserved |-> SwitchOn(a.word) /\ a.delay_ms >= 0 => o.elapsed_ms >= a.delay_ms])

\* ------------------------------------------------------------------ rig-discover
DefaultListen == 6000
DiscoverChecks(a, r, o) ==
    LET limit == IF a.timeout_ms = -1 THEN DefaultListen ELSE a.timeout_ms
        heard == o.ping_ms >= 0 /\ o.ping_ms < limit
    IN [DiscoverListensOnBootPort |-> o.bound = <<BootPort>>,
        DiscoverPrintsTheAddress |-> heard => r.status = 0 /\ r.out = <<o.ip>>,
        DiscoverSilentWhenNothingHeard |-> ~heard => r.status = 1 /\ r.outlen = 0,
        DiscoverGivesUpAtTheTimeout |-> ~heard /\ a.timeout_ms >= 0 => Abs(o.elapsed_ms - limit) <= 1]

\* ------------------------------------------------------------------ rig-boot
\* boot datagrams: <<command, arg1, arg3, bytes of image carried>>; 1 start (arg3 = blocks - 1), 3 block (the low
\* byte of arg1 = its number; as in Boot.tla the word count in the upper bits is not judged), 5 end (arg1 = 1)
WholeImageSent(dg) ==
    LET n == Len(dg) - 2 IN
    /\ n >= 1 /\ dg[1][1] = 1 /\ dg[1][3] = n - 1 /\ dg[Len(dg)][1] = 5 /\ dg[Len(dg)][2] = 1
    /\ \A k \in 1..n : /\ dg[k + 1][1] = 3 /\ dg[k + 1][4] \in 4..1024 /\ dg[k + 1][4] % 4 = 0
                       /\ dg[k + 1][2] >= 0 /\ dg[k + 1][2] % 256 = k - 1
                       /\ (k < n => dg[k + 1][4] = 1024)
BootPhasePredicted(a, o) == IF a.host = "spinn" /\ st.phase = "unbooted" /\ WholeImageSent(o.dgrams) THEN "booted" ELSE st.phase
BootChecks(a, r, o) ==
    LET env == [BoardFollowsBootModel |-> o.phase_after = BootPhasePredicted(a, o)]
        target == IF a.host = "spinn" THEN st.phase ELSE Device(a.host)
        hw == FieldHalves(o.cfg, o.fields.hw_ver[1], o.fields.hw_ver[2])
        led == FieldHalves(o.cfg, o.fields.led0[1], o.fields.led0[2])
        wantHw == IF a.preset = 0 THEN o.defaults.hw_ver ELSE <<0, Preset(a.preset).hw_ver>>
        wantLed == IF a.preset = 0 THEN o.defaults.led0 ELSE Preset(a.preset).led0
        image == [BootSendsWholeImageToBootPort |-> /\ WholeImageSent(o.dgrams)
                                                   /\ \A i \in 1..Len(o.dst) : o.dst[i] = <<a.host, BootPort>>,
                  BootImageCarriesThePreset |-> Len(o.cfg) = 128 => hw = wantHw /\ led = wantLed]
    IN env @@
       (CASE target = "unbooted" ->
               image @@ [BootExitZero |-> r.status = 0,
                         \* the tool returns when the machine is up, not merely when the image has gone
                         BootWaitsUntilMachineIsUp |-> r.status = 0 => o.address_given]
          [] target \in {"dud", "silent"} -> image @@ [BootFailureReported |-> FailureReported(r)]
          [] target = "booted" -> [AlreadyBootedReported |-> FailureReported(r) /\ o.dgrams = <<>>]
          [] OTHER -> [NotBootableReported |-> FailureReported(r) /\ o.dgrams = <<>>])

\* ------------------------------------------------------------------ all together
Checks(e) ==
    IF e[1] = "end" THEN [TraceClosed |-> ei = Len(Tr.ev)]
    ELSE LET tool == e[2]  a == e[3]  r == e[4]  o == e[5] IN
         [NoUndocumentedException |-> r.raised = ""] @@
         (CASE tool = "ps" -> PsChecks(a, r, o)
            [] tool = "iobuf" -> IobufChecks(a, r, o)
            [] tool = "counters" -> CountersChecks(a, r, o)
            [] tool = "info" -> InfoChecks(a, r, o)
            [] tool = "power" -> PowerChecks(a, r, o)
            [] tool = "discover" -> DiscoverChecks(a, r, o)
            [] tool = "boot" -> BootChecks(a, r, o)
            [] OTHER -> [KnownTool |-> FALSE])

Apply(e) == IF e[1] = "end" THEN st
            ELSE CASE e[2] = "power" -> [st EXCEPT !.bmp = ToBmpState(e[5].post)]
                   [] e[2] = "boot" -> [st EXCEPT !.phase = BootPhasePredicted(e[3], e[5])]
                   [] OTHER -> st

Bad == LET ck == Checks(Ev) IN {c \in DOMAIN ck : ~ck[c]}
TInit == /\ tid \in 1..Len(Traces) /\ ei = 1 /\ verdict = <<>>
         /\ st = [phase |-> Traces[tid].phase0, bmp |-> BmpM!Empty]
TStep == /\ ei <= Len(Tr.ev) /\ verdict = <<>> /\ tid' = tid
         /\ LET bad == Bad
            IN IF bad = {} THEN ei' = ei + 1 /\ st' = Apply(Ev) /\ verdict' = verdict
               ELSE /\ PrintT("REJECT|" \o ToString(tid) \o "|" \o ToString(ei) \o "|" \o ToString(bad) \o "|"
                              \o (IF Ev[1] = "end" THEN "end" ELSE Ev[2] \o " args=" \o ToString(Ev[3])
                                                                 \o " status=" \o ToString(Ev[4].status)))
                    /\ verdict' = <<ei, bad>> /\ ei' = ei /\ st' = st
TSpec == TInit /\ [][TStep]_vars
=============================================================================
