---------------------------- MODULE RoutingTable ----------------------------
(***************************************************************************)
(* What table minimisation must preserve (C04).                            *)
(***************************************************************************)
EXTENDS KeyMask

\* Every key matched by orig is routed identically by new: by its first matching entry, which
\* then also lists the original's sources, or by default routing when the original entry was
\* a straight-through entry from a single link.
KeyPreserved(orig, new, k) ==
    LET i == FirstMatch(orig, k) IN
    i # 0 => LET j == FirstMatch(new, k) IN
             IF j # 0 THEN new[j].route = orig[i].route /\ SubsetBits(orig[i].srcs, new[j].srcs)
             ELSE Defaultable(orig[i])
Equivalent(orig, new, W) == \A k \in 0..(Pow2(W) - 1) : KeyPreserved(orig, new, k)
\* the keys (if any) on which they differ - for the replay artefact
Orthogonal(t) == \A i, j \in 1..Len(t) : i < j => ~IntersectsKM(t[i], t[j])
GeneralityOrdered(t, W) == \A i \in 1..(Len(t) - 1) : Generality(t[i], W) <= Generality(t[i+1], W)
KeysWithinMasks(t) == \A i \in 1..Len(t) : (t[i].key & t[i].mask) = t[i].key
=============================================================================
