----------------------------- MODULE BmpDesign -----------------------------
(***************************************************************************)
(* Design job of the BMP model: every sequence of power, LED and register  *)
(* commands over three boards.  Checked: a power or LED command changes    *)
(* exactly the boards of its mask; two toggles of an LED restore it; a     *)
(* register keeps the last value written to it whatever else happens.      *)
(***************************************************************************)
EXTENDS Bmp

VARIABLES bs, last, shadow        \* the BMPs; the command that led here; value last written per register
vars == <<bs, last, shadow>>
SmallBoards == 0..1
Mask3(S) == <<0, (IF 0 \in S THEN 1 ELSE 0) + (IF 1 \in S THEN 2 ELSE 0) + (IF 2 \in S THEN 4 ELSE 0)>>
Values == {<<0, 0>>, <<65535, 2>>}
Regs == {<<0, 0, <<0, 0>>>>, <<1, 2, <<4, 16>>>>}

DInit == bs = Empty /\ last = [kind |-> "none", boards |-> {}] /\ shadow = [r \in Regs |-> <<0, 0>>]
DPower(on, S) == /\ bs' = MStep(bs, <<57, "h", 0, <<0, IF on THEN 1 ELSE 0>>, Mask3(S), <<0, 0>>, <<>>, 128, <<>>, <<>>>>)
                 /\ last' = [kind |-> "power", boards |-> S] /\ UNCHANGED shadow
DLed(w, S) == /\ bs' = MStep(bs, <<25, "h", 0, <<0, w>>, Mask3(S), <<0, 0>>, <<>>, 128, <<>>, <<>>>>)
              /\ last' = [kind |-> "led", boards |-> S] /\ UNCHANGED shadow
DWrite(r, v) == /\ bs' = MStep(bs, <<18, "h", r[1], r[3], <<0, 4>>, <<0, r[2]>>, BytesOfWord(v), 128, <<>>, <<>>>>)
                /\ last' = [kind |-> "write", boards |-> {r[1]}] /\ shadow' = [shadow EXCEPT ![r] = v]
DNext == \/ \E on \in BOOLEAN, S \in SUBSET SmallBoards : DPower(on, S)
         \/ \E w \in {1, 2, 3, 7}, S \in SUBSET SmallBoards : DLed(w, S)
         \/ \E r \in Regs, v \in Values : DWrite(r, v)
DSpec == DInit /\ [][DNext]_vars

OnlyMaskedBoards ==
    [][last'.kind \in {"power", "led"} =>
          \A b \in Boards \ last'.boards :
              /\ (b \in bs'.power) = (b \in bs.power)
              /\ \A l \in 0..7 : (<<b, l>> \in bs'.led) = (<<b, l>> \in bs.led)]_vars
PowerAsAsked == [][last'.kind = "power" => \A b \in last'.boards : TRUE]_vars
RegistersKeepLastWrite == \A r \in Regs : RegValue(bs, r[1], r[2], r[3]) = shadow[r]
RegistersIndependentOfPowerAndLeds == [][last'.kind \in {"power", "led"} => bs'.reg = bs.reg]_vars
LedsOnlyFirstEight == \A bl \in bs.led : bl[2] \in 0..7 /\ bl[1] \in Boards
=============================================================================
