------------------------------ MODULE Multicast ------------------------------
(***************************************************************************)
(* The multicast network as the hardware executes it (C01).                *)
(* A packet with key k sits at a chip having arrived over in-link i (the   *)
(* link of THIS chip it came in through; Local = 6 for a packet injected   *)
(* by a core of the chip).  The router takes the first matching entry of   *)
(* the chip's table and copies the packet to every route of the entry:     *)
(* cores receive it, links carry it to the neighbouring chip where it      *)
(* arrives over the opposite link.  With no matching entry a packet from a *)
(* link is default-routed straight on (out of the link opposite to the one *)
(* it came in by); a locally injected packet with no entry is dropped.     *)
(*                                                                         *)
(* Propagate explores this to quiescence and reports what happened.        *)
(*   tabs  : function chip -> table (sequence of KeyMask entries); chips   *)
(*           not in its domain have an empty table                         *)
(*   m     : machine record of Hex.tla                                     *)
(*   exits : set of <<chip, link>> on which the packet is meant to leave   *)
(*           the modelled network (route-endpoint constraints)             *)
(***************************************************************************)
EXTENDS Hex, KeyMask

Local == 6
TableAt(tabs, c) == IF c \in DOMAIN tabs THEN tabs[c] ELSE <<>>
BitsOf(n, S) == { b \in S : (n \div Pow2(b)) % 2 = 1 }

\* what the router at pkt[1] does with the packet (key k, in-link pkt[2]):
\* [cores: set of core numbers, links: set of out-links, dropped: BOOLEAN]
RouterStep(tabs, pkt, k) ==
    LET t == TableAt(tabs, pkt[1])  j == FirstMatch(t, k) IN
    IF j # 0 THEN [cores |-> { r - 6 : r \in BitsOf(t[j].route, 6..23) },
                   links |-> BitsOf(t[j].route, 0..5), dropped |-> FALSE]
    ELSE IF pkt[2] = Local THEN [cores |-> {}, links |-> {}, dropped |-> TRUE]
    ELSE [cores |-> {}, links |-> {Opp(pkt[2])}, dropped |-> FALSE]

RECURSIVE Prop(_, _, _, _, _, _, _)
Prop(tabs, m, exits, k, frontier, seen, acc) ==
    IF frontier = {} \/ acc.loop THEN acc
    ELSE
      LET outs == [p \in frontier |-> RouterStep(tabs, p, k)]
          coresNow == UNION { { <<p[1], c>> : c \in outs[p].cores } : p \in frontier }
          \* a core reached by two packets of this round, or reached before
          dupNow == (\E p, q \in frontier : p # q /\ p[1] = q[1] /\ outs[p].cores \cap outs[q].cores # {})
                    \/ coresNow \cap acc.delivered # {}
          emits == UNION { { <<p[1], ln>> : ln \in outs[p].links } : p \in frontier }
          exitNow == emits \cap exits
          hops == emits \ exits
          deadNow == { h \in hops : ~HopOK(m, h[1], h[2]) }
          next == { <<Nbr(h[1], h[2], m.w, m.h), Opp(h[2])>> : h \in hops \ deadNow }
          acc2 == [delivered |-> acc.delivered \cup coresNow,
                   exited    |-> acc.exited \cup exitNow,
                   dup       |-> acc.dup \/ dupNow \/ (exitNow \cap acc.exited # {}),
                   dropped   |-> acc.dropped \/ (\E p \in frontier : outs[p].dropped),
                   dead      |-> acc.dead \cup deadNow,
                   loop      |-> next \cap (seen \cup frontier) # {},
                   hops      |-> acc.hops + Cardinality(hops)]
      IN Prop(tabs, m, exits, k, next \ (seen \cup frontier), seen \cup frontier, acc2)

Propagate(tabs, m, exits, src, k) ==
    Prop(tabs, m, exits, k, {<<src, Local>>}, {},
         [delivered |-> {}, exited |-> {}, dup |-> FALSE, dropped |-> FALSE, dead |-> {}, loop |-> FALSE, hops |-> 0])

\* the five statements of the property, on the outcome r of a propagation
NoDrop(r)           == ~r.dropped
LiveHardwareOnly(r) == r.dead = {}
NoCirculation(r)    == ~r.loop
AtMostOnce(r)       == ~r.dup
ExactDelivery(r, cores, exits) == r.delivered = cores /\ r.exited = exits
=============================================================================
