--------------------------- MODULE PacketsDesign ---------------------------
(***************************************************************************)
(* Design job for C15: field isolation and round trip of the layout.  Each *)
(* header field sweeps its full width while every other field is all-zeros *)
(* or all-ones; a step changes exactly one field, and the encoded bytes    *)
(* may differ only in the bits of that field.                               *)
(***************************************************************************)
EXTENDS Packets, TLC

Widths == [reply |-> 1, tag |-> 255, dport |-> 7, dcpu |-> 31, sport |-> 7, scpu |-> 31,
           dx |-> 255, dy |-> 255, sx |-> 255, sy |-> 255, cmd |-> 65535, seq |-> 65535]
Fields == DOMAIN Widths
ArgVals == { <<>>, <<255, 255, 255, 255>>, <<1, 2, 3, 4>> }
Payloads == { <<>>, <<1, 2, 3>>, <<1, 2, 3, 4, 5>> }
\* 8-bit and narrower fields sweep their full width; the 16-bit ones sweep both ends of the range
\* and every value whose two bytes are equal
Sweep(f) == IF Widths[f] <= 255 THEN 0..Widths[f]
            ELSE (0..260) \cup (65270..65535) \cup { 257 * k : k \in 0..255 }

VARIABLES pkt, changed      \* changed = the field altered by the last step ("" initially)

Base(v) == [f \in Fields |-> IF v = 0 THEN 0 ELSE Widths[f]]
DInit == /\ \E v \in {0, 1} : \E a1, a2, a3 \in ArgVals : \E d \in Payloads :
              \* present arguments form a prefix (what a decoder can reproduce)
              /\ (a1 = <<>> => a2 = <<>>) /\ (a2 = <<>> => a3 = <<>>)
              /\ pkt = Base(v) @@ [args |-> <<a1, a2, a3>>, data |-> d]
         /\ changed = ""
SetField(f, x) == /\ changed = ""            \* one sweep step per behaviour
                  /\ pkt' = [pkt EXCEPT ![f] = x] /\ changed' = f
DNext == \E f \in Fields : \E x \in Sweep(f) : SetField(f, x)
DSpec == DInit /\ [][DNext]_<<pkt, changed>>

NArgs(p) == Cardinality({i \in 1..3 : p.args[i] # <<>>})
RoundTripSCP == DecodeSCP(EncodeSCP(pkt), NArgs(pkt)) = pkt
RoundTripSDP ==
    LET p == [f \in (DOMAIN pkt) \ {"cmd", "seq", "args"} |-> pkt[f]] IN DecodeSDP(EncodeSDP(p)) = p
\* with fewer arguments allowed, the remaining argument bytes turn up in front of the payload
FewerArgs ==
    \A k \in 0..NArgs(pkt) :
        LET d == DecodeSCP(EncodeSCP(pkt), k)
        IN  /\ \A i \in 1..3 : d.args[i] = IF i <= k THEN pkt.args[i] ELSE <<>>
            /\ Len(d.data) = Len(pkt.data) + 4 * (NArgs(pkt) - k)
\* byte positions a field may influence
Where == [reply |-> {3}, tag |-> {4}, dport |-> {5}, dcpu |-> {5}, sport |-> {6}, scpu |-> {6},
          dy |-> {7}, dx |-> {8}, sy |-> {9}, sx |-> {10}, cmd |-> {11, 12}, seq |-> {13, 14}]
Isolation ==
    [][LET a == EncodeSCP(pkt)  b == EncodeSCP(pkt')
       IN  Len(a) = Len(b) /\ \A i \in 1..Len(a) : a[i] # b[i] => i \in Where[changed']]_<<pkt, changed>>
Padding == LET b == EncodeSCP(pkt) IN b[1] = 0 /\ b[2] = 0 /\ \A i \in 1..Len(b) : b[i] \in Byte
=============================================================================
