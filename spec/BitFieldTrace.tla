---------------------------- MODULE BitFieldTrace ----------------------------
(***************************************************************************)
(* Trace specification for C08.  One trace = one history of operations on  *)
(* one rig BitField and the bit fields derived from it.                    *)
(* Setup: Tr.len = length of the bit field.                                *)
(* Values, keys and masks are sequences of one-bit positions; a scope is a *)
(* sequence of <<name, value>>; an optional item is <<>> or <<item>>.      *)
(* Events:                                                                 *)
(*  <<"add", scope, id, lenopt, startopt, tags, result>>                   *)
(*        add_field through the bit field holding the values `scope`;      *)
(*        result "ok" or the exception class                               *)
(*  <<"call", scope, newvalues, result>>                                   *)
(*        derive a bit field with more values set                          *)
(*  <<"assign", result>>          assign_fields()                          *)
(*  <<"scope", scope, rows, maskopt, keyopt, tagrows>>                     *)
(*        after a successful assign_fields, once for every bit field       *)
(*        derived so far: what it reports                                  *)
(*        row    <<name, "ok", loc, len, tags, fieldmask, fieldkeyopt>>    *)
(*               or <<name, "raise", class>> for every field it shows      *)
(*        tagrow <<tag, "ok", mask, keyopt>> or <<tag, "raise", class>>    *)
(*  <<"endtable">>  all derived bit fields have been reported              *)
(*  <<"retable">>   the caller reads the table again WITHOUT another       *)
(*        assign_fields: a layout was reported earlier and every field     *)
(*        defined since has an explicit length and position, so every      *)
(*        field is still assigned (AllPositioned verifies that claim);     *)
(*        "scope" events and "endtable" follow as after assign_fields      *)
(*  <<"end">>                                                              *)
(* State st: the fields defined, the scopes derived, the layout reported   *)
(* so far, whether a layout was attempted, the table being reported.       *)
(***************************************************************************)
EXTENDS BitField, Json, IOUtils

Traces == JsonDeserialize(IOEnv.TRACE_FILE)
VARIABLES tid, ei, st, verdict
vars == <<tid, ei, st, verdict>>
Tr == Traces[tid]
Ev == Tr.ev[ei]
BL == Tr.len

St0 == [fields |-> {}, handles |-> {{}}, layout |-> {}, attempted |-> FALSE, open |-> FALSE,
        seen |-> {}, shown |-> {}]

Opt(o, dflt) == IF o = <<>> THEN dflt ELSE o[1]

\* ------------------------------------------------------------------ add
NewField(e) == [id |-> e[3], cond |-> SeqSet(e[2]), flen |-> Opt(e[4], 0), fstart |-> Opt(e[5], -1),
                tags |-> SeqSet(e[6]), need |-> 1]
AddChecks(e) ==
    LET new == NewField(e) IN
    IF e[7] = "ok"
    THEN [KnownHandle |-> new.cond \in st.handles, TableClosed |-> ~st.open,
          \* needed for "the field called x in this scope" to mean anything
          NameClashRejected |-> ~\E f \in st.fields : f.id = new.id /\ Compatible(f.cond, new.cond),
          RejectsBadExplicit |-> ~DefinitelyBad(new, st.fields, st.layout, BL)]
    ELSE [KnownHandle |-> new.cond \in st.handles, TableClosed |-> ~st.open]
AddApply(e) == IF e[7] = "ok" THEN [st EXCEPT !.fields = @ \cup {NewField(e)}] ELSE st

\* ------------------------------------------------------------------ call
KnownLen(f) == LET x == { y \in st.layout : SameField(y, f) }
               IN  IF x # {} THEN (CHOOSE y \in x : TRUE).len ELSE f.flen       \* 0 = not known yet
CallChecks(e) ==
    LET V0 == SeqSet(e[2])  N == SeqSet(e[3])  V == V0 \cup N IN
    IF e[4] = "ok"
    THEN [KnownHandle |-> V0 \in st.handles,
          FieldInScope |-> /\ Consistent(V) /\ Cardinality(Names(N)) = Cardinality(N)
                           /\ \A p \in N : Cardinality(Resolve(st.fields, V, p[1])) = 1,
          \* a value accepted for a field whose length is already settled fits it
          WideEnough |-> \A p \in N : \A f \in Resolve(st.fields, V, p[1]) :
                             KnownLen(f) > 0 => BitsFor(SeqSet(p[2])) <= KnownLen(f)]
    ELSE [KnownHandle |-> V0 \in st.handles]
CallApply(e) ==
    LET V0 == SeqSet(e[2])  N == SeqSet(e[3])  V == V0 \cup N IN
    IF e[4] # "ok" THEN st
    ELSE [st EXCEPT !.handles = @ \cup {V},
                    !.fields = { IF f.cond \subseteq V /\ f.id \in Names(N)
                                 THEN [f EXCEPT !.need = MaxI(@, BitsFor(SeqSet(ValOf(N, f.id))))]
                                 ELSE f : f \in st.fields }]

\* ------------------------------------------------------------------ assign
\* the success guarantee applies to the first layout of a hierarchy without explicit positions
\* whose co-enabled widths fit
Guaranteed == ~st.attempted /\ NoExplicitStart(st.fields) /\ Fits(st.fields, BL)
AssignChecks(e) ==
    IF e[2] = "ok" THEN [TableClosed |-> ~st.open]
    ELSE LET g == Guaranteed
             nested == TreeShaped(st.fields)
             full == MaxLoad(st.fields) = BL IN
         [TableClosed |-> ~st.open,
          \* tree-shaped hierarchy, some co-enabled widths sum to exactly the length
          MustSucceedExactFit |-> ~(g /\ nested /\ full),
          \* tree-shaped hierarchy, at least one bit to spare on every path
          MustSucceed |-> ~(g /\ nested /\ ~full),
          \* independent scopes cross (a=0 with b=1, or a field under a=1 & b=1): contiguous packing can fragment
          MustSucceedCrossScopes |-> ~(g /\ ~nested)]
AssignApply(e) == [st EXCEPT !.attempted = TRUE, !.open = (e[2] = "ok"), !.seen = {}, !.shown = {}]

\* ------------------------------------------------------------------ scope (one row of the table)
ScopeChecks(e) ==
    LET V == SeqSet(e[2])  rows == SeqSet(e[3])  mask == SeqSet(Opt(e[4], <<>>))  keyopt == e[5]  tagrows == SeqSet(e[6])
        En == EnabledIn(st.fields, V)
        structural == [TableAfterAssign |-> st.open,
                       KnownHandle |-> V \in st.handles,
                       \* the fields a scope shows are those whose conditions hold, each once
                       ScopeFields |-> /\ { r[1] : r \in rows } = { f.id : f \in En }
                                       /\ Cardinality(rows) = Cardinality(En) /\ Len(e[3]) = Cardinality(En),
                       \* after a successful assignment every field has a position
                       Reported |-> \A r \in rows : r[2] = "ok"]
    IN IF \E c \in DOMAIN structural : ~structural[c] THEN structural
       ELSE
       LET FieldOf(r) == CHOOSE f \in En : f.id = r[1]
           Ent == { [id |-> r[1], cond |-> FieldOf(r).cond, loc |-> r[3], len |-> r[4]] : r \in rows }
           HasVal(r) == r[1] \in Names(V)
           Val(r) == SeqSet(ValOf(V, r[1]))
           Carries(r, t) == t \in TagsOf(st.fields, FieldOf(r))
           complete == \A r \in rows : HasVal(r)
       IN [
        \* co-enabled fields (seen in this or any other scope) are disjoint and inside the bit field
        NoOverlap |-> /\ \A x \in Ent : InRange(x.loc, x.len, BL)
                      /\ \A x \in Ent : \A y \in st.layout \cup Ent :
                            (~SameField(x, y) /\ Compatible(x.cond, y.cond)) => Disjoint(x.loc, x.len, y.loc, y.len),
        \* a field has one position, whichever scope reports it and whenever
        StableLayout |-> \A x \in Ent : \A y \in st.layout : SameField(x, y) => (x.loc = y.loc /\ x.len = y.len),
        WideEnough |-> \A r \in rows : FieldOf(r).need <= r[4],
        ReadBack |-> /\ \A r \in rows : HasVal(r) =>
                            (r[7] # <<>> /\ ReadBackOK(SeqSet(r[7][1]), r[3], r[4], Val(r)))
                     /\ complete => (keyopt # <<>> /\ \A r \in rows : ReadBackOK(SeqSet(keyopt[1]), r[3], r[4], Val(r)))
                     /\ \A tr \in tagrows : (tr[2] = "ok" /\ tr[4] # <<>>) =>
                            \A r \in rows : (Carries(r, tr[1]) /\ HasVal(r)) =>
                                  ReadBackOK(SeqSet(tr[4][1]), r[3], r[4], Val(r)),
        MaskIsUnion |-> /\ \A r \in rows : SeqSet(r[6]) = Bits(r[3], r[4])
                        /\ e[4] # <<>> /\ mask = UNION { Bits(r[3], r[4]) : r \in rows }
                        /\ \A tr \in tagrows :
                              IF tr[2] = "ok"
                              THEN SeqSet(tr[3]) = UNION { Bits(r[3], r[4]) : r \in { r \in rows : Carries(r, tr[1]) } }
                              ELSE ~\E r \in rows : Carries(r, tr[1]),
        \* the tags of a field: its own and those of every field that depends on it
        TagsClosed |-> \A r \in rows : SeqSet(r[5]) = TagsOf(st.fields, FieldOf(r)),
        KeysDistinct |-> (complete /\ keyopt # <<>>) =>
                            \A s \in st.seen : s.scope # V => ~KeysMatch(s.key, s.mask, SeqSet(keyopt[1]), mask)]
ScopeApply(e) ==
    LET V == SeqSet(e[2])  rows == SeqSet(e[3])
        En == EnabledIn(st.fields, V)
        FieldOf(r) == CHOOSE f \in En : f.id = r[1]
        Ent == { [id |-> r[1], cond |-> FieldOf(r).cond, loc |-> r[3], len |-> r[4]] : r \in rows }
        complete == \A r \in rows : r[1] \in Names(V)
    IN [st EXCEPT !.layout = @ \cup Ent, !.shown = @ \cup {V},
                  !.seen = IF complete /\ e[5] # <<>>
                           THEN @ \cup {[scope |-> V, key |-> SeqSet(e[5][1]), mask |-> SeqSet(Opt(e[4], <<>>))]} ELSE @]

Checks(e) ==
  CASE e[1] = "add" -> AddChecks(e)
    [] e[1] = "call" -> CallChecks(e)
    [] e[1] = "assign" -> AssignChecks(e)
    [] e[1] = "scope" -> ScopeChecks(e)
    [] e[1] = "endtable" ->
         [TableAfterAssign |-> st.open,
          AllHandlesReported |-> st.handles \subseteq st.shown,
          AllFieldsReported |-> \A f \in st.fields : \E x \in st.layout : SameField(x, f)]
    [] e[1] = "retable" ->
         [TableClosed |-> ~st.open,
          \* (of the driver) after field assignment: some layout was reported, and every field is in it or was
          \* defined with both a length and a position
          AllPositioned |-> /\ st.layout # {}
                            /\ \A f \in st.fields : \/ f.flen > 0 /\ f.fstart >= 0
                                                    \/ \E x \in st.layout : SameField(x, f)]
    [] e[1] = "end" -> [TableClosed |-> ~st.open]
    [] OTHER -> [UnknownEvent |-> FALSE]

Apply(e) ==
  CASE e[1] = "add" -> AddApply(e)
    [] e[1] = "call" -> CallApply(e)
    [] e[1] = "assign" -> AssignApply(e)
    [] e[1] = "scope" -> ScopeApply(e)
    [] e[1] = "endtable" -> [st EXCEPT !.open = FALSE]
    [] e[1] = "retable" -> [st EXCEPT !.open = TRUE, !.seen = {}, !.shown = {}]
    [] OTHER -> st

Bad == LET ck == Checks(Ev) IN {c \in DOMAIN ck : ~ck[c]}
TInit == tid \in 1..Len(Traces) /\ ei = 1 /\ st = St0 /\ verdict = <<>>
TStep == /\ ei <= Len(Tr.ev) /\ verdict = <<>> /\ tid' = tid
         /\ IF Bad = {} THEN ei' = ei + 1 /\ st' = Apply(Ev) /\ verdict' = verdict
            ELSE /\ PrintT("REJECT|" \o ToString(tid) \o "|" \o ToString(ei) \o "|" \o ToString(Bad))
                 /\ verdict' = <<ei, Bad>> /\ ei' = ei /\ st' = st
TSpec == TInit /\ [][TStep]_vars
=============================================================================
