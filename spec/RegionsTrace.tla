---------------------------- MODULE RegionsTrace ----------------------------
(***************************************************************************)
(* Trace specification for C12.  Events:                                   *)
(*  <<"ff", targets, pairs>>  compress_flood_fill_regions(targets) = pairs *)
(*       targets: sequence of <<x, y, cores>> (cores a sequence of 0..17)  *)
(*       pairs:   sequence of <<b3, b2, b1, b0, coremask>>                 *)
(*  <<"chip", x, y, level, <<b3, b2, b1, b0>>>>  get_region_for_chip       *)
(*  <<"refill", targets, got, pairs>>  the pairs of a LATER flood fill of  *)
(*       the same binary within one load (a retry after a fault): what is  *)
(*       requested of it is what is still missing, i.e. the cores of       *)
(*       `targets` (the binary's targets in the call) that the machine has *)
(*       not loaded in this binary's earlier fills; got: sequence of       *)
(*       <<x, y, core>> the machine reported as loaded by those fills.     *)
(* Exactness is decided by covering + counting: every requested (chip,     *)
(* core) is selected by some pair, and the pairs select in total exactly as *)
(* many (chip, core) combinations as were requested - so nothing is        *)
(* missing, nothing extra and nothing selected twice.                      *)
(***************************************************************************)
EXTENDS Regions, Json, IOUtils

Traces == JsonDeserialize(IOEnv.TRACE_FILE)
VARIABLES tid, ei, verdict
vars == <<tid, ei, verdict>>
Tr == Traces[tid]
Ev == Tr.ev[ei]

Word(pr) == <<pr[1], pr[2], pr[3], pr[4]>>

\* what a retry fill is asked for: the targets less the cores already loaded (a chip may be left with no core)
Remaining(tg, got) ==
  LET gs == {got[i] : i \in 1..Len(got)} IN
  [i \in 1..Len(tg) |-> <<tg[i][1], tg[i][2],
                          SelectSeq(tg[i][3], LAMBDA cr : <<tg[i][1], tg[i][2], cr>> \notin gs)>>]

FillChecks(tg, pairs) ==
        [NothingMissing |-> \A i \in 1..Len(tg) : \A j \in 1..Len(tg[i][3]) :
                               \E k \in 1..Len(pairs) :
                                  /\ CoversChip(Word(pairs[k]), tg[i][1], tg[i][2])
                                  /\ Bit(pairs[k][5], tg[i][3][j]),
         NothingExtraOrTwice |-> SumSeq([k \in 1..Len(pairs) |-> PairCount(pairs[k])], 1)
                                   = SumSeq([i \in 1..Len(tg) |-> Len(tg[i][3])], 1),
         WellFormedWords |-> \A k \in 1..Len(pairs) : WellFormed(Word(pairs[k])) /\ pairs[k][5] \in 1..262143
                                                      /\ Select(Word(pairs[k])) > 0,
         StrictlyIncreasing |-> \A k \in 1..(Len(pairs) - 1) : LexLess(Key(pairs[k]), Key(pairs[k+1]), 1)]

Checks(e) ==
  CASE e[1] = "ff" -> FillChecks(e[2], e[3])
    [] e[1] = "refill" -> FillChecks(Remaining(e[2], e[3]), e[4])
    [] e[1] = "chip" ->
        LET x == e[2]  y == e[3]  lv == e[4]  wd == e[5] IN
        [ChipRegionCovers |-> CoversChip(wd, x, y) /\ Level(wd) = lv /\ WellFormed(wd),
         ChipRegionSingle |-> PopCount(Select(wd)) = 1 /\ (lv = 3 => ChipCount(wd) = 1)]
    [] OTHER -> [UnknownEvent |-> FALSE]

Bad == {c \in DOMAIN Checks(Ev) : ~Checks(Ev)[c]}
TInit == tid \in 1..Len(Traces) /\ ei = 1 /\ verdict = <<>>
TStep == /\ ei <= Len(Tr.ev) /\ verdict = <<>> /\ tid' = tid
         /\ IF Bad = {} THEN ei' = ei + 1 /\ verdict' = verdict
            ELSE /\ PrintT("REJECT|" \o ToString(tid) \o "|" \o ToString(ei) \o "|" \o ToString(Bad))
                 /\ verdict' = <<ei, Bad>> /\ ei' = ei
TSpec == TInit /\ [][TStep]_vars
=============================================================================
