------------------------------ MODULE LoadApp ------------------------------
(***************************************************************************)
(* Application loading by flood fill (C09): what one fill must look like,  *)
(* what a chip does with it, and what "loaded" means.  Pure operators.     *)
(*                                                                         *)
(* Written from the documentation quoted in rig (flood_fill_aplx,          *)
(* _send_ffcs, load_application docstrings; consts.AppState / AppFlags /   *)
(* AppSignal; "Managing Big SpiNNaker Machines" for region words through   *)
(* module Regions), not from the loader's code:                            *)
(*  - a fill is: a start packet announcing a fill id and a block count;    *)
(*    core-select packets (region word, core mask), in ascending order of  *)
(*    (region, core mask); data packets carrying numbered blocks of whole  *)
(*    words that fit the SCP data buffer, each to be placed at an address; *)
(*    an end packet carrying the application id and the load flags.        *)
(*  - a chip that hears the start packet ORs the core mask of every select *)
(*    whose region covers it into a local mask, stores the blocks, and at  *)
(*    the end packet - if it has every announced block - loads the image   *)
(*    onto the application cores (1 .. ncores-1) in its mask, under the    *)
(*    given application id, in state wait if the wait flag is set, else    *)
(*    run.  A chip that missed the start packet ignores the whole fill.    *)
(*  - the start signal moves every core of the application that is in      *)
(*    state wait to state run; the count query returns the number of       *)
(*    application cores in a state under an application id.                *)
(*                                                                         *)
(* A core is <<x, y, p>>; a core's condition is a record                   *)
(* [state, app, img]; img identifies an image (how is up to the user of    *)
(* this module: an index into a table of byte sequences in the trace       *)
(* module, a (binary, blocks) pair in the design module).                  *)
(* Select packets are <<b3, b2, b1, b0, coremask>> as in module Regions.   *)
(***************************************************************************)
EXTENDS Regions

StWait == 5
StRun  == 7
StIdle == 15
SigStart == 3
FlagWait == 1

\* ------------------------------------------------------------------ packets of one fill
\* the fill identifier: the loader's counter 1..126, sent doubled
PidOK(pid) == pid \in 2..252 /\ pid % 2 = 0
\* a data block: at least one word, whole words, within the buffer; the size field is words - 1
BlockFits(nbytes, buf) == nbytes >= 1 /\ nbytes <= buf
WholeWords(nbytes, sizefield) == nbytes % 4 = 0 /\ sizefield = (nbytes \div 4) - 1
\* ascending order of select packets
SelWord(sel) == <<sel[1], sel[2], sel[3], sel[4]>>
SelBefore(sa, sb) == LexLess(Key(sa), Key(sb), 1)
\* distance between two 32-bit addresses given as <<high half, low half>>
AddrOffset(addr, base) == (addr[1] - base[1]) * 65536 + (addr[2] - base[2])

\* ------------------------------------------------------------------ what the machine does
CoreBits(mask) == { p \in 0..17 : Bit(mask, p) }
\* cores of chip (x, y) named by a sequence of select packets
SelectedOn(sels, x, y) ==
    UNION { CoreBits(sels[k][5]) : k \in { k \in 1..Len(sels) : CoversChip(SelWord(sels[k]), x, y) } }
\* the (chip, core) pairs a sequence of select packets names among a set of chips <<x, y>>
SelectedSet(sels, chips) == UNION { { <<ch[1], ch[2], p>> : p \in SelectedOn(sels, ch[1], ch[2]) } : ch \in chips }
\* cores a chip with n cores (0 = monitor) loads at the end packet
CommitOn(sels, x, y, n) == { p \in SelectedOn(sels, x, y) : p >= 1 /\ p < n }
CommitState(flags) == IF flags % 2 = FlagWait THEN StWait ELSE StRun
Loaded(app, flags, img) == [state |-> CommitState(flags), app |-> app, img |-> img]
\* the start signal on one core
AfterSignal(core, sig, app) ==
    IF sig = SigStart /\ core.app = app /\ core.state = StWait THEN [core EXCEPT !.state = StRun] ELSE core
\* the count query over a function core -> condition
CountIn(cores, state, app) == Cardinality({ c \in DOMAIN cores : cores[c].state = state /\ cores[c].app = app })

\* ------------------------------------------------------------------ what "loaded" means
\* the core is loaded: it holds the image under the application id and is at the initial barrier (or past it)
HoldsLoaded(core, app, img) == core.state \in {StWait, StRun} /\ core.app = app /\ core.img = img
\* what a normal return promises for a requested core
HoldsFinally(core, app, img, wait) ==
    core.state = (IF wait THEN StWait ELSE StRun) /\ core.app = app /\ core.img = img

\* concatenation of a sequence of sequences
Flatten(q) == LET F[i \in 0..Len(q)] == IF i = 0 THEN <<>> ELSE F[i - 1] \o q[i] IN F[Len(q)]
=============================================================================
