--------------------------- MODULE SessionDesign ---------------------------
(***************************************************************************)
(* Design job for the session model (beyond the listed properties): every  *)
(* interleaving of the calls a host can make about two applications on a   *)
(* small machine - load, signals, the applications' own progress, SDRAM    *)
(* allocation and freeing, router-entry loading and clearing, IP tags -    *)
(* with each call composed of the machine steps of Session.tla exactly as  *)
(* rig composes them (allocate, then load at the position returned, both   *)
(* in the same application's name).                                        *)
(*                                                                         *)
(* Variant = "stop-cores-only"  the stop signal only halts cores           *)
(*           "load-other-app"   entries are loaded under another id than   *)
(*                              the one their positions were allocated to  *)
(* are wrong designs that must be refuted (NoLeak / MachineInv).           *)
(***************************************************************************)
EXTENDS Session

CONSTANTS ChipSet,        \* set of <<x, y, number of cores>>
          Apps, Tags, Sizes, Heap, MaxEntries, MaxAllocs, MaxOwn, IpTags, Variant

VARIABLES ms,             \* the machine state
          who             \* [kind, app] of the step that led here
vars == <<ms, who>>

SimChips == {<<0, 0, 4>>, <<1, 0, 3>>}
SmallChips == {<<0, 0, 3>>, <<1, 0, 2>>}        \* for the cfgs (which cannot write tuples)
TinyChips == {<<0, 0, 2>>, <<1, 0, 1>>}
OneChip == {<<0, 0, 2>>}
AppCores == CoresOf(ChipSet)
XY == { <<ch[1], ch[2]>> : ch \in ChipSet }
HeldByOther(xyp, app) == CoreSt(ms, xyp)[1] # StIdle /\ CoreSt(ms, xyp)[2] # app
Ent(pos, n) == <<pos, 0, n, 0, 15, 0, 1>>

DInit == ms = Empty /\ who = [kind |-> "init", app |-> 0]

DLoad(app, cores, wait) ==
    /\ cores # {} /\ \A k \in cores : ~HeldByOther(k, app)
    \* (rig loads the cores waiting and, unless asked to leave them so, sends the start signal - which reaches
    \* every waiting core of the application, also those of earlier loads)
    /\ ms' = IF wait THEN Loaded(ms, cores, app, TRUE) ELSE Signal(Loaded(ms, cores, app, TRUE), 3, app)
    /\ who' = [kind |-> "load", app |-> app]
DSignal(name, app) ==
    /\ ms' = IF name = "stop" /\ Variant = "stop-cores-only"
             THEN [ms EXCEPT !.core = { c \in @ : c[5] # app }]
             ELSE Signal(ms, SigCode[name], app)
    /\ who' = [kind |-> name, app |-> app]
DProgress(c, state) ==
    /\ c \in ms.core /\ c[4] = StRun /\ state \in {StSync0, StSync1, StExit, StRte}
    /\ ms' = OwnProgress(ms, <<c[1], c[2], c[3]>>, state)
    /\ who' = [kind |-> "progress", app |-> c[5]]
DAlloc(xy, size, tag, app) ==
    /\ Cardinality(ms.alloc) < MaxAllocs
    /\ ms' = SdramAlloc(ms, Heap, xy[1], xy[2], size, tag, app)
    /\ who' = [kind |-> "alloc", app |-> app]
DFree(a) ==
    /\ a \in ms.alloc
    /\ ms' = SdramFree(ms, a[1], a[2], a[3])
    /\ who' = [kind |-> "free", app |-> a[6]]
DLoadEntries(xy, n, app, other) ==
    /\ Cardinality(ms.own) + n <= MaxOwn
    /\ LET b  == RtrBase(ms, xy[1], xy[2], n)
           s1 == RtrAlloc(ms, xy[1], xy[2], n, app)
       IN ms' = IF b = 0 THEN s1
                ELSE RtrLoad(s1, xy[1], xy[2], IF Variant = "load-other-app" THEN other ELSE app,
                             [i \in 1..n |-> Ent(b + i - 1, i)])
    /\ who' = [kind |-> "entries", app |-> app]
DClear(xy, app) ==
    /\ ms' = RtrClear(ms, xy[1], xy[2], app)
    /\ who' = [kind |-> "clear", app |-> app]
DIptag(xy, tag, set) ==
    /\ ms' = IF set THEN IptagSet(ms, xy[1], xy[2], tag, <<1, 2>>, 17893) ELSE IptagClear(ms, xy[1], xy[2], tag)
    /\ who' = [kind |-> "iptag", app |-> 0]

DNext == \/ \E app \in Apps, cores \in SUBSET AppCores, wait \in BOOLEAN : DLoad(app, cores, wait)
         \/ \E name \in {"stop", "start", "sync0", "sync1", "pause", "cont", "exit"}, app \in Apps : DSignal(name, app)
         \/ \E c \in ms.core, state \in {StSync0, StSync1, StExit, StRte} : DProgress(c, state)
         \/ \E xy \in XY, size \in Sizes, tag \in Tags, app \in Apps : DAlloc(xy, size, tag, app)
         \/ \E a \in ms.alloc : DFree(a)
         \/ \E xy \in XY, n \in 1..MaxEntries, app \in Apps, other \in Apps : DLoadEntries(xy, n, app, other)
         \/ \E xy \in XY, app \in Apps : DClear(xy, app)
         \/ \E xy \in XY, tag \in IpTags, set \in BOOLEAN : DIptag(xy, tag, set)
DSpec == DInit /\ [][DNext]_vars

----------------------------------------------------------------------------
Inv == MachineInv(ms, Heap)
\* a call made in the name of one application changes nothing that another one holds
Isolation == [][\A a \in Apps : a # who'.app => Holdings(ms', a) = Holdings(ms, a)]_vars
\* nothing of an application outlives its stop signal
NoLeak == [][who'.kind = "stop" => Holdings(ms', who'.app) = NoHoldings]_vars
\* the barrier signals release exactly the cores waiting at that barrier; start exactly the cores loaded waiting
Releases == [][\A c \in ms.core :
                  LET now == CoreSt(ms', <<c[1], c[2], c[3]>>)
                  IN (c[5] = who'.app /\ who'.kind \in {"sync0", "sync1", "start", "pause", "cont"}) =>
                        now = <<CASE who'.kind = "sync0" /\ c[4] = StSync0 -> StRun
                                  [] who'.kind = "sync1" /\ c[4] = StSync1 -> StRun
                                  [] who'.kind = "start" /\ c[4] = StWait -> StRun
                                  [] who'.kind = "pause" /\ c[4] = StRun -> StPause
                                  [] who'.kind = "cont" /\ c[4] = StPause -> StRun
                                  [] OTHER -> c[4], c[5]>>]_vars
\* IP tags belong to the chip, not to an application: only the IP-tag calls change them
IptagsOutliveApplications == [][who'.kind # "iptag" => ms'.iptag = ms.iptag]_vars
\* memory handed out stays where it is until freed or stopped: a live block never moves or changes size
BlocksStable == [][\A b \in ms.alloc : b \in ms'.alloc \/ who'.kind \in {"free", "stop"}]_vars
=============================================================================
