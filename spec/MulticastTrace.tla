--------------------------- MODULE MulticastTrace ---------------------------
(***************************************************************************)
(* Trace specification for C01.  One trace = one run of the whole pipeline *)
(* (place, allocate, route, table generation, minimisation):               *)
(*   w, h, dead, deadlinks       the machine                               *)
(*   kw                          active key bits (keys/masks are given as  *)
(*                               16-bit halves; the upper half and bits    *)
(*                               kw..15 must be fully masked zeros)        *)
(*   tables : seq of <<x, y, entries>>, entries = seq of                   *)
(*            <<keylo, keyhi, masklo, maskhi, route, srcs>>                *)
(*   nets   : seq of [src |-> <<x, y>>, cores |-> seq of <<x, y, core>>,   *)
(*                    exits |-> seq of <<x, y, link>>]                     *)
(* Events: <<"inject", net, keylo>> - a packet with that key is injected   *)
(* at the net's source chip and followed to quiescence by Propagate;       *)
(* finally <<"done">>.                                                     *)
(***************************************************************************)
EXTENDS Multicast, Json, IOUtils

Traces == JsonDeserialize(IOEnv.TRACE_FILE)
VARIABLES tid, ei, st, verdict
vars == <<tid, ei, st, verdict>>
Tr == Traces[tid]
Ev == Tr.ev[ei]

EntryOf(q) == [key |-> q[1], mask |-> q[3], route |-> q[5], srcs |-> q[6]]
SetupOf(tr) ==
    [m |-> [w |-> tr.w, h |-> tr.h, dead |-> { tr.dead[i] : i \in 1..Len(tr.dead) },
            deadlinks |-> { tr.deadlinks[i] : i \in 1..Len(tr.deadlinks) }],
     tabs |-> [c \in { <<tr.tables[i][1], tr.tables[i][2]>> : i \in 1..Len(tr.tables) } |->
                 LET i == CHOOSE i \in 1..Len(tr.tables) : <<tr.tables[i][1], tr.tables[i][2]>> = c
                 IN [j \in 1..Len(tr.tables[i][3]) |-> EntryOf(tr.tables[i][3][j])]],
     \* every entry keeps the fixed upper bits: key 0, fully masked
     fixedok |-> \A i \in 1..Len(tr.tables) : \A j \in 1..Len(tr.tables[i][3]) :
                    LET q == tr.tables[i][3][j] IN
                    q[2] = 0 /\ q[4] = 65535 /\ q[1] < Pow2(tr.kw) /\ q[3] \div Pow2(tr.kw) = Pow2(16 - tr.kw) - 1]

Checks(e) ==
  CASE e[1] = "inject" ->
        LET net == Tr.nets[e[2]]
            exits == { <<<<net.exits[i][1], net.exits[i][2]>>, net.exits[i][3]>> : i \in 1..Len(net.exits) }
            cores == { <<<<net.cores[i][1], net.cores[i][2]>>, net.cores[i][3]>> : i \in 1..Len(net.cores) }
            r == Propagate(st.tabs, st.m, exits, net.src, e[3])
        IN [FixedBits        |-> st.fixedok,
            NoDrop           |-> NoDrop(r),
            LiveHardwareOnly |-> LiveHardwareOnly(r),
            NoCirculation    |-> NoCirculation(r),
            AtMostOnce       |-> AtMostOnce(r),
            ExactDelivery    |-> (NoCirculation(r) /\ LiveHardwareOnly(r)) => ExactDelivery(r, cores, exits)]
    \* (end-to-end deployment, harness/props/deploy.py: the tables above are the entries INSTALLED in the simulated
    \* machine's routers, and these events report what its cores run after load_application)
    \* <<"core", x, y, p, binary wanted, state, application id, binary held, state before>>
    [] e[1] = "core" -> [SinkCoreRunsItsBinary |-> e[6] = 7 /\ e[7] = Tr.app /\ e[8] = e[5],
                         CoreWasFree           |-> e[9] = 15]
    \* <<"spare", x, y, p, state before, application before, state after, application after>>
    [] e[1] = "spare" -> [UnrequestedCoreUntouched |-> <<e[5], e[6]>> = <<e[7], e[8]>>]
    \* tables minimised to the space the probe reported, and a machine that accepts every command, load
    \* the pipeline may end with one of its documented errors (such runs produce no trace); anything else is judged
    [] e[1] = "raise" -> [OnlyDocumentedErrors |-> FALSE]
    [] e[1] = "failed" -> [DeploymentCompletes |-> FALSE]
    [] e[1] = "done" -> [Closed |-> TRUE]
    [] OTHER -> [UnknownEvent |-> FALSE]

Bad == {c \in DOMAIN Checks(Ev) : ~Checks(Ev)[c]}
TInit == tid \in 1..Len(Traces) /\ ei = 1 /\ st = SetupOf(Traces[tid]) /\ verdict = <<>>
TStep == /\ ei <= Len(Tr.ev) /\ verdict = <<>> /\ tid' = tid /\ st' = st
         /\ IF Bad = {} THEN ei' = ei + 1 /\ verdict' = verdict
            ELSE /\ PrintT("REJECT|" \o ToString(tid) \o "|" \o ToString(ei) \o "|" \o ToString(Bad))
                 /\ verdict' = <<ei, Bad>> /\ ei' = ei
TSpec == TInit /\ [][TStep]_vars
=============================================================================
