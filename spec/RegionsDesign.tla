--------------------------- MODULE RegionsDesign ---------------------------
(***************************************************************************)
(* Design job for C12: the collapse rule ("a child whose sub-blocks are    *)
(* all selected for a core is replaced by one bit in its parent, per       *)
(* core") on a scaled-down hierarchy: a root of B x B blocks, each a leaf  *)
(* of B x B chips (B = 2), cores 1..NCores.  Cores are added one at a time *)
(* in any order (the AddCore action is rig's add_core); after every step   *)
(* the emitted (node, select, core) triples select exactly the cores added *)
(* so far, each once.                                                      *)
(***************************************************************************)
EXTENDS Integers, FiniteSets, TLC

CONSTANTS B, NCores, ActiveBlocks   \* ActiveBlocks: the blocks targets may lie in
Blocks == 0..(B*B - 1)
Subs   == 0..(B*B - 1)
Cores  == 1..NCores
Targets == ActiveBlocks \X Subs \X Cores      \* <<block, chip within block, core>>

VARIABLES root,     \* root[p]  \subseteq Blocks : blocks wholly selected for core p
          leaf,     \* leaf[b][p] \subseteq Subs : chips of block b selected for core p
          added     \* history: the set of targets added so far
vars == <<root, leaf, added>>

DInit == /\ root = [p \in Cores |-> {}]
         /\ leaf = [b \in Blocks |-> [p \in Cores |-> {}]]
         /\ added = {}
AddCore(t) ==
    LET b == t[1]  c == t[2]  p == t[3] IN
    /\ added' = added \cup {t}
    /\ IF b \in root[p] THEN UNCHANGED <<root, leaf>>           \* already selected at the parent
       ELSE LET sel == leaf[b][p] \cup {c} IN
            IF sel = Subs                                       \* child full: collapse into the parent
            THEN /\ leaf' = [leaf EXCEPT ![b][p] = {}]
                 /\ root' = [root EXCEPT ![p] = @ \cup {b}]
            ELSE /\ leaf' = [leaf EXCEPT ![b][p] = sel]
                 /\ UNCHANGED root
DNext == \E t \in Targets : AddCore(t)
DSpec == DInit /\ [][DNext]_vars

\* how many times the current tree selects target t
Times(t) == (IF t[1] \in root[t[3]] THEN 1 ELSE 0) + (IF t[2] \in leaf[t[1]][t[3]] THEN 1 ELSE 0)
ExactlyOnce == \A t \in Blocks \X Subs \X Cores : Times(t) = IF t \in added THEN 1 ELSE 0
\* the representation is minimal: a leaf never keeps a full selection
Collapsed == \A b \in Blocks : \A p \in Cores : leaf[b][p] # Subs
=============================================================================
