------------------------------ MODULE KeyMask ------------------------------
(***************************************************************************)
(* Multicast routing entries and first-match lookup (used by C01, C04,     *)
(* C10).  An entry is a record [key, mask, route, srcs]:                   *)
(*   key, mask : the low W "active" bits of the 32-bit key and mask as an  *)
(*               integer (see FixedBits in RoutingTableTrace for why that  *)
(*               is exact);                                                *)
(*   route     : set of routes as a bit mask, bit r for route r in 0..23   *)
(*               (0..5 links E NE N W SW S, 6..23 cores 0..17);            *)
(*   srcs      : set of source directions as a bit mask, bit 24 = unknown  *)
(*               (None).                                                   *)
(***************************************************************************)
EXTENDS Integers, Sequences, FiniteSets, Bitwise, TLC

Pow2(n) == 2 ^ n
Matches(k, e)  == (k & e.mask) = e.key
\* index of the first entry of table t matching key k, 0 if none
RECURSIVE FirstFrom(_, _, _)
FirstFrom(t, k, i) == IF i > Len(t) THEN 0 ELSE IF Matches(k, t[i]) THEN i ELSE FirstFrom(t, k, i + 1)
FirstMatch(t, k) == FirstFrom(t, k, 1)
\* two key/mask pairs match some common key
\* on the bits both masks care about, the keys agree
IntersectsKM(a, b) == ((a.key ^^ b.key) & (a.mask & b.mask)) = 0
SubsetBits(a, b) == (a & b) = a
IsSingleBit(n) == n > 0 /\ (n & (n - 1)) = 0
RECURSIVE Log2(_)
Log2(n) == IF n <= 1 THEN 0 ELSE 1 + Log2(n \div 2)
\* an entry that hardware default routing can stand in for: one known source link, one route,
\* the link opposite
Defaultable(e) == /\ IsSingleBit(e.srcs) /\ e.srcs < 64
                  /\ IsSingleBit(e.route) /\ e.route < 64
                  /\ Log2(e.route) = (Log2(e.srcs) + 3) % 6
\* number of don't-care bits among the W active ones
RECURSIVE PopCount(_)
PopCount(n) == IF n = 0 THEN 0 ELSE (n % 2) + PopCount(n \div 2)
Generality(e, W) == W - PopCount(e.mask)
=============================================================================
