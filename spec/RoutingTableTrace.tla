------------------------- MODULE RoutingTableTrace -------------------------
(***************************************************************************)
(* Trace specification for C04.  A trace is [w, orig, ev]: the original    *)
(* table and what rig's minimisers made of it.  Tables are sequences of    *)
(*   <<keylo, keyhi, masklo, maskhi, route, srcs>>                         *)
(* (16-bit halves of the 32-bit key and mask).  Bits w..31 must be the     *)
(* same in every entry of the original and of every result (FixedBits);    *)
(* then a 32-bit key either fails to match those bits - and matches no     *)
(* entry of either table - or the comparison depends on the low w bits     *)
(* only, which TLC enumerates.                                             *)
(* Events:                                                                 *)
(*  <<"min", method, target, outcome, table, final, reached>>              *)
(*      target: <<>> for None or <<t>>; outcome "ok" (table = result) or   *)
(*      "fail" (MinimisationFailedError; final = its final_length,         *)
(*      reached = the length the same method reaches with no target) or    *)
(*      any other exception class name                                     *)
(*  <<"step", table>>   table after one more merge of ordered covering     *)
(*      (driven with target_length = current length - 1 and the aliases    *)
(*      returned by the previous step)                                     *)
(*  <<"expand", table>> / <<"subset", other, result>>  rig's expand_entries *)
(*      and table_is_subset_of on the original table (beyond C04: judged   *)
(*      as EXTRA, see harness/core.py validate_beyond)                     *)
(* State st: length of the previous step's table (steps must shrink).      *)
(***************************************************************************)
EXTENDS RoutingTable, Json, IOUtils

Traces == JsonDeserialize(IOEnv.TRACE_FILE)
VARIABLES tid, ei, st, verdict
vars == <<tid, ei, st, verdict>>
Tr == Traces[tid]
Ev == Tr.ev[ei]
TW == Tr.w

Lo(q)  == [key |-> q[1] % Pow2(TW), mask |-> q[3] % Pow2(TW), route |-> q[5], srcs |-> q[6]]
Low(t) == [i \in 1..Len(t) |-> Lo(t[i])]
Fixed(q) == << q[1] \div Pow2(TW), q[2], q[3] \div Pow2(TW), q[4] >>
FixedBits(orig, new) ==
    Len(orig) > 0 => /\ \A i \in 1..Len(orig) : Fixed(orig[i]) = Fixed(orig[1])
                     /\ \A i \in 1..Len(new)  : Fixed(new[i]) = Fixed(orig[1])

Checks(e) ==
  CASE e[1] = "min" ->
        LET target == e[3]  outcome == e[4]  new == e[5] IN
        IF outcome = "ok" THEN
          [FixedBits   |-> FixedBits(Tr.orig, new),
           Equivalent  |-> Equivalent(Low(Tr.orig), Low(new), TW),
           NotLonger   |-> Len(new) <= Len(Tr.orig),
           MeetsTarget |-> target # <<>> => Len(new) <= target[1]]
        ELSE IF outcome = "fail" THEN
          [FailOnlyWithTarget |-> target # <<>>,
           FailHonest  |-> target # <<>> => e[6] > target[1],      \* it really did not fit ...
           FailReportsBest |-> e[6] = e[7]]                          \* ... and reports the size reached
        ELSE [OnlyDocumentedError |-> FALSE]
    \* ---- beyond C04: rig's own table utilities, judged with the same first-match semantics
    [] e[1] = "expand" ->          \* <<"expand", result>>: list(expand_entries(orig))
        LET o == Low(Tr.orig)  x == Low(e[2]) IN
        [FixedBits |-> FixedBits(Tr.orig, e[2]),
         ExpandOrthogonal |-> Orthogonal(x),
         ExpandSameFirstMatch |-> \A k \in 0..(Pow2(TW) - 1) :
              LET i == FirstMatch(o, k)  j == FirstMatch(x, k) IN
              (i = 0 <=> j = 0) /\ (i # 0 => x[j].route = o[i].route /\ x[j].srcs = o[i].srcs)]
    [] e[1] = "subset" ->          \* <<"subset", other, result>>: table_is_subset_of(orig, other) = result (0/1)
        LET a == Low(Tr.orig)  b == Low(e[2])
            holds == \A k \in 0..(Pow2(TW) - 1) :
                        LET i == FirstMatch(a, k)  j == FirstMatch(b, k) IN
                        i # 0 => IF j # 0 THEN b[j].route = a[i].route ELSE Defaultable(a[i])
        IN [SubsetAgrees |-> (e[3] = 1) <=> holds]
    [] e[1] = "step" ->
        [FixedBits  |-> FixedBits(Tr.orig, e[2]),
         Equivalent |-> Equivalent(Low(Tr.orig), Low(e[2]), TW),
         Shrinks    |-> Len(e[2]) < st]
    [] OTHER -> [UnknownEvent |-> FALSE]

Apply(e) == IF e[1] = "step" THEN Len(e[2]) ELSE st

Bad == {c \in DOMAIN Checks(Ev) : ~Checks(Ev)[c]}
TInit == tid \in 1..Len(Traces) /\ ei = 1 /\ st = Len(Traces[tid].orig) /\ verdict = <<>>
TStep == /\ ei <= Len(Tr.ev) /\ verdict = <<>> /\ tid' = tid
         /\ IF Bad = {} THEN ei' = ei + 1 /\ st' = Apply(Ev) /\ verdict' = verdict
            ELSE /\ PrintT("REJECT|" \o ToString(tid) \o "|" \o ToString(ei) \o "|" \o ToString(Bad))
                 /\ verdict' = <<ei, Bad>> /\ ei' = ei /\ st' = st
TSpec == TInit /\ [][TStep]_vars
=============================================================================
