----------------------------- MODULE GlueDesign -----------------------------
(***************************************************************************)
(* Design job for sdram_alloc_for_vertices (beyond the listed properties): *)
(* the call as a sequence of allocation commands against the heap model of *)
(* Session.tla, the vertices taken in ANY order (the order of a dictionary *)
(* is not part of the interface), failing at any point, followed by the    *)
(* application's stop signal.  Every problem of three vertices over two    *)
(* chips (with / without SDRAM, sizes from SizeSet including 0, first core *)
(* from CoreSet), every machine state before the call from PreSet (blocks  *)
(* of another application and of the same application, tagged) is          *)
(* explored.                                                               *)
(*                                                                         *)
(* Variant = "ok"            the call as documented                        *)
(*           "default-app"   the blocks are allocated under the default    *)
(*                           application id instead of the controller's    *)
(*                           current one (they outlive the stop signal)    *)
(*           "stop-as-size"  the end of the allocated range is taken for   *)
(*                           its size                                      *)
(*           "core-tag-always"  the first core is the tag also when the    *)
(*                           caller asked for no tag                       *)
(* The three wrong designs must be refuted.                                *)
(***************************************************************************)
EXTENDS Glue

CONSTANTS GHeap, Variant, SizeSet, CoreSet, TagModes, NVerts, NPre

VARIABLES gms,        \* the machine (record of Session.tla)
          gprob,      \* the problem: [verts, tagmode, pre]
          gpend,      \* ids of the vertices whose block has not been asked for yet
          gviews,     \* views handed out so far: set of <<vid, offset, length>>
          gphase,     \* "running" / "returned" / "raised" / "stopped"
          glast       \* what the last step was
gvars == <<gms, gprob, gpend, gviews, gphase, glast>>

GApp == 30
DefaultApp == 66
OtherApp == 17
MinusOne == -1

ChipOf(vid) == IF vid = 1 THEN <<0, 0>> ELSE IF vid = 2 THEN <<0, 0>> ELSE <<1, 0>>
\* SDRAM ranges start anywhere: where the allocator put the range is not used
SdChoices == {<<>>} \cup { <<8, 8 + z>> : z \in SizeSet }
\* one core; or an empty range of cores that starts where another vertex's core may be
TopCore == CHOOSE c \in CoreSet : \A d \in CoreSet : d <= c
CrChoices == { <<c, c + 1>> : c \in CoreSet } \cup { <<TopCore, TopCore>> }
VertexChoices(vid) == { <<vid, ChipOf(vid)[1], ChipOf(vid)[2], sd, cr>> : sd \in SdChoices, cr \in CrChoices }
\* machine states before the call: nothing; a tagged block of another application; a tagged block of this one
PreSeq == << Empty,
             SdramAlloc(SdramAlloc(Empty, GHeap, 0, 0, 4, 2, OtherApp), GHeap, 1, 0, 8, 1, GApp),
             SdramAlloc(Empty, GHeap, 0, 0, 4, 1, OtherApp),
             SdramAlloc(Empty, GHeap, 0, 0, 6, 2, GApp) >>
PreStates == { PreSeq[i] : i \in 1..NPre }

VertsOf(p) == p.verts
AsTag(p) == p.tagmode = 1
ProblemWanted(p) == Wanted(p.verts, AsTag(p))
WantedOf(p, vid) == CHOOSE w \in ProblemWanted(p) : w[1] = vid

\* what the (possibly wrong) implementation asks the machine for
AskSize(w, p) == IF Variant = "stop-as-size"
                 THEN (CHOOSE v \in SeqSet(p.verts) : v[1] = w[1])[4][2] ELSE w[4]
AskTag(w, p) == IF Variant = "core-tag-always" THEN (CHOOSE v \in SeqSet(p.verts) : v[1] = w[1])[5][1] ELSE w[5]
AskApp == IF Variant = "default-app" THEN DefaultApp ELSE GApp

\* (where no tag is asked for the cores play no part: one choice of cores stands for all)
GInit == /\ \E v1 \in VertexChoices(1), v2 \in VertexChoices(2), v3 \in VertexChoices(3), tm \in TagModes, pre \in PreStates :
              /\ tm = 0 => \A v \in {v1, v2, v3} : v[5] = <<TopCore, TopCore + 1>>
              /\ gprob = [verts |-> SubSeq(<<v1, v2, v3>>, 1, NVerts), tagmode |-> tm, pre |-> pre]
         /\ gms = gprob.pre
         /\ gpend = { w[1] : w \in ProblemWanted(gprob) }
         /\ gviews = {} /\ gphase = "running" /\ glast = "init"

GAllocOk(vid) ==
    /\ gphase = "running" /\ vid \in gpend
    /\ LET w == WantedOf(gprob, vid)
       IN /\ ~AllocFails(gms, GHeap, w[2], w[3], AskSize(w, gprob), AskTag(w, gprob), AskApp)
          /\ gms' = SdramAlloc(gms, GHeap, w[2], w[3], AskSize(w, gprob), AskTag(w, gprob), AskApp)
          \* the view covers the block from the address the machine returned for the length the caller asked for
          /\ gviews' = gviews \cup {<<vid, BrkOf(gms, w[2], w[3]), AskSize(w, gprob)>>}
    /\ gpend' = gpend \ {vid} /\ glast' = "alloc" /\ UNCHANGED <<gprob, gphase>>
GAllocFail(vid) ==
    /\ gphase = "running" /\ vid \in gpend
    /\ LET w == WantedOf(gprob, vid)
       IN AllocFails(gms, GHeap, w[2], w[3], AskSize(w, gprob), AskTag(w, gprob), AskApp)
    \* the memory error leaves the call at once: what was allocated so far stays with the application
    /\ gphase' = "raised" /\ glast' = "fail" /\ UNCHANGED <<gms, gprob, gpend, gviews>>
GReturn == /\ gphase = "running" /\ gpend = {}
           /\ gphase' = "returned" /\ glast' = "return" /\ UNCHANGED <<gms, gprob, gpend, gviews>>
GStop == /\ gphase \in {"returned", "raised"}
         /\ gms' = Signal(gms, 2, GApp)
         /\ gphase' = "stopped" /\ glast' = "stop" /\ UNCHANGED <<gprob, gpend, gviews>>
GNext == (\E vid \in 1..3 : GAllocOk(vid) \/ GAllocFail(vid)) \/ GReturn \/ GStop
GSpec == GInit /\ [][GNext]_gvars

----------------------------------------------------------------------------
GMachineInv == MachineInv(gms, GHeap)            \* blocks disjoint and inside the heap, tags unique per chip and application
NewBlocks == gms.alloc \ gprob.pre.alloc
DoneWanted == { w \in ProblemWanted(gprob) : w[1] \notin gpend }
\* at every moment of the call - also after a failure: exactly one block per vertex served so far, of the vertex's
\* size, on its chip, with its tag, held by the application; the views cover exactly these blocks; nothing else
\* has been allocated and nothing that was there before has gone
OnePerVertex == gphase # "stopped" =>
                   /\ ViewsExact(gviews, DoneWanted, NewBlocks, GApp)
                   /\ gprob.pre.alloc \subseteq gms.alloc
\* vertices without the SDRAM resource never get anything
NothingForOthers == \A vw \in gviews : \E v \in SeqSet(gprob.verts) : v[1] = vw[1] /\ HasSdram(v)
\* the outcome does not depend on the order in which rig takes the vertices: it returns exactly when the problem is
\* feasible on the machine as it was before the call
OutcomeIsTheProblems == /\ gphase = "returned" => Feasible(gprob.pre, GHeap, ProblemWanted(gprob), GApp)
                        /\ gphase = "raised" => ~Feasible(gprob.pre, GHeap, ProblemWanted(gprob), GApp)
\* whatever the call left behind - complete or cut short by the error - goes with the application's stop signal,
\* and the other applications keep what they had
ReleasedByStop == gphase = "stopped" =>
                     /\ gms.alloc = { b \in gprob.pre.alloc : b[6] # GApp }
                     /\ Holdings(gms, GApp) = NoHoldings
\* a step of the call changes nothing another application holds
OthersUntouched == [][Holdings(gms', OtherApp) = Holdings(gms, OtherApp)]_gvars
=============================================================================
