------------------------------- MODULE Wizard -------------------------------
(***************************************************************************)
(* The wizard protocol of rig.wizard (beyond the listed properties): a     *)
(* wizard is a dialogue - it yields messages (MultipleChoice with a        *)
(* question, options and a default; Text; Prompt; Info), the front-end     *)
(* answers (an option index, a text, nothing) and the dialogue ends with   *)
(* Success(data) or Failure(message).  Written from the module's           *)
(* documentation; texts are sequences of character codes.                  *)
(*                                                                         *)
(* A wizard term: <<"dims">>, <<"ip">> or <<"cat", <<term, ...>>>>.        *)
(* cat is the concatenation of the dialogues of its parts, so a term means *)
(* the sequence of its leaves.                                             *)
(* A dialogue state: leaves, cur (the leaf talking), pos (the message      *)
(* awaiting its answer, "begin" between leaves), data gathered so far      *)
(* (dims: <<>> or <<w, h>>; ip: <<>> or <<address>>), out ("" running,     *)
(* "failure", or "maybe" where the documentation leaves the verdict on an  *)
(* answer open - then data holds the wildcard Wildcard).                        *)
(* A response: <<tag, int, string, codes>>, tag "i" / "s" / "none".        *)
(***************************************************************************)
EXTENDS Spinn5, SequencesExt

RECURSIVE LeafSeq(_)
LeafSeq(term) == IF term[1] = "cat"
                THEN FoldLeft(LAMBDA acc, sub : acc \o LeafSeq(sub), <<>>, term[2])
                ELSE <<term[1]>>
KeyOf(leaf) == IF leaf = "dims" THEN "dimensions" ELSE "ip_address"

NoData == [dims |-> <<>>, ip |-> <<>>]
Start(term) == [leaves |-> LeafSeq(term), cur |-> 1, pos |-> "begin", data |-> NoData, out |-> ""]
Wildcard == <<-1, -1>>

\* ------------------------------------------------------------------ messages
MsgOf(pos) ==
    CASE pos = "type" -> [kind |-> "MultipleChoice", nopts |-> 4, default |-> <<>>]
      [] pos = "auto" -> [kind |-> "MultipleChoice", nopts |-> 2, default |-> <<0>>]
      [] pos \in {"boards", "size", "host"} -> [kind |-> "Text", nopts |-> 0, default |-> <<>>]
      [] pos = "prompt" -> [kind |-> "Prompt", nopts |-> 0, default |-> <<>>]
      [] pos = "info" -> [kind |-> "Info", nopts |-> 0, default |-> <<>>]
FirstPos(leaf) == IF leaf = "dims" THEN "type" ELSE "auto"
\* the complete dialogues of one wizard, as sequences of positions
Paths(leaf) == IF leaf = "dims" THEN {<<"type">>, <<"type", "boards">>, <<"type", "size">>}
               ELSE {<<"auto", "prompt", "info">>, <<"auto", "host">>}

\* ------------------------------------------------------------------ texts
IsDigit(ch) == ch \in 48..57
IsSpace(ch) == ch \in {32, 9}
IsSign(ch) == ch \in {43, 45, 95, 46}                            \* + - _ .
NumOf(cs) == FoldLeft(LAMBDA acc, ch : 10 * acc + (ch - 48), 0, cs)
AllDigits(cs) == Len(cs) > 0 /\ \A i \in 1..Len(cs) : IsDigit(cs[i])
Canonical(cs) == AllDigits(cs) /\ (Len(cs) = 1 \/ cs[1] # 48)
\* first index from i on whose character does not satisfy P (Len + 1 when there is none)
Skip(cs, i, P(_)) == CHOOSE j \in i..(Len(cs) + 1) :
                        /\ \A q \in i..(j - 1) : P(cs[q])
                        /\ (j = Len(cs) + 1 \/ ~P(cs[j]))

\* a number of boards: a decimal number is one; a text with a letter or without a digit is none; Python-isms
\* (" 3 ", "+3", "3_0", "3.0", "-3") are left open
CountStatus(cs) == IF AllDigits(cs) THEN "number"
                   ELSE IF /\ \E i \in 1..Len(cs) : IsDigit(cs[i])
                           /\ \A i \in 1..Len(cs) : IsDigit(cs[i]) \/ IsSpace(cs[i]) \/ IsSign(cs[i])
                        THEN "open" ELSE "none"
CountAccepted(n) == n <= 1 \/ n % 3 = 0                            \* what standard_system_dimensions accepts (C19)

\* a size "W x H": spaces, digits, spaces, x or X, spaces, digits, spaces
SizeParse(cs) ==
    LET i1 == Skip(cs, 1, IsSpace)   i2 == Skip(cs, i1, IsDigit)   i3 == Skip(cs, i2, IsSpace)
        isx == i2 > i1 /\ i3 <= Len(cs) /\ cs[i3] \in {120, 88}
        i4 == Skip(cs, i3 + 1, IsSpace)   i5 == Skip(cs, i4, IsDigit)   i6 == Skip(cs, i5, IsSpace)
    IN IF ~isx \/ i5 = i4 THEN [status |-> "none", wh |-> <<>>]
       ELSE [status |-> IF i6 = Len(cs) + 1 THEN "full" ELSE "prefix",      \* "24x12abc": left open
             wh |-> <<NumOf(SubSeq(cs, i1, i2 - 1)), NumOf(SubSeq(cs, i4, i5 - 1))>>]

\* ------------------------------------------------------------------ the dialogue
Complete(ds, key, val) == [ds EXCEPT !.data[key] = val, !.cur = @ + 1, !.pos = "begin", !.out = ""]
Fail(ds) == [ds EXCEPT !.out = "failure"]
Open(ds, key) == [Complete(ds, key, IF key = "dims" THEN Wildcard ELSE <<"?">>) EXCEPT !.out = "maybe"]

\* is r an answer the front-end may give to the message at pos?
InDomain(pos, r) ==
    LET m == MsgOf(pos)
    IN CASE m.kind = "MultipleChoice" -> r[1] = "i" /\ r[2] \in 0..(m.nopts - 1)
         [] m.kind = "Text" -> r[1] = "s"
         [] OTHER -> r[1] = "none"

\* the state after answer r to the message at ds.pos; disc = what listening for an unbooted board gives
\* (<<>> nothing, <<address>>)
Answer(ds, r, disc) ==
    CASE ds.pos = "type" ->
            CASE r[2] = 0 -> Complete(ds, "dims", <<2, 2>>)
              [] r[2] = 1 -> Complete(ds, "dims", <<8, 8>>)
              [] r[2] = 2 -> [ds EXCEPT !.pos = "boards"]
              [] OTHER -> [ds EXCEPT !.pos = "size"]
      [] ds.pos = "boards" ->
            LET cst == CountStatus(r[4])
            IN IF cst = "open" THEN Open(ds, "dims")
               ELSE IF cst = "number" /\ CountAccepted(NumOf(r[4]))
                    THEN Complete(ds, "dims", StandardDims(NumOf(r[4])))
                    ELSE Fail(ds)
      [] ds.pos = "size" ->
            LET sz == SizeParse(r[4])
            IN CASE sz.status = "full" -> Complete(ds, "dims", sz.wh)
                 [] sz.status = "prefix" -> Open(ds, "dims")
                 [] OTHER -> Fail(ds)
      [] ds.pos = "auto" -> [ds EXCEPT !.pos = IF r[2] = 0 THEN "prompt" ELSE "host"]
      [] ds.pos = "prompt" -> [ds EXCEPT !.pos = "info"]
      [] ds.pos = "info" -> IF disc = <<>> THEN Fail(ds) ELSE Complete(ds, "ip", disc)
      [] ds.pos = "host" -> IF r[4] = <<>> THEN Fail(ds) ELSE Complete(ds, "ip", <<r[3]>>)

\* what the wizard does next when it has control
Expected(ds) ==
    IF ds.out = "failure" THEN [act |-> "failure", pos |-> ""]
    ELSE IF ds.pos = "begin"
         THEN IF ds.cur > Len(ds.leaves) THEN [act |-> "success", pos |-> ""]
              ELSE [act |-> "yield", pos |-> FirstPos(ds.leaves[ds.cur])]
         ELSE [act |-> "yield", pos |-> ds.pos]
\* the state once that message has been yielded
Yielded(ds) == [ds EXCEPT !.pos = Expected(ds).pos, !.out = ""]

Keys(data) == (IF data.dims # <<>> THEN {"dimensions"} ELSE {}) \cup (IF data.ip # <<>> THEN {"ip_address"} ELSE {})

\* ------------------------------------------------------------------ the command-line front-end
\* what an answer typed at a multiple-choice question selects: <<"pick", index>>, <<"invalid">>, or <<"open">>
\* where the documentation does not say (" 1", "+1", "01")
Choice(cs, nopts, default) ==
    IF cs = <<>> THEN (IF default # <<>> THEN <<"pick", default[1]>> ELSE <<"invalid">>)
    ELSE IF Canonical(cs) THEN (IF NumOf(cs) < nopts THEN <<"pick", NumOf(cs)>> ELSE <<"invalid">>)
    ELSE IF Len(cs) > 1 /\ cs[1] = 45 /\ Canonical(Tail(cs)) /\ NumOf(Tail(cs)) > 0 THEN <<"invalid">>
    ELSE IF /\ \E i \in 1..Len(cs) : IsDigit(cs[i])
            /\ \A i \in 1..Len(cs) : IsDigit(cs[i]) \/ IsSpace(cs[i]) \/ IsSign(cs[i])
         THEN <<"open">> ELSE <<"invalid">>

\* ------------------------------------------------------------------ listening for an unbooted board
\* a source: <<address, destination port, time of its first datagram, period (0: one datagram only)>>, times in ms.
\* The first datagram of source s after time t0 (-1: none)
NextFrom(src, t0) ==
    IF src[3] > t0 THEN src[3]
    ELSE IF src[4] = 0 THEN -1
    ELSE src[3] + ((t0 - src[3]) \div src[4] + 1) * src[4]
\* what a listener on `port` from t0 for `wait` ms hears first: <<time, address>> of every candidate
Heard(net, port, t0, wait, closed) ==
    { <<NextFrom(net[i], t0), net[i][1]>> : i \in { j \in 1..Len(net) :
            /\ net[j][2] = port /\ NextFrom(net[j], t0) # -1
            /\ IF closed THEN NextFrom(net[j], t0) <= t0 + wait ELSE NextFrom(net[j], t0) < t0 + wait } }
Earliest(S) == CHOOSE e \in S : \A o \in S : e[1] <= o[1]
BootPort == 54321
=============================================================================
