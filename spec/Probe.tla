------------------------------- MODULE Probe -------------------------------
(***************************************************************************)
(* C14 - what a SpiNNaker machine tells a prober, and what the place-and-   *)
(* route model derived from that description must contain.                  *)
(*                                                                         *)
(* Pure operators only.  Written from the property statement and from the  *)
(* documented wire formats (SC&MP command reference as quoted in rig's     *)
(* documentation, sark.struct, the SpiNNaker datasheet's router register   *)
(* map), NOT from rig's decoding code.                                     *)
(*                                                                         *)
(* Conventions: a 32-bit quantity is a pair <<hi16, lo16>> ("halves");     *)
(* memory is little-endian; chips are <<x, y>>; links are 0..5 (east,      *)
(* north-east, north, west, south-west, south); core states are the SARK   *)
(* numbers (idle = 15).                                                    *)
(*                                                                         *)
(* An abstract chip record is                                              *)
(*   [nc, states (Seq of nc states), links (set of 0..5), sdram, sram      *)
(*    (halves), rtr (0..2047), eth (BOOLEAN), ip (4 bytes), leth <<x,y>>]  *)
(***************************************************************************)
EXTENDS Integers, Sequences, FiniteSets, TLC

Idle == 15
LinkIds == 0..5

\* ------------------------------------------------------------------ bytes and halves
LE2(v) == <<v % 256, v \div 256>>
HalvesToBytes(hv) == LE2(hv[2]) \o LE2(hv[1])
BytesToHalves(b) == <<b[3] + 256 * b[4], b[1] + 256 * b[2]>>
U8(b, off) == b[off + 1]
U16(b, off) == b[off + 1] + 256 * b[off + 2]
U32(b, off) == <<b[off + 3] + 256 * b[off + 4], b[off + 1] + 256 * b[off + 2]>>
Sub(b, off, n) == SubSeq(b, off + 1, off + n)
Zero32 == <<0, 0>>
\* address arithmetic on halves
AddH(a, k) == <<(a[1] + (a[2] + k) \div 65536) % 65536, (a[2] + k) % 65536>>
\* a - b when 0 <= a - b < 2^17, else -1  (enough for "is this address inside that small region")
OffH(a, b) == LET dh == a[1] - b[1] IN
              IF dh \in 0..1 THEN (IF dh * 65536 + a[2] - b[2] >= 0 THEN dh * 65536 + a[2] - b[2] ELSE -1)
              ELSE -1
SeqSet(q) == { q[i] : i \in 1..Len(q) }
SeqSum(q) == LET F[i \in 0..Len(q)] == IF i = 0 THEN 0 ELSE F[i - 1] + q[i] IN F[Len(q)]

\* ------------------------------------------------------------------ documented addresses
SvBase     == <<62720, 32512>>      \* 0xf5007f00  system variables
SvP2PDims  == AddH(SvBase, 2)       \* half-word: width * 256 + height
SvIobufSz  == AddH(SvBase, 80)      \* word 0x50: size of one console buffer block (bytes, without header)
SvVcpuBase == AddH(SvBase, 204)     \* word 0xcc: address of the first per-core status block
RtrP2P     == <<57601, 0>>          \* 0xe1010000  point-to-point table
RtrDiag    == <<57600, 768>>        \* 0xe1000300  16 diagnostic counter registers
VcpuSize   == 128
IobufHdr   == 16                    \* next, time, ms, length (4 words), then the text

\* ------------------------------------------------------------------ chip-information reply (command 31)
\* arg1:  bits 4..0   number of working cores
\*        bits 13..8  working links, bit 8 + l for link l
\*        bits 24..14 size of the largest free block of multicast router entries
\*        bit  25     Ethernet is up
\*        (bits 5..7 and 26..31 are not assigned)
\* arg2: largest free SDRAM block (bytes), arg3: largest free SRAM block (bytes)
\* data: 18 bytes of core state (core 0 first), half-word x * 256 + y of the chip's local Ethernet chip,
\*       word IP address with the first octet in the least significant byte
LinkBits(L) == SeqSum([i \in 1..6 |-> IF (i - 1) \in L THEN 2 ^ (8 + i - 1) ELSE 0])
EncodeInfoArg1(c) == << c.rtr \div 4 + (IF c.eth THEN 512 ELSE 0),
                        c.nc + LinkBits(c.links) + (c.rtr % 4) * 16384 >>
DecodeInfoArg1(hv) == [nc    |-> hv[2] % 32,
                       links |-> { l \in LinkIds : (hv[2] \div (2 ^ (8 + l))) % 2 = 1 },
                       rtr   |-> (hv[2] \div 16384) + 4 * (hv[1] % 512),
                       eth   |-> (hv[1] \div 512) % 2 = 1]
\* junk in the unassigned bits: j = <<hi bits 26..31 as 0..63, lo bits 5..7 as 0..7>>
WithJunk(hv, j) == << hv[1] + j[1] * 1024, hv[2] + j[2] * 32 >>
EncodeInfoData(c) == [i \in 1..18 |-> IF i <= c.nc THEN c.states[i] ELSE 0]
                     \o LE2(c.leth[1] * 256 + c.leth[2]) \o c.ip
DecodeInfoData(d, nc) == [states |-> SubSeq(d, 1, nc),
                          leth   |-> << U16(d, 18) \div 256, U16(d, 18) % 256 >>,
                          ip     |-> Sub(d, 20, 4)]
EncodeInfo(c) == [arg1 |-> EncodeInfoArg1(c), arg2 |-> c.sdram, arg3 |-> c.sram, data |-> EncodeInfoData(c)]
DecodeInfo(r) == LET a == DecodeInfoArg1(r.arg1)  d == DecodeInfoData(r.data, a.nc)
                 IN [nc |-> a.nc, states |-> d.states, links |-> a.links, sdram |-> r.arg2, sram |-> r.arg3,
                     rtr |-> a.rtr, eth |-> a.eth, ip |-> d.ip, leth |-> d.leth]
IpString(ip) == ToString(ip[1]) \o "." \o ToString(ip[2]) \o "." \o ToString(ip[3]) \o "." \o ToString(ip[4])

\* ------------------------------------------------------------------ point-to-point table
\* One 3-bit entry per destination chip, eight entries per 32-bit word, the entry of chip (col, row) in word
\* (256 * col + row) div 8 at bit 3 * (row mod 8): the table is laid out by column, 256 rows per column.
\* Entry 0..5: first link of the route; 6: no route (the chip does not exist); 7: this chip itself.
P2PNone == 6
P2PSelf == 7
P2PWordIndex(col, row) == (256 * col + row) \div 8
P2PShift(row) == 3 * (row % 8)
P2PWordAddr(col, row) == AddH(RtrP2P, 4 * P2PWordIndex(col, row))
\* a table is a function [<<col,row>> -> 0..7] on (0..w-1) \X (0..h-1); its memory image is a function from
\* word index to a 24-bit value, entries outside the table being "no route"
EncodeP2P(tab, w, h) ==
    [ix \in { P2PWordIndex(cr[1], cr[2]) : cr \in (0..w - 1) \X (0..h - 1) } |->
        SeqSum([k \in 1..8 |-> LET col == ix \div 32  row == (ix % 32) * 8 + (k - 1)
                               IN (IF row < h THEN tab[<<col, row>>] ELSE P2PNone) * (2 ^ (3 * (k - 1)))])]
DecodeP2P(mem, w, h) ==
    [cr \in (0..w - 1) \X (0..h - 1) |-> (mem[P2PWordIndex(cr[1], cr[2])] \div (2 ^ P2PShift(cr[2]))) % 8]
Word24(b, off) == b[off + 1] + 256 * b[off + 2] + 65536 * b[off + 3]
EntryOf(word24, k) == (word24 \div (2 ^ (3 * k))) % 8

\* ------------------------------------------------------------------ software version reply (command 0)
\* arg1: (x * 256 + y) in the top half, physical core * 256 + virtual core in the bottom half
\* arg2: version field in the top half, SCP data buffer size in the bottom half
\*       version field # 0xFFFF: major * 100 + minor (legacy); data = name, NUL
\*       version field = 0xFFFF: data = name, NUL, "major.minor.patch" followed by optional labels, optional NUL
\* arg3: build date (unix time)
Digits(n) == LET F[m \in 0..n] == IF m < 10 THEN <<48 + m>> ELSE F[m \div 10] \o <<48 + (m % 10)>> IN F[n]
EncodeSver(v, x, y, p) ==
    [arg1 |-> << x * 256 + y, v.pcpu[p + 1] * 256 + p >>,
     arg2 |-> << IF v.legacy THEN v.major * 100 + v.minor ELSE 65535, v.bufsize >>,
     arg3 |-> v.date,
     data |-> IF v.legacy THEN v.name \o <<0>>
              ELSE v.name \o <<0>> \o Digits(v.major) \o <<46>> \o Digits(v.minor) \o <<46>> \o Digits(v.patch)
                   \o v.labels \o (IF v.nul THEN <<0>> ELSE <<>>)]
\* what a reader of the reply must report
VersionOf(v, x, y, p) ==
    [position |-> <<x, y>>, physical_cpu |-> v.pcpu[p + 1], virt_cpu |-> p,
     software_version |-> IF v.legacy THEN <<v.major, v.minor, 0>> ELSE <<v.major, v.minor, v.patch>>,
     buffer_size |-> v.bufsize, build_date |-> v.date, version_string |-> v.name,
     software_version_labels |-> IF v.legacy THEN <<>> ELSE v.labels]

\* ------------------------------------------------------------------ per-core status block (128 bytes)
\* r0-r7 0x00, psr 0x20, sp 0x24, lr 0x28, rt_code 0x2c (byte), phys_cpu 0x2d, cpu_state 0x2e, app_id 0x2f,
\* mbox_ap_msg 0x30, mbox_mp_msg 0x34, mbox_ap_cmd 0x38 (byte), mbox_mp_cmd 0x39 (byte), sw_count 0x3a (half),
\* sw_file 0x3c, sw_line 0x40, time 0x44, app_name 0x48 (16 bytes, NUL padded), iobuf 0x58,
\* sw_ver 0x5c (major << 16 | minor << 8 | patch), user0-3 0x70
CString(b) == LET nul == { i \in 1..Len(b) : b[i] = 0 }
              IN IF nul = {} THEN b ELSE SubSeq(b, 1, (CHOOSE i \in nul : \A j \in nul : i <= j) - 1)
DecodeVcpu(b) ==
    [registers |-> [i \in 1..8 |-> U32(b, 4 * (i - 1))],
     program_state_register |-> U32(b, 32), stack_pointer |-> U32(b, 36), link_register |-> U32(b, 40),
     rt_code |-> U8(b, 44), phys_cpu |-> U8(b, 45), cpu_state |-> U8(b, 46), app_id |-> U8(b, 47),
     mbox_ap_msg |-> U32(b, 48), mbox_mp_msg |-> U32(b, 52), mbox_ap_cmd |-> U8(b, 56), mbox_mp_cmd |-> U8(b, 57),
     sw_count |-> U16(b, 58), sw_file |-> U32(b, 60), sw_line |-> U32(b, 64), time |-> U32(b, 68),
     app_name |-> CString(Sub(b, 72, 16)), iobuf_address |-> U32(b, 88),
     version |-> << U8(b, 94), U8(b, 93), U8(b, 92) >>,
     user_vars |-> [i \in 1..4 |-> U32(b, 112 + 4 * (i - 1))]]
VcpuAddr(vbase, p) == AddH(vbase, VcpuSize * p)

\* ------------------------------------------------------------------ console buffers
\* A chain of blocks; a block is [addr, next, time, ms, len, data]: header words next, time, ms, len followed by
\* the text area (iobuf_size bytes) of which the first len bytes are valid.  next = 0 ends the chain.
BlockBytes(blk) == HalvesToBytes(blk.next) \o HalvesToBytes(blk.time) \o HalvesToBytes(blk.ms)
                   \o HalvesToBytes(<<0, blk.len>>) \o blk.data
RECURSIVE WalkIobuf(_, _, _)
WalkIobuf(blocks, ptr, fuel) ==
    IF ptr = Zero32 \/ fuel = 0 THEN <<>>
    ELSE LET blk == CHOOSE bb \in blocks : bb.addr = ptr
         IN SubSeq(blk.data, 1, blk.len) \o WalkIobuf(blocks, blk.next, fuel - 1)

\* ------------------------------------------------------------------ router diagnostic counters
CounterNames == << "local_multicast", "external_multicast", "local_p2p", "external_p2p",
                   "local_nearest_neighbour", "external_nearest_neighbour", "local_fixed_route",
                   "external_fixed_route", "dropped_multicast", "dropped_p2p", "dropped_nearest_neighbour",
                   "dropped_fixed_route", "counter12", "counter13", "counter14", "counter15" >>
CountersOf(words) == [i \in 1..16 |-> <<CounterNames[i], words[i]>>]
CounterBytes(words) == LET F[i \in 0..16] == IF i = 0 THEN <<>> ELSE F[i - 1] \o HalvesToBytes(words[i]) IN F[16]

\* ------------------------------------------------------------------ derived place-and-route model
\* desc: a function from the responding chips to their records
NonIdle(c) == { i \in 0..c.nc - 1 : c.states[i + 1] # Idle }
LinksOf(desc) == UNION { { <<xy[1], xy[2], l>> : l \in desc[xy].links } : xy \in DOMAIN desc }
\* the machine model <<width, height, dead chips, dead links>> contains ...
ModelChips(w, h, deadChips) == ((0..w - 1) \X (0..h - 1)) \ deadChips
ModelLinks(w, h, deadChips, deadLinks) ==
    { t \in { <<xy[1], xy[2], l>> : xy \in ModelChips(w, h, deadChips), l \in LinkIds } : t \notin deadLinks }

\* reservations: a reservation is <<start, stop, loc>>, loc = <<>> (every chip) or <<x, y>>
AppliesTo(r, xy) == r[3] = <<>> \/ r[3] = xy
Covered(rs, xy) == UNION { r[1]..r[2] - 1 : r \in { q \in rs : AppliesTo(q, xy) } }
RangesOverlap(r, q) == r[1] < q[2] /\ q[1] < r[2]

\* the rule rig documents: cores that are busy on every chip are reserved globally, the others per chip,
\* each set of cores merged into maximal runs
\* maximal runs of consecutive members of S, as half-open ranges <<first, last + 1>>
Runs(S) == { ab \in S \X { i + 1 : i \in S } :
               ab[1] < ab[2] /\ (ab[1]..ab[2] - 1) \subseteq S /\ (ab[1] - 1) \notin S /\ ab[2] \notin S }
GlobalBusy(desc) == IF DOMAIN desc = {} THEN {} ELSE { i \in 0..17 : \A xy \in DOMAIN desc : i \in NonIdle(desc[xy]) }
RuleReservations(desc) ==
    { <<r[1], r[2], <<>> >> : r \in Runs(GlobalBusy(desc)) } \cup
    UNION { { <<r[1], r[2], xy>> : r \in Runs(NonIdle(desc[xy]) \ GlobalBusy(desc)) } : xy \in DOMAIN desc }
CoverExactly(rs, desc) == /\ \A xy \in DOMAIN desc : Covered(rs, xy) = NonIdle(desc[xy])
                          /\ \A r \in rs : r[3] = <<>> \/ r[3] \in DOMAIN desc
DisjointPerChip(rseq, desc) ==
    \A i, j \in 1..Len(rseq) : i < j =>
        \A xy \in DOMAIN desc : (AppliesTo(rseq[i], xy) /\ AppliesTo(rseq[j], xy)) => ~RangesOverlap(rseq[i], rseq[j])
DisjointPerChipSet(rs, desc) ==
    \A r, q \in rs : r # q =>
        \A xy \in DOMAIN desc : (AppliesTo(r, xy) /\ AppliesTo(q, xy)) => ~RangesOverlap(r, q)
=============================================================================
