---------------------------- MODULE ScpWindowInd ----------------------------
(***************************************************************************)
(* C06, Apalache: an INDUCTIVE invariant of the windowed SCP client        *)
(* (ScpWindow) for unbounded Window, MaxTries, SeqMod, time-outs, clock    *)
(* and any number of bursts, against a network that may present a reply    *)
(* with any sequence number at any moment - the bounds TLC's exhaustive    *)
(* job (ScpDesign: NCmd = 3, Window <= 2, MaxTries <= 2, SeqMod = 4,       *)
(* 2 bursts) cannot lift.  Only the number of commands per burst is        *)
(* bounded: NCmd <= CmdBound = 4 (the per-command functions need a fixed   *)
(* domain).  Gen(4) for the table and the callback queue loses nothing:    *)
(* IndInv (OneEntryPerCommand, QueuedOnce, TypeOK) puts at most NCmd <= 4  *)
(* entries in either.                                                      *)
(*                                                                         *)
(*   apalache-mc check --cinit=ConstInit --init=IndInit --next=Next        *)
(*                     --inv=IndInv --length=1 ScpWindowInd.tla            *)
(* checks IndInit => IndInv (length 0) and IndInv /\ Next => IndInv'       *)
(* (length 1);  --init=StartInit --inv=IndInv --length=0 checks that the   *)
(* state a connection starts in (and every state a later burst starts in)  *)
(* satisfies it.  IndInv => WindowBound /\ TriesBound /\ AtMostOnce /\     *)
(* ReturnedComplete /\ TimeoutHonest by conjunct.                          *)
(***************************************************************************)
EXTENDS ScpWindow, Apalache

\* ConstOK with the constants introduced in the form Apalache assigns from
ConstInit == /\ NCmd \in Nat /\ Window \in Nat /\ MaxTries \in Nat /\ SeqMod \in Nat /\ T0 \in Nat
             /\ Extra \in [Cmds -> Nat]
             /\ ConstOK

IndInv ==
    /\ TypeOK
    /\ WindowBound /\ TriesBound /\ AtMostOnce
    /\ SeqUnique /\ OneEntryPerCommand /\ Counted /\ QueuedOnce /\ Unsent /\ Accounted /\ Returned /\ TimedOut
    /\ ReturnedComplete /\ TimeoutHonest

IndInit ==
    /\ nextCmd = Gen(1) /\ outst = Gen(4) /\ cbq = Gen(4) /\ doneCnt = Gen(4) /\ txCnt = Gen(4)
    /\ seqCtr = Gen(1) /\ now = Gen(1) /\ culprit = Gen(1)
    /\ pc \in {"run", "returned", "timeout", "fatal"}
    /\ IndInv

\* the states a burst really starts in: the first one (counter 0, clock 0) and any later one
StartInit ==
    /\ nextCmd = 1 /\ outst = {} /\ cbq = Zero /\ doneCnt = Zero /\ txCnt = Zero /\ pc = "run" /\ culprit = 0
    /\ seqCtr = Gen(1) /\ 0 <= seqCtr /\ seqCtr < SeqMod
    /\ now = Gen(1)

\* ------------------------------------------------------------------ WRONG clients, each expected to be refuted
\* (1) the window test is `<=` instead of `<`
CanSendW == pc = "run" /\ nextCmd <= NCmd /\ Cardinality(outst) <= Window
SendNewW == /\ CanSendW /\ ~SeqInUse
            /\ outst' = outst \cup {[sq |-> seqCtr, cmd |-> nextCmd, tries |-> 1, deadline |-> now + Tmo(nextCmd)]}
            /\ seqCtr' = SuccSeq(seqCtr)
            /\ txCnt' = [txCnt EXCEPT ![nextCmd] = 1]
            /\ nextCmd' = nextCmd + 1
            /\ UNCHANGED <<cbq, doneCnt, now, pc, culprit>>
WrongWindowNext == Next \/ SendNewW

\* (2) an ok reply is matched by the COMMAND it was generated for instead of by its sequence number: a duplicate
\*     or late reply for a command that was sent earlier queues that command's callback again
ReceiveOkByCmd == /\ pc = "run"
                  /\ \E c \in Cmds : /\ c < nextCmd
                                     /\ outst' = { e \in outst : e.cmd # c }
                                     /\ cbq' = [cbq EXCEPT ![c] = @ + 1]
                  /\ UNCHANGED <<nextCmd, doneCnt, txCnt, seqCtr, now, pc, culprit>>
WrongPopNext == Next \/ ReceiveOkByCmd

\* (3) a retransmission is not counted in the table
RetransmitUncounted ==
    /\ pc = "run"
    /\ \E e \in outst :
          /\ e.deadline < now /\ e.tries < MaxTries
          /\ outst' = (outst \ {e}) \cup {[sq |-> e.sq, cmd |-> e.cmd, tries |-> e.tries,
                                           deadline |-> now + Tmo(e.cmd)]}
          /\ txCnt' = [txCnt EXCEPT ![e.cmd] = @ + 1]
    /\ UNCHANGED <<nextCmd, cbq, doneCnt, seqCtr, now, pc, culprit>>
WrongCountNext == Next \/ RetransmitUncounted

\* (4) one transmission too many: the retry test is `<=` instead of `<`
RetransmitOnceMore ==
    /\ pc = "run"
    /\ \E e \in outst :
          /\ e.deadline < now /\ e.tries <= MaxTries
          /\ outst' = (outst \ {e}) \cup {[sq |-> e.sq, cmd |-> e.cmd, tries |-> e.tries + 1,
                                           deadline |-> now + Tmo(e.cmd)]}
          /\ txCnt' = [txCnt EXCEPT ![e.cmd] = @ + 1]
    /\ UNCHANGED <<nextCmd, cbq, doneCnt, seqCtr, now, pc, culprit>>
WrongTriesNext == Next \/ RetransmitOnceMore

\* (5) a new command takes the counter's number although an unanswered command still holds it
SendNewNoSkip == /\ CanSend
                 /\ outst' = outst \cup {[sq |-> seqCtr, cmd |-> nextCmd, tries |-> 1, deadline |-> now + Tmo(nextCmd)]}
                 /\ seqCtr' = SuccSeq(seqCtr)
                 /\ txCnt' = [txCnt EXCEPT ![nextCmd] = 1]
                 /\ nextCmd' = nextCmd + 1
                 /\ UNCHANGED <<cbq, doneCnt, now, pc, culprit>>
WrongSeqNext == Next \/ SendNewNoSkip
=============================================================================
