----------------------------- MODULE BitFieldSim -----------------------------
(***************************************************************************)
(* Behaviours of BitFieldDesign for replay into rig (job R of C08).        *)
(*                                                                         *)
(* The design machine (AddField / SetValue of BitFieldDesign, unchanged)   *)
(* with a history of what was asked of it and what it answered.  TLC's     *)
(* simulator chooses the definition history; the finished history is       *)
(* printed as JSON and the harness makes the same calls on a real          *)
(* rig.bitfield.BitField, one by one (harness/props/c08_replay.py);        *)
(* BitFieldReplayTrace.tla judges every call against the answer recorded   *)
(* here.                                                                   *)
(*                                                                         *)
(* A step of the history is a record                                       *)
(*   op     "add" | "set" | "assign"                                       *)
(*   scope  the values held by the bit field through which the call is     *)
(*          made (set of <<name, value>>)                                  *)
(*   id, fl, fs   add: name, explicit length (0 = automatic), explicit     *)
(*          position (-1 = automatic);  set: the field's name, fl = bits   *)
(*          of the value given                                             *)
(*   pred   "ok": the specification accepts (AddField / SetValue is        *)
(*          enabled, or the value fits the explicit length);               *)
(*          "refused": it does not - AddField is NOT enabled although      *)
(*          another field may still be defined (name clash, definitely bad *)
(*          explicit position), or the value is too wide for the explicit  *)
(*          length (the design's ValuesFit)                                *)
(*   why    "", "clash", "bad", "wide"           (for the counters only)   *)
(*   after  the design's `fields` after the step: the predicted state      *)
(* and the last one, the layout decision                                   *)
(*   op "assign", feasible (some layout exists: assign_fields may succeed; *)
(*   otherwise it must refuse), guaranteed (the success guarantee: no      *)
(*   explicit position and the co-enabled widths fit), tree, load, after   *)
(*                                                                         *)
(* The simulator picks uniformly among the successor STATES, and an        *)
(* AddField has thousands of instances where a SetValue has a dozen, so    *)
(* the kind of the next operation, its length and its position are picked  *)
(* first (SPick, from the weighted list Kinds), the scope and the name     *)
(* after (SDo).  A pick that nothing can serve is picked again.  The kind  *)
(* of history (simmode: with or without explicit positions; any scope or   *)
(* only scopes that peel level by level) is chosen with the initial state. *)
(***************************************************************************)
EXTENDS BitFieldDesign, BitFieldLayouts, Json

CONSTANTS MaxOps,      \* most operations before the layout is asked for
          MinFields,   \* the layout is not asked for earlier than this many fields (unless MaxOps is reached)
          Strict       \* FALSE: "what fits has a layout" (a plausible slip; the agreement job must refute it)

VARIABLES simhist,     \* the history
          simpick,     \* what was picked for the next operation; NoPick = nothing yet
          simmode      \* the kind of history: pos = "mixed", or "auto": no explicit position (the success guarantee
                       \* applies); wild = 0: any scope, otherwise only scopes that peel level by level
svars == <<fields, place, phase, how, simhist, simpick, simmode>>

NoPick == [k |-> 0, fl |-> 0, fs |-> -1]
Kinds == <<"float", "float", "auto", "auto", "fixed", "fixed", "clash", "bad", "set", "set", "within", "wide", "assign">>
AssignKind == CHOOSE i \in 1..Len(Kinds) : Kinds[i] = "assign"
KindAllowed(k) == CASE k = "assign" -> Len(fields) >= MinFields
                    [] k \in {"fixed", "bad"} -> simmode.pos = "mixed"
                    [] OTHER -> TRUE
PickChoices ==
    IF Len(simhist) >= MaxOps THEN { [k |-> AssignKind, fl |-> 0, fs |-> -1] }
    ELSE [k : { i \in 1..Len(Kinds) : KindAllowed(Kinds[i]) },
          fl : Lens, fs : Starts]

Step(op, V, id, fl, fs, pred, why, aft) ==
    [op |-> op, scope |-> V, id |-> id, fl |-> fl, fs |-> fs, pred |-> pred, why |-> why, after |-> aft]
Log(s) == simhist' = Append(simhist, s)

\* the scopes a field can be defined in (BitFieldDesign!ScopeChoices filters all sets of <<name, value>> pairs;
\* here they are grown from the root by giving a value to one more visible field; ScopesAgree in the agreement job)
RECURSIVE GrowScopes(_, _)
GrowScopes(S, d) ==
    IF d = 0 THEN S
    ELSE GrowScopes(S \cup UNION { { V \cup {<<f.id, v>>} : v \in Vals } :
                                    <<V, f>> \in { <<V, f>> \in S \X FS : f.cond \subseteq V /\ f.id \notin Names(V) } }, d - 1)
SimScopes == GrowScopes({{}}, MaxDepth)
ScopesAgree == SimScopes = ScopeChoices
\* The values of a scope can be taken level by level, each level naming fields defined exactly under the levels
\* before it.  A scope that cannot (a=0, b=1, c=0 with c defined under a=0 only and b beside a) is as valid as any
\* other, but rig's add_field recurses without bound on it (known finding of C08), and what follows the refusal
\* is not judged any more; three histories in four keep to scopes that peel, so that few are cut short.
RECURSIVE Peels(_, _)
Peels(done, rest) ==
    IF rest = {} THEN TRUE
    ELSE LET layer == { p \in rest : \E f \in FS : f.id = p[1] /\ f.cond = done }
         IN  layer # {} /\ Peels(done \cup layer, rest \ layer)
ScopesOffered == IF simmode.wild = 0 THEN SimScopes ELSE { V \in SimScopes : Peels({}, V) }

NewOf(V, id, fl, fs) == [id |-> id, cond |-> V, flen |-> fl, fstart |-> fs, tags |-> {}, need |-> 1]
Clashes(V, id) == \E f \in FS : f.id = id /\ Compatible(f.cond, V)

\* the design accepts: its own action, and the history
SAdd(V, id, fl, fs) ==
    /\ AddField(V, id, fl, fs)
    /\ Log(Step("add", V, id, fl, fs, "ok", "", fields'))
\* the design refuses: another field could be defined, but not this one
MustRefuse(V, id, fl, fs) == Clashes(V, id) \/ DefinitelyBad(NewOf(V, id, fl, fs), FS, {}, BLen)
SRefused(V, id, fl, fs) ==
    /\ phase = "define" /\ Len(fields) < MaxFields
    /\ MustRefuse(V, id, fl, fs)           \* = ~ENABLED AddField(V, id, fl, fs): RefusalAgrees in the agreement job
    /\ UNCHANGED vars
    /\ Log(Step("add", V, id, fl, fs, "refused", IF Clashes(V, id) THEN "clash" ELSE "bad", fields))
SSet(i, w) ==
    /\ SetValue(i, w)
    /\ Log(Step("set", fields[i].cond, fields[i].id, w, -1, "ok", "", fields'))
\* a value for a field of explicit length: accepted iff it fits (ValuesFit); the state does not change
SWithin(i, w) ==
    /\ phase = "define" /\ fields[i].flen > 0 /\ w <= fields[i].flen /\ UNCHANGED vars
    /\ Log(Step("set", fields[i].cond, fields[i].id, w, -1, "ok", "", fields))
SWide(i, w) ==
    /\ phase = "define" /\ fields[i].flen > 0 /\ w > fields[i].flen /\ UNCHANGED vars
    /\ Log(Step("set", fields[i].cond, fields[i].id, w, -1, "refused", "wide", fields))

\* the layout decision, as the permissive post-condition of the design (AssignAny) decides it: done with some
\* valid layout if there is one, failed otherwise - without enumerating the layouts
SimFeasible == IF Strict THEN HasLayout(FS, BLen) ELSE Fits(FS, BLen)
SAssign ==
    /\ phase = "define" /\ how' = "any" /\ UNCHANGED <<fields, place>>
    /\ phase' = IF SimFeasible THEN "done" ELSE "failed"
    /\ Log([op |-> "assign", feasible |-> SimFeasible,
            guaranteed |-> (NoExplicitStart(FS) /\ Fits(FS, BLen)), tree |-> TreeShaped(FS),
            load |-> IF FS = {} THEN 0 ELSE MaxLoad(FS), after |-> fields])

SDoKind(k, p) ==
    CASE k = "auto"    -> \E V \in ScopesOffered : \E id \in IdChoices : SAdd(V, id, 0, -1)
      [] k = "float"   -> \E V \in ScopesOffered : \E id \in IdChoices : SAdd(V, id, p.fl, -1)
      [] k = "fixed"   -> \E V \in ScopesOffered : \E id \in IdChoices : SAdd(V, id, p.fl, p.fs)
      [] k = "clash"   -> \E V \in ScopesOffered : \E id \in IdChoices : \E fs \in {-1, p.fs} :
                              Clashes(V, id) /\ SRefused(V, id, p.fl, fs)
      [] k = "bad"     -> \E V \in ScopesOffered : \E id \in IdChoices : ~Clashes(V, id) /\ SRefused(V, id, p.fl, p.fs)
      [] k = "set"     -> \E i \in 1..Len(fields) : \E w \in 2..MaxNeed : SSet(i, w)
      [] k = "within"  -> \E i \in 1..Len(fields) : \E w \in 1..MaxNeed : SWithin(i, w)
      [] k = "wide"    -> \E i \in 1..Len(fields) : \E w \in 2..MaxNeed : SWide(i, w)
      [] k = "assign"  -> SAssign
SDo == /\ simpick # NoPick /\ SDoKind(Kinds[simpick.k], simpick) /\ simpick' = NoPick /\ UNCHANGED simmode
SPick == /\ phase = "define"
         /\ simpick = NoPick \/ ~ENABLED SDo
         /\ simpick' \in PickChoices
         /\ UNCHANGED <<vars, simhist, simmode>>
SInit == DInit /\ simhist = <<>> /\ simpick = NoPick /\ simmode \in [pos : {"auto", "mixed"}, wild : 0..3]
SNext == SPick \/ SDo
SSpec == SInit /\ [][SNext]_svars

\* evaluated as an invariant: prints the history once the layout has been decided
Emit == (phase # "define") => PrintT("INFO|" \o ToJson([blen |-> BLen, mode |-> simmode, hist |-> simhist]))

\* ---------------------------------------------------------------- the agreement job (exhaustive, small)
\* every set of fields the design can reach, without history
ANext == (AddAny \/ SetAny) /\ UNCHANGED <<simhist, simpick, simmode>>
AInit == DInit /\ simhist = <<>> /\ simpick = NoPick /\ simmode = [pos |-> "mixed", wild |-> 0]
ASpec == AInit /\ [][ANext]_svars
\* what the history calls refused is what the design's action does not accept
RefusalAgrees ==
    (phase = "define" /\ Len(fields) < MaxFields) =>
        \A V \in ScopeChoices : \A id \in IdChoices : \A fl \in Lens : \A fs \in Starts \cup {-1} :
            MustRefuse(V, id, fl, fs) <=> ~ENABLED AddField(V, id, fl, fs)
\* "some layout exists" as computed here is what the design's set of layouts says
FeasibleAgrees == SimFeasible <=> (ValidLayouts # {})
\* "this layout is allowed" as judged in the replay traces is membership of the design's set of layouts:
\* among ALL single-entry-per-field layouts of any position and length, the exact ones are the valid ones,
\* and the allowed ones differ from them only in automatic-length fields being wider
CandidateLayouts ==
    LET n == Len(fields)
        G == [1..n -> (0..BLen) \X (0..(BLen + 1))]
    IN  { { [id |-> fields[i].id, cond |-> fields[i].cond, loc |-> g[i][1], len |-> g[i][2]] : i \in 1..n } : g \in G }
MemberAgrees == LET valid == ValidLayouts  cands == CandidateLayouts IN
                /\ \A lay \in cands : ExactLayout(lay, FS, BLen) <=> lay \in valid
                /\ valid \subseteq cands
Narrowed(lay) == { [x EXCEPT !.len = Width(FieldOfEntry(x))] : x \in lay }
AllowedIsExactWidened ==
    LET valid == ValidLayouts IN
    \A lay \in CandidateLayouts : AllowedLayout(lay, FS, BLen) =>
        /\ Narrowed(lay) \in valid
        /\ \A x \in lay : x.len >= Width(FieldOfEntry(x))
=============================================================================
