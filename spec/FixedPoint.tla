----------------------------- MODULE FixedPoint -----------------------------
(***************************************************************************)
(* Fixed-point conversion (C16), written from the property statement:      *)
(*   ToFp(format, x) = clamp(trunc(x * 2^frac))                            *)
(* "the value scaled and truncated toward zero when that is representable  *)
(* and otherwise the nearest end of the format's range".                   *)
(*                                                                         *)
(* TLC has neither floats nor 64-bit integers, so every number is exact    *)
(* and symbolic:                                                           *)
(*  - a natural number is a BIT SEQUENCE, most significant bit first,      *)
(*    canonical = no leading 0, zero = <<>>;                               *)
(*  - a fixed-point value is [s, m]: sign (1 = negative) and magnitude     *)
(*    (canonical; zero has s = 0);                                         *)
(*  - a finite double is [s, m, e] denoting (-1)^s * m * 2^e with m a      *)
(*    natural of at most 53 bits (m need not be odd) and e an integer;     *)
(*  - a format is [signed, n, f]: n bits in total, f fractional bits.      *)
(* Scaling by 2^f, truncation and saturation then need no arithmetic other *)
(* than on lengths: shifting appends zeros or drops low bits, and a        *)
(* magnitude exceeds 2^k - 1 exactly when it has more than k bits.         *)
(***************************************************************************)
EXTENDS Integers, Sequences, FiniteSets, TLC

Zeros(k) == [i \in 1..k |-> 0]
Ones(k)  == [i \in 1..k |-> 1]
IsBits(p) == \A i \in 1..Len(p) : p[i] \in {0, 1}
Canonical(p) == IsBits(p) /\ (p = <<>> \/ p[1] = 1)
MaxI(a, b) == IF a > b THEN a ELSE b

\* ---------------------------------------------------------------- transport: big-endian 16-bit limbs -> bits
\* (JSON integers must stay below 2^31; the harness sends naturals as base-65536 digits, most significant
\*  first, without leading zero digits)
LimbsWellFormed(q) == (\A i \in 1..Len(q) : q[i] \in 0..65535) /\ (q = <<>> \/ q[1] # 0)
BitLen16(d) == CHOOSE k \in 0..16 : d < 2^k /\ (k = 0 \/ d >= 2^(k - 1))
NatOfLimbs(q) ==
    IF q = <<>> THEN <<>>
    ELSE LET k == BitLen16(q[1])
         IN  [i \in 1..(k + 16 * (Len(q) - 1)) |->
                 IF i <= k THEN (q[1] \div 2^(k - i)) % 2
                 ELSE LET j == i - k - 1 IN (q[2 + (j \div 16)] \div 2^(15 - (j % 16))) % 2]
FxOf(t)  == [s |-> t[1], m |-> NatOfLimbs(t[2])]                    \* <<sign, limbs>>
DblOf(t) == [s |-> t[1], m |-> NatOfLimbs(t[2]), e |-> t[3]]        \* <<sign, limbs, exponent>>
FxWellFormed(t)  == Len(t) = 2 /\ t[1] \in {0, 1} /\ LimbsWellFormed(t[2]) /\ (t[2] = <<>> => t[1] = 0)
DblWellFormed(t) == Len(t) = 3 /\ t[1] \in {0, 1} /\ LimbsWellFormed(t[2]) /\ Len(t[2]) <= 4
                    /\ Len(NatOfLimbs(t[2])) <= 53 /\ t[3] \in -1200..1200

\* ---------------------------------------------------------------- order on naturals, fixed values, doubles
RECURSIVE LexLess(_, _, _, _)
\* p < q when both are read from index i to index n, a missing position counting as 0
LexLess(p, q, i, n) ==
    IF i > n THEN FALSE
    ELSE LET a == IF i <= Len(p) THEN p[i] ELSE 0
             b == IF i <= Len(q) THEN q[i] ELSE 0
         IN  IF a # b THEN a < b ELSE LexLess(p, q, i + 1, n)
NatLess(p, q) == Len(p) < Len(q) \/ (Len(p) = Len(q) /\ LexLess(p, q, 1, Len(p)))      \* canonical p, q
FxLess(a, b) == IF a.s # b.s THEN a.s = 1
                ELSE IF a.s = 0 THEN NatLess(a.m, b.m) ELSE NatLess(b.m, a.m)
FxLE(a, b) == ~FxLess(b, a)
\* |x| < |y| for doubles: compare the position of the leading bit, then the bits
DblMagLess(x, y) ==
    IF y.m = <<>> THEN FALSE
    ELSE IF x.m = <<>> THEN TRUE
    ELSE LET tx == Len(x.m) + x.e
             ty == Len(y.m) + y.e
         IN  tx < ty \/ (tx = ty /\ LexLess(x.m, y.m, 1, MaxI(Len(x.m), Len(y.m))))
DblNeg(x) == x.s = 1 /\ x.m # <<>>                       \* -0 is not negative
DblLess(x, y) == IF DblNeg(x) THEN (IF DblNeg(y) THEN DblMagLess(y, x) ELSE TRUE)
                 ELSE (IF DblNeg(y) THEN FALSE ELSE DblMagLess(x, y))
DblLE(x, y) == ~DblLess(y, x)
DblEq(x, y) == ~DblLess(x, y) /\ ~DblLess(y, x)

\* ---------------------------------------------------------------- the format
MagBits(F) == IF F.signed THEN F.n - 1 ELSE F.n            \* bits available to a non-negative value
FxZero == [s |-> 0, m |-> <<>>]
MaxVal(F) == [s |-> 0, m |-> Ones(MagBits(F))]             \* 2^MagBits - 1
MinVal(F) == IF F.signed THEN [s |-> 1, m |-> <<1>> \o Zeros(F.n - 1)] ELSE FxZero   \* -2^(n-1) or 0
FxCanonical(v) == v.s \in {0, 1} /\ Canonical(v.m) /\ (v.m = <<>> => v.s = 0)
FxInRange(F, v) == FxCanonical(v) /\ FxLE(MinVal(F), v) /\ FxLE(v, MaxVal(F))

\* ---------------------------------------------------------------- scale, truncate, saturate
\* number of bits of floor(|x| * 2^f); <= 0 means that the truncated magnitude is zero
ScaledLen(x, f) == IF x.m = <<>> THEN 0 ELSE Len(x.m) + x.e + f
\* floor(|x| * 2^f) as canonical bits (only evaluated where ScaledLen is small)
TruncMag(x, f) ==
    LET sh == x.e + f IN
    IF x.m = <<>> \/ Len(x.m) + sh <= 0 THEN <<>>
    ELSE IF sh >= 0 THEN x.m \o Zeros(sh)
    ELSE SubSeq(x.m, 1, Len(x.m) + sh)
\* the domain of the property: the scaled value is still a finite double (|x| * 2^f < 2^1024)
Finite(x, f) == ScaledLen(x, f) <= 1024
\* trunc(x * 2^f) > MaxVal
OutAbove(F, x) == ~DblNeg(x) /\ ScaledLen(x, F.f) > MagBits(F)
\* trunc(x * 2^f) < MinVal
OutBelow(F, x) ==
    /\ DblNeg(x)
    /\ IF F.signed
       THEN \/ ScaledLen(x, F.f) > F.n
            \/ ScaledLen(x, F.f) = F.n /\ TruncMag(x, F.f) # <<1>> \o Zeros(F.n - 1)
       ELSE ScaledLen(x, F.f) > 0
OutOfRange(F, x) == OutAbove(F, x) \/ OutBelow(F, x)
\* trunc(x * 2^f) where it is representable
TruncVal(F, x) == LET mg == TruncMag(x, F.f) IN
                  IF mg = <<>> THEN FxZero ELSE [s |-> IF DblNeg(x) THEN 1 ELSE 0, m |-> mg]
ToFp(F, x) == IF OutAbove(F, x) THEN MaxVal(F)
              ELSE IF OutBelow(F, x) THEN MinVal(F)
              ELSE TruncVal(F, x)

\* ---------------------------------------------------------------- the other direction
\* v * 2^-f exactly; a double holds it exactly iff the magnitude spans at most 53 bits
RECURSIVE LastOne(_, _)
LastOne(p, i) == IF i = 0 THEN 0 ELSE IF p[i] = 1 THEN i ELSE LastOne(p, i - 1)
SigLen(p) == LastOne(p, Len(p))                 \* canonical p: bits from the leading to the last 1
ExactInDouble(v) == SigLen(v.m) <= 53
FloatOf(v, f) == [s |-> v.s, m |-> v.m, e |-> 0 - f]

\* ---------------------------------------------------------------- two's complement words
Pad(p, n) == Zeros(n - Len(p)) \o p
\* v mod 2^n as n bits (|v| <= 2^n): invert everything above the last 1 of the magnitude
TwosWord(v, n) ==
    LET P == Pad(v.m, n) IN
    IF v.s = 0 THEN P
    ELSE LET k == LastOne(P, n) IN [i \in 1..n |-> IF i < k THEN 1 - P[i] ELSE P[i]]
IsWordOf(w, v, n) == w.s = 0 /\ Len(w.m) <= n /\ Len(v.m) <= n /\ Pad(w.m, n) = TwosWord(v, n)
=============================================================================
