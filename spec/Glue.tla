-------------------------------- MODULE Glue --------------------------------
(***************************************************************************)
(* rig's glue utilities (beyond the listed properties): what each of them  *)
(* must return, written from their documentation.  Pure operators only.    *)
(*                                                                         *)
(*  sdram_alloc_for_vertices(controller, placements, allocations,          *)
(*        core_as_tag, sdram_resource, cores_resource, clear)              *)
(*     "a block of memory of the size specified by the sdram_resource      *)
(*      resource will be allocated for each vertex" (the position of the   *)
(*      allocation is not used); "the tag allocated will be the ID of the  *)
(*      first core used by the vertex, otherwise 0"; the blocks are        *)
(*      allocated on the vertex's chip in the name of the controller's     *)
(*      current application; a file-like view of each block is returned;   *)
(*      SpiNNakerMemoryError "if the memory cannot be allocated, or a tag  *)
(*      is already taken".  The machine side (what an allocation command   *)
(*      does, when it fails, what a stop signal releases) is Session.tla.  *)
(*  build_application_map(vertices_applications, placements, allocations,  *)
(*        core_resource)                                                   *)
(*     "for each application, for each used chip a set of core numbers     *)
(*      onto which the application should be loaded".                      *)
(*  build_routing_tables(routes, net_keys, omit_default_routes)            *)
(*     the per-chip tables of the routing trees (RouterLoad!TablesOf),     *)
(*     "with entries optionally omitted when the route does not change     *)
(*      direction (i.e. when default routing can be used)".                *)
(*                                                                         *)
(* A vertex of the allocation call travels as                              *)
(*     <<vid, x, y, sd, cr>>    sd / cr = <<>> (the vertex has no such     *)
(*     resource) or <<start, stop>>: its allocation of the resource the    *)
(*     CALLER named as sdram_resource / cores_resource.                    *)
(* A vertex of the application map as <<vid, application, x, y, cr>>.      *)
(***************************************************************************)
EXTENDS Session

RL == INSTANCE RouterLoad
RT == INSTANCE RoutingTable

----------------------------------------------------------------------------
\* sdram_alloc_for_vertices
HasSdram(v) == v[4] # <<>>
SizeOf(v) == v[4][2] - v[4][1]
TagOf(v, coreAsTag) == IF coreAsTag THEN v[5][1] ELSE 0
\* the documented domain: ids are distinct; where the first core is to be the tag the vertex has a cores allocation
InDomain(verts, coreAsTag) ==
    /\ \A i, j \in 1..Len(verts) : i < j => verts[i][1] # verts[j][1]
    /\ \A i \in 1..Len(verts) : /\ HasSdram(verts[i]) => verts[i][4][1] <= verts[i][4][2]
                                /\ (coreAsTag /\ HasSdram(verts[i])) => verts[i][5] # <<>>
\* what is to be allocated: <<vid, x, y, size, tag>> for every vertex that has the SDRAM resource - nothing for the others
Wanted(verts, coreAsTag) ==
    { <<v[1], v[2], v[3], SizeOf(v), TagOf(v, coreAsTag)>> : v \in { u \in SeqSet(verts) : HasSdram(u) } }
Req(w) == <<w[2], w[3], w[4], w[5]>>                   \* chip, size, tag of a wanted block
BlockOf(w, off, app) == <<w[2], w[3], off, w[4], w[5], app>>

\* The allocation requests made (reqs: sequence of <<x, y, size, tag>>, in the order rig chose - the order of
\* independent allocations is rig's to choose) are requests for wanted blocks, none made twice; when the call
\* returned, every wanted block was requested.
CountIn2(reqs, t) == Cardinality({ i \in 1..Len(reqs) : reqs[i] = t })
RequestsLegal(reqs, wanted, complete) ==
    /\ \A i \in 1..Len(reqs) : CountIn2(reqs, reqs[i]) <= Cardinality({ w \in wanted : Req(w) = reqs[i] })
    /\ complete => Len(reqs) = Cardinality(wanted)

\* The views returned (set of <<vid, offset, length>>) given the blocks the call created (new): one view per
\* vertex with SDRAM and for no other vertex; each covers exactly one new block on the vertex's chip, of the
\* vertex's size, carrying the vertex's tag, held by the application; every new block is viewed exactly once.
ViewsExact(views, wanted, new, app) ==
    /\ { vw[1] : vw \in views } = { w[1] : w \in wanted }
    /\ Cardinality(views) = Cardinality(wanted)
    /\ \A vw \in views : \E w \in wanted : w[1] = vw[1] /\ vw[3] = w[4] /\ BlockOf(w, vw[2], app) \in new
    /\ \A b \in new : Cardinality({ vw \in views : \E w \in wanted : w[1] = vw[1] /\ BlockOf(w, vw[2], app) = b }) = 1

\* Whether the whole call can succeed is a property of the problem, not of the order rig picks: every size is
\* positive, no tag is asked for twice on a chip or is already held there by the application, and on every chip
\* the blocks fit behind the break pointer (each block is rounded up to a word and followed by an 8-byte header,
\* the last header need not fit).
RECURSIVE SumAl4(_)
SumAl4(ws) == IF ws = {} THEN 0 ELSE LET w == CHOOSE w \in ws : TRUE IN Al4(w[4]) + 8 + SumAl4(ws \ {w})
Feasible(s, heap, wanted, app) ==
    /\ \A w \in wanted : w[4] > 0 /\ ~TagInUse(s, w[2], w[3], w[5], app)
    /\ \A w, u \in wanted : (w # u /\ w[2] = u[2] /\ w[3] = u[3] /\ w[5] # 0) => w[5] # u[5]
    /\ \A w \in wanted : LET here == { u \in wanted : u[2] = w[2] /\ u[3] = w[3] }
                         IN BrkOf(s, w[2], w[3]) + SumAl4(here) - 8 <= heap

----------------------------------------------------------------------------
\* build_application_map: the cores each application is to be loaded onto, as a set of <<application, x, y, core>>;
\* a vertex without the cores resource (or with an empty range of cores) contributes nothing
AppMapOf(verts) ==
    UNION { IF v[5] = <<>> THEN {} ELSE { <<v[2], v[3], v[4], c>> : c \in v[5][1]..(v[5][2] - 1) } : v \in SeqSet(verts) }
\* what was returned, map = sequence of <<application, x, y, sequence of cores>>
FlatMap(map) == UNION { { <<m[1], m[2], m[3], m[4][i]>> : i \in 1..Len(m[4]) } : m \in SeqSet(map) }
MapKeysOnce(map) == \A i, j \in 1..Len(map) : i < j => <<map[i][1], map[i][2], map[i][3]>> # <<map[j][1], map[j][2], map[j][3]>>

----------------------------------------------------------------------------
\* build_routing_tables.  Entries travel as in RouterLoad.tla: <<keylo, keyhi, masklo, maskhi, routes, sources>>.
\* All keys and masks of a problem agree above their low W bits (FixedBits), so that a 32-bit key either matches
\* no entry at all or is decided by its low W bits, which are enumerated.
LowEntry(q, W) == [key |-> q[1] % (2 ^ W), mask |-> q[3] % (2 ^ W), route |-> q[5], srcs |-> q[6]]
LowTable(t, W) == [i \in 1..Len(t) |-> LowEntry(t[i], W)]
HighPart(q, W) == << q[1] \div (2 ^ W), q[2], q[3] \div (2 ^ W), q[4] >>
FixedBits(keys, W) == \A i, j \in 1..Len(keys) : HighPart(keys[i], W) = HighPart(keys[j], W)
ChipsOfT(tabs) == { <<tabs[i][1], tabs[i][2]>> : i \in 1..Len(tabs) }
TableAt(tabs, ch) == IF ch \in ChipsOfT(tabs)
                     THEN tabs[CHOOSE i \in 1..Len(tabs) : <<tabs[i][1], tabs[i][2]>> = ch][3] ELSE <<>>
\* the reduced tables hold only entries of the full tables, each at most once
ReducedWithin(full, red) ==
    /\ ChipsOfT(red) \subseteq ChipsOfT(full)
    /\ \A i, j \in 1..Len(red) : i < j => <<red[i][1], red[i][2]>> # <<red[j][1], red[j][2]>>
    /\ \A r \in SeqSet(red) : /\ SeqSet(r[3]) \subseteq SeqSet(TableAt(full, <<r[1], r[2]>>))
                              /\ Cardinality(SeqSet(r[3])) = Len(r[3])
Omitted(full, red, ch) == SeqSet(TableAt(full, ch)) \ SeqSet(TableAt(red, ch))
\* only entries that do not change direction are left out: one source link, one route, the link opposite
OnlyStraightOmitted(full, red, W) ==
    \A ch \in ChipsOfT(full) : \A q \in Omitted(full, red, ch) : RT!Defaultable(LowEntry(q, W))
\* executing the router: every key the full table routes is routed identically by the reduced table - by its first
\* matching entry, or by default routing (straight on) where no entry matches any more
RoutingPreserved(full, red, W) ==
    \A ch \in ChipsOfT(full) : RT!Equivalent(LowTable(TableAt(full, ch), W), LowTable(TableAt(red, ch), W), W)
\* "do not create routing entries for routes which do not change direction": a straight-through entry whose keys
\* no other entry of the chip's table can match is certainly one default routing can stand in for
OmitsUnaliasedStraightRoutes(full, red, W) ==
    \A ch \in ChipsOfT(full) : \A q \in SeqSet(TableAt(red, ch)) :
        RT!Defaultable(LowEntry(q, W)) =>
            \E o \in SeqSet(TableAt(full, ch)) \ {q} : RT!IntersectsKM(LowEntry(q, W), LowEntry(o, W))
=============================================================================
