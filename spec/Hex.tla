------------------------------- MODULE Hex -------------------------------
(***************************************************************************)
(* The SpiNNaker chip fabric as a graph: a W x H array of chips, each with *)
(* six links numbered anticlockwise from east, wrapping modulo W and H     *)
(* (torus) or not (mesh).  Distances are defined by breadth-first closure  *)
(* of the neighbour relation, never by a closed form; closed forms are     *)
(* checked against them (see HexDesign.tla).                               *)
(***************************************************************************)
EXTENDS Integers, Sequences, FiniteSets, TLC

Links == 0..5                     \* E, NE, N, W, SW, S
VecX(l) == CASE l = 0 -> 1  [] l = 1 -> 1 [] l = 2 -> 0 [] l = 3 -> -1 [] l = 4 -> -1 [] l = 5 -> 0
VecY(l) == CASE l = 0 -> 0  [] l = 1 -> 1 [] l = 2 -> 1 [] l = 3 -> 0  [] l = 4 -> -1 [] l = 5 -> -1
Opp(l)  == (l + 3) % 6

Abs(n) == IF n < 0 THEN -n ELSE n
Max2(a, b) == IF a > b THEN a ELSE b
Min2(a, b) == IF a < b THEN a ELSE b

\* Neighbour of chip c = <<x, y>> over link l in a W x H torus.
Nbr(c, l, W, H) == << (c[1] + VecX(l)) % W, (c[2] + VecY(l)) % H >>
\* ... and in the unbounded mesh (no wrapping).
NbrMesh(c, l)   == << c[1] + VecX(l), c[2] + VecY(l) >>

Chips(W, H) == (0..(W-1)) \X (0..(H-1))

(***************************************************************************)
(* Breadth-first distance maps.                                            *)
(***************************************************************************)
RECURSIVE BfsTorus(_, _, _, _, _)
BfsTorus(W, H, dist, frontier, d) ==
    IF frontier = {} THEN dist
    ELSE LET next == { Nbr(c, l, W, H) : c \in frontier, l \in Links } \ DOMAIN dist
         IN  BfsTorus(W, H, TLCEval([c \in DOMAIN dist \cup next |-> IF c \in next THEN d + 1 ELSE dist[c]]),
                      next, d + 1)

\* distance from chip a to every chip of the W x H torus
TorusDistFrom(a, W, H) == BfsTorus(W, H, [c \in {a} |-> 0], {a}, 0)

\* Mesh distances inside the window -N..N squared, from the origin.  A shortest mesh path
\* between two points never needs to leave their bounding box, so window distances are exact.
RECURSIVE BfsMesh(_, _, _, _)
BfsMesh(N, dist, frontier, d) ==
    IF frontier = {} THEN dist
    ELSE LET next == { n \in { NbrMesh(c, l) : c \in frontier, l \in Links } :
                          Abs(n[1]) <= N /\ Abs(n[2]) <= N } \ DOMAIN dist
         IN  BfsMesh(N, TLCEval([c \in DOMAIN dist \cup next |-> IF c \in next THEN d + 1 ELSE dist[c]]),
                     next, d + 1)
MeshDistFromOrigin(N) == BfsMesh(N, [c \in {<<0, 0>>} |-> 0], {<<0, 0>>}, 0)

(***************************************************************************)
(* Three-axis vectors: (x, y, z) stands for the 2-D offset (x - z, y - z). *)
(* Walking it costs one hop per unit of each component.                    *)
(***************************************************************************)
XyzToXy(v)  == << v[1] - v[3], v[2] - v[3] >>
Hops(v)     == Abs(v[1]) + Abs(v[2]) + Abs(v[3])

\* Closed forms (what an implementation might compute); compared with BFS in HexDesign.
MeshClosed(dx, dy)  == IF (dx >= 0) = (dy >= 0) THEN Max2(Abs(dx), Abs(dy)) ELSE Abs(dx) + Abs(dy)
TorusClosed(dx, dy, W, H) ==
    LET x == dx % W  y == dy % H
    IN  Min2(Min2(Max2(x, y), W - x + y), Min2(x + H - y, Max2(W - x, H - y)))

(***************************************************************************)
(* Machines with faults (used by the routing modules).                     *)
(* m = [w, h, dead (set of chips), deadlinks (set of <<x, y, l>>), wrap]   *)
(***************************************************************************)
ChipAlive(m, c) == c[1] \in 0..(m.w-1) /\ c[2] \in 0..(m.h-1) /\ c \notin m.dead
LinkAlive(m, c, l) == ChipAlive(m, c) /\ <<c[1], c[2], l>> \notin m.deadlinks
\* A hop c -l-> n is usable iff the link is working at c and n is a working chip.
HopOK(m, c, l) == LinkAlive(m, c, l) /\ ChipAlive(m, Nbr(c, l, m.w, m.h))

RECURSIVE ReachFrom(_, _, _)
ReachFrom(m, seen, frontier) ==
    IF frontier = {} THEN seen
    ELSE LET next == { Nbr(c, l, m.w, m.h) : <<c, l>> \in { cl \in frontier \X Links : HopOK(m, cl[1], cl[2]) } }
                     \ seen
         IN ReachFrom(m, seen \cup next, next)
Reachable(m, a) == ReachFrom(m, {a}, {a})
LiveChips(m) == { c \in Chips(m.w, m.h) : c \notin m.dead }
\* every working chip can reach every other over working links (directed)
Connected(m) == \A a \in LiveChips(m) : Reachable(m, a) = LiveChips(m)
=============================================================================
