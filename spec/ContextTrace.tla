---------------------------- MODULE ContextTrace ----------------------------
(***************************************************************************)
(* Trace specification for C18.  One trace = one controller object driven  *)
(* through nested context blocks and command calls against a simulated     *)
(* network that records every datagram put on the wire.                    *)
(*                                                                         *)
(* Setup fields of a trace record:                                         *)
(*   kind  "mc" (MachineController) | "bmp" (BMPController)                *)
(*   init  map: the initial context given to the constructor               *)
(*   meths sequence of methods (see Context.tla) used in the trace, as     *)
(*         found by introspection of the decorated functions               *)
(*   mc:   w, h, rx, ry  machine size and root chip reported by the        *)
(*         simulated machine; up: chips whose Ethernet link it reports up; *)
(*         vbase: the per-core record base address it reports              *)
(*   bmp:  hosts: keys <<c, f>> / <<c, f, b>> given to the constructor     *)
(* Events:                                                                 *)
(*   <<"enter", map, ctx, sent, key>>  a block is entered; ctx = the map of *)
(*                                  (key > 0: a context object the program *)
(*                                  keeps and enters again; 0: fresh)      *)
(*                                  arguments the controller then reports  *)
(*   <<"app", pos, kw, outcome, sent, ctx>>  application(...) called and,  *)
(*                                  when outcome = <<"ok">>, entered       *)
(*   <<"exit", how, sent, ctx>>     the innermost block is left,           *)
(*                                  how = "normal" | "exception" |         *)
(*                                  "error <class>" when leaving failed    *)
(*   <<"invoke", name, pos, kw, outcome, sent>>  a command is called;      *)
(*                                  outcome <<"ok">> | <<"raise", class>>  *)
(*   <<"end", ctx>>                 closes the trace                       *)
(*   <<"keepapp", key>>             the application block just entered is  *)
(*                                  an object the program keeps (entered   *)
(*                                  again later by <<"enter", .., key>>)   *)
(*   <<"links", up>>                the machine's live Ethernet links are  *)
(*                                  now `up` (the environment's step)      *)
(*   <<"fileop", n, op, outcome, sent>>  the n-th file-like view returned  *)
(*                                  by sdram_alloc_as_filelike is read /   *)
(*                                  written / freed                        *)
(*   <<"cb", id, ctx>>              a function that the caller registered  *)
(*                                  with before_close(...) on the context  *)
(*                                  object of the innermost open block is  *)
(*                                  called while that block is being left  *)
(*                                  (commands it calls follow as "invoke"  *)
(*                                  events; the "exit" event comes after   *)
(*                                  and carries the datagrams of the leave *)
(*                                  itself)                                *)
(* sent = the datagrams put on the wire during the step.                   *)
(* State st: [stack, objs, up, known, files].                              *)
(***************************************************************************)
EXTENDS Context, Json, IOUtils

Traces == JsonDeserialize(IOEnv.TRACE_FILE)
VARIABLES tid, ei, st, verdict
vars == <<tid, ei, st, verdict>>
Tr == Traces[tid]
Ev == Tr.ev[ei]

SeqSet(q) == { q[i] : i \in 1..Len(q) }
\* blind = 1: the driver never asked the controller what is in force (asking is itself a call into the mechanism and
\* would refresh anything it caches); such traces are judged on the datagrams alone
Blind == Tr.blind = 1
\* A context object kept by the program can be entered several times (even inside itself), and
\* update_current_context changes the object itself: blocks made from a kept object (obj > 0) therefore take their
\* arguments from the object's current map, st.objs[obj].
ObjKnown(k) == \E o \in st.objs : o[1] = k
ObjMap(k) == (CHOOSE o \in st.objs : o[1] = k)[2]
\* <<>>, or <<a>> when the kept object is an application block for id a
ObjApp(k) == (CHOOSE o \in st.objs : o[1] = k)[3]
ArgsOf(b) == IF b.obj > 0 /\ ObjKnown(b.obj) THEN ObjMap(b.obj) ELSE b.args
Stk == [i \in 1..Len(st.stack) |-> [args |-> ArgsOf(st.stack[i]), app |-> st.stack[i].app]]
PushObj(stack, m, app, k) == Append(stack, [args |-> m, app |-> app, obj |-> k])
\* the map a block entered with the event's map and object key pushes
EnterMap(e) == IF e[5] > 0 /\ ObjKnown(e[5]) THEN ObjMap(e[5]) ELSE e[2]
MethNamed(name) == Tr.meths[CHOOSE i \in 1..Len(Tr.meths) : Tr.meths[i][1] = name]
KnownMeth(name) == \E i \in 1..Len(Tr.meths) : Tr.meths[i][1] = name
IntOf(r) == r[2]
TopBlock == Stk[Len(Stk)]
All(sent, P(_)) == \A i \in 1..Len(sent) : P(sent[i])

\* connections known to the machine controller in state st
\* (every chip found with its link up by some discover_connections() so far: connections are kept)
KnownConns == st.known
Discoverable == { c \in st.up : IsEthChip(c, Tr.rx, Tr.ry) /\ InsideMachine(c[1], c[2], Tr.w, Tr.h) }
\* "travels over the connection of the board that holds the target WHEN ONE IS KNOWN": only then is the connection
\* pinned; otherwise any connection the controller has will do (rig uses its first one, another choice - say the
\* nearest known board - is as good)
ConnOk(d) == IF /\ InsideMachine(DX(d), DY(d), Tr.w, Tr.h) /\ BoardDetermined(DX(d), DY(d), Tr.w, Tr.h, Tr.rx, Tr.ry)
                /\ LocalEth(DX(d), DY(d), Tr.w, Tr.h, Tr.rx, Tr.ry) \in KnownConns
             THEN DConn(d) = LocalEth(DX(d), DY(d), Tr.w, Tr.h, Tr.rx, Tr.ry)
             ELSE DConn(d) = InitialConn \/ DConn(d) \in KnownConns

----------------------------------------------------------------------------
\* clauses common to both controllers for a call of meth
CallClauses(meth, pos, kw, outcome, sent) ==
    LET lacking == Lacking(meth, pos, kw, Stk)
    IN [RequiredRejectedBeforeSend |-> lacking # {} => outcome = <<"raise", "TypeError">>,
        AcceptedWhenResolved       |-> lacking = {} => outcome = <<"ok">>,
        NothingSentOnReject        |-> outcome[1] = "raise" => sent = <<>>]

McInvoke(name, pos, kw, outcome, sent) ==
    LET meth == MethNamed(name)
        ok   == outcome = <<"ok">> /\ Lacking(meth, pos, kw, Stk) = {}
        R(k) == IntOf(Resolved(meth, pos, kw, Stk, k))
        cores == Declared(meth) \cap CoreNames
        core == CHOOSE k \in cores : TRUE
        scope == IF name \in Explorers THEN 1..(IF Len(sent) > 0 THEN 1 ELSE 0) ELSE 1..Len(sent)
    IN CallClauses(meth, pos, kw, outcome, sent) @@
       [CommandSent   |-> ok => Len(sent) > 0,
        ResolvedX     |-> (ok /\ "x" \in Declared(meth)) => \A i \in scope : DX(sent[i]) = R("x"),
        ResolvedY     |-> (ok /\ "y" \in Declared(meth)) => \A i \in scope : DY(sent[i]) = R("y"),
        \* the core: a datagram goes to the core the call resolved or, for methods that access a core's
        \* record, through the monitor - never to a core the call did not name
        ResolvedP     |-> (ok /\ cores # {}) =>
                             \A i \in scope : IF name \in DirectCore THEN DP(sent[i]) = R(core)
                                              ELSE DP(sent[i]) \in {R(core), 0},
        SubjectCoreAddressed |-> (ok /\ cores # {} /\ name \in SubjectCore) =>
                             \E i \in 1..Len(sent) : InVcpuBlock(sent[i], Tr.vbase, R(core)),
        ResolvedAppId |-> (ok /\ "app_id" \in Declared(meth)) =>
                             /\ \A i \in 1..Len(sent) : AppCarried(sent[i]) \in {<<>>, <<R("app_id")>>}
                             /\ \E i \in 1..Len(sent) : AppCarried(sent[i]) = <<R("app_id")>>,
        RightConnection |-> name # "discover_connections" => All(sent, ConnOk)]

BmpInvoke(name, pos, kw, outcome, sent) ==
    LET meth == MethNamed(name)
        ok   == outcome = <<"ok">> /\ Lacking(meth, pos, kw, Stk) = {}
        R(k) == IntOf(Resolved(meth, pos, kw, Stk, k))
        hosts == SeqSet(Tr.hosts)
        \* the one documented exception: power commands are always addressed to board 0 of the frame and
        \* name the board(s) in the mask of arg2; LED commands name them in both places
        Target(d) == IF DCmd(d) = 57 THEN 0 ELSE R("board")
    IN CallClauses(meth, pos, kw, outcome, sent) @@
       [CommandSent   |-> ok => Len(sent) > 0,
        ResolvedBoard |-> (ok /\ "board" \in Declared(meth)) =>
                             \A i \in 1..Len(sent) :
                                 /\ DP(sent[i]) = Target(sent[i])
                                 /\ DCmd(sent[i]) \in {25, 57} => sent[i][7] = BoardMask(R("board")),
        \* cabinet and frame are not in the datagram: they select the connection
        RightConnection |-> (ok /\ {"cabinet", "frame", "board"} \subseteq Declared(meth)) =>
                             \A i \in 1..Len(sent) :
                                 DConn(sent[i]) = ExpectedBmpConn(hosts, R("cabinet"), R("frame"), Target(sent[i]))]

ApplicationMeth == MethNamed("application")

Checks(e) ==
  CASE e[1] = "enter" ->
        [EnterInForce |-> Blind \/ AsSet(e[3]) = Merged(Push(Stk, EnterMap(e), <<>>)),
         NothingSentOnEnter |-> e[4] = <<>>]
    [] e[1] = "app" ->
        LET lacking == Lacking(ApplicationMeth, e[2], e[3], Stk)
            a == IntOf(Resolved(ApplicationMeth, e[2], e[3], Stk, "app_id"))
        IN CallClauses(ApplicationMeth, e[2], e[3], e[4], e[5]) @@
           [NothingSentOnEnter |-> e[5] = <<>>,
            EnterInForce |-> Blind \/ IF lacking = {} /\ e[4] = <<"ok">>
                             THEN AsSet(e[6]) = Merged(Push(Stk, <<<<"app_id", a>>>>, <<a>>))
                             ELSE AsSet(e[6]) = Merged(Stk)]
    [] e[1] = "exit" ->
        [BalancedExit |-> Len(Stk) > 1,
         \* leaving a block raises nothing of its own (the body's exception, or the refusal of the stop signal
         \* by the machine, are recorded as "exception")
         ExitCompletes |-> e[2] \in {"normal", "exception"},
         \* leaving restores exactly what was in force before the block was entered
         ExitRestores |-> (Len(Stk) > 1 /\ ~Blind) => AsSet(e[4]) = Merged(Pop(Stk)),
         \* an application block sends one stop signal, for its own id; any other block sends nothing
         ApplicationExitStops |-> Len(Stk) > 1 =>
                IF TopBlock.app = <<>> THEN e[3] = <<>>
                ELSE Len(e[3]) = 1 /\ IsStopFor(e[3][1], TopBlock.app[1]),
         RightConnection |-> Tr.kind = "mc" => All(e[3], ConnOk)]
    [] e[1] = "invoke" ->
        IF ~KnownMeth(e[2]) THEN [KnownMethod |-> FALSE]
        ELSE IF Tr.kind = "mc" THEN McInvoke(e[2], e[3], e[4], e[5], e[6])
        ELSE BmpInvoke(e[2], e[3], e[4], e[5], e[6])
    \* <<"update", map, ctx, sent>>: update_current_context(**map) was called
    [] e[1] = "update" ->
        [UpdateInForce |-> Blind \/ AsSet(e[3]) = Merged(Update(Stk, e[2])),
         NothingSentOnUpdate |-> e[4] = <<>>]
    \* rig.utils.contexts: before_close "call[s] the given function(s) before this context is exited": the block's
    \* arguments still apply while the caller's function runs (and to the commands it calls, judged as "invoke").  What
    \* else the caller registered changes nothing of what "exit" demands: ApplicationExitStops is judged as ever.
    [] e[1] = "cb" -> [CallbackBeforeExit |-> Len(Stk) > 1 /\ (Blind \/ AsSet(e[3]) = Merged(Stk))]
    [] e[1] = "keepapp" -> [KeptIsApplicationBlock |-> Len(Stk) > 1 /\ TopBlock.app # <<>>]
    [] e[1] = "links" -> [EnvironmentStep |-> TRUE]
    \* a file-like view stands for the chip its sdram_alloc_as_filelike call resolved: whatever blocks are open when
    \* it is used, its commands lack nothing, go to that chip and over that chip's board's connection
    [] e[1] = "fileop" ->
        [KnownFile |-> e[2] \in 1..Len(st.files),
         FileOpAccepted |-> e[4] = <<"ok">>,
         FileChip |-> e[2] \in 1..Len(st.files) =>
                         \A i \in 1..Len(e[5]) : DX(e[5][i]) = st.files[e[2]][1] /\ DY(e[5][i]) = st.files[e[2]][2],
         RightConnection |-> All(e[5], ConnOk)]
    [] e[1] = "end" ->
        [AllBlocksLeft |-> Len(Stk) = 1,
         ExitRestores  |-> Blind \/ AsSet(e[2]) = Merged(SubSeq(Stk, 1, 1))]
    [] OTHER -> [UnknownEvent |-> FALSE]

Apply(e) ==
  CASE e[1] = "enter" -> [st EXCEPT !.stack = PushObj(st.stack, e[2],
                                                       IF e[5] > 0 /\ ObjKnown(e[5]) THEN ObjApp(e[5]) ELSE <<>>, e[5]),
                                    !.objs = IF e[5] > 0 /\ ~ObjKnown(e[5]) THEN @ \cup {<<e[5], e[2], <<>>>>} ELSE @]
    [] e[1] = "keepapp" ->
        LET top == st.stack[Len(st.stack)]
        IN [st EXCEPT !.stack = [@ EXCEPT ![Len(st.stack)].obj = e[2]],
                      !.objs = @ \cup {<<e[2], top.args, top.app>>}]
    [] e[1] = "links" -> [st EXCEPT !.up = SeqSet(e[2])]
    [] e[1] = "app" ->
        IF e[4] = <<"ok">>
        THEN LET a == IntOf(Resolved(ApplicationMeth, e[2], e[3], Stk, "app_id"))
             IN [st EXCEPT !.stack = PushObj(st.stack, <<<<"app_id", a>>>>, <<a>>, 0)]
        ELSE st
    [] e[1] = "exit" -> [st EXCEPT !.stack = Pop(st.stack)]
    [] e[1] = "update" ->
        LET top == st.stack[Len(st.stack)]
        IN IF top.obj > 0 /\ ObjKnown(top.obj)
           THEN [st EXCEPT !.objs = { IF o[1] = top.obj THEN <<o[1], Updated(o[2], e[2]), o[3]>> ELSE o : o \in @ }]
           ELSE [st EXCEPT !.stack = Update(st.stack, e[2])]
    [] e[1] = "invoke" ->
        IF e[2] = "discover_connections" /\ e[5] = <<"ok">>
        THEN [st EXCEPT !.known = @ \cup Discoverable]
        ELSE IF e[2] = "sdram_alloc_as_filelike" /\ e[5] = <<"ok">> /\ KnownMeth(e[2])
        THEN LET meth == MethNamed(e[2])
             IN [st EXCEPT !.files = Append(@, <<IntOf(Resolved(meth, e[3], e[4], Stk, "x")),
                                                 IntOf(Resolved(meth, e[3], e[4], Stk, "y"))>>)]
        ELSE st
    [] OTHER -> st

\* what a rejection line says about the event, for the reader of the VIOLATION
Detail(e) == IF e[1] = "invoke"
             THEN e[2] \o " positional=" \o ToString(e[3]) \o " keywords=" \o ToString(e[4])
                  \o " in force=" \o ToString(Merged(Stk)) \o " outcome=" \o ToString(e[5])
                  \o " first datagrams <<conn, x, y, p, cmd>>="
                  \o ToString([i \in 1..Min2(Len(e[6]), 4) |-> <<e[6][i][1], e[6][i][2], e[6][i][3], e[6][i][4], e[6][i][5]>>])
             ELSE e[1] \o " in force before=" \o ToString(Merged(Stk))
Bad == LET ck == Checks(Ev) IN {c \in DOMAIN ck : ~ck[c]}
TInit == /\ tid \in 1..Len(Traces) /\ ei = 1 /\ verdict = <<>>
         /\ st = [stack |-> << [args |-> Traces[tid].init, app |-> <<>>, obj |-> 0] >>, objs |-> {},
                  up |-> IF Traces[tid].kind = "mc" THEN SeqSet(Traces[tid].up) ELSE {}, known |-> {}, files |-> <<>>]
TStep == /\ ei <= Len(Tr.ev) /\ verdict = <<>> /\ tid' = tid
         /\ LET bad == Bad
            IN IF bad = {} THEN ei' = ei + 1 /\ st' = Apply(Ev) /\ verdict' = verdict
               ELSE /\ PrintT("REJECT|" \o ToString(tid) \o "|" \o ToString(ei) \o "|" \o ToString(bad)
                              \o "|" \o Detail(Ev))
                    /\ verdict' = <<ei, bad>> /\ ei' = ei /\ st' = st
TSpec == TInit /\ [][TStep]_vars
=============================================================================
