----------------------- MODULE OrderedCoveringDesign -----------------------
(***************************************************************************)
(* Design job for C04: the ordered-covering rules as a state machine.      *)
(* Starting from every orthogonal table (in any order) and every           *)
(* generality-ordered overlapping table over W key bits, the table is      *)
(* sorted stably by generality; then any merge that passes the up-check    *)
(* (rule a) and the down-check against the aliases of lower entries (rule  *)
(* b) may fire, in any order, any number of times; finally default-routed  *)
(* entries are dropped.  Invariant: the table stays Equivalent to the      *)
(* original.  The choice of the "best" merge is deliberately not modelled: *)
(* any valid merge may fire, so every schedule rig could follow is covered.*)
(***************************************************************************)
EXTENDS RoutingTable

CONSTANTS W, MaxLen, RouteVals, SrcVals

KMs == { km \in (0..(Pow2(W)-1)) \X (0..(Pow2(W)-1)) : (km[1] & km[2]) = km[1] }
Entry(km, r, s) == [key |-> km[1], mask |-> km[2], route |-> r, srcs |-> s, al |-> {km}]
Entries == { Entry(km, r, s) : km \in KMs, r \in RouteVals, s \in SrcVals }
Gen(e) == Generality(e, W)

VARIABLES orig, table, phase
vars == <<orig, table, phase>>

\* stable sort by generality: entries of generality g keep their relative order
OfGen(t, g) == SelectSeq(t, LAMBDA e : Gen(e) = g)
RECURSIVE SortFrom(_, _)
SortFrom(t, g) == IF g > W THEN <<>> ELSE OfGen(t, g) \o SortFrom(t, g + 1)
StableSort(t) == SortFrom(t, 0)

DistinctKM(t) == \A i, j \in 1..Len(t) : i < j => <<t[i].key, t[i].mask>> # <<t[j].key, t[j].mask>>
ValidInput(t) == DistinctKM(t) /\ (Orthogonal(t) \/ GeneralityOrdered(t, W))

\* The input table is built entry by entry (every prefix of a valid input is a valid input), which lets
\* TLC enumerate the valid inputs without first constructing all sequences.
DInit == orig = <<>> /\ table = <<>> /\ phase = "building"
AddEntry(e) == /\ phase = "building" /\ Len(orig) < MaxLen /\ ValidInput(Append(orig, e))
               /\ orig' = Append(orig, e) /\ UNCHANGED <<table, phase>>
Start == /\ phase = "building" /\ table' = StableSort(orig) /\ phase' = "merging" /\ UNCHANGED orig

\* covering key/mask of a set of entries: keep the bits every member fixes to the same value
CoverMask(t, S) == LET allm == CHOOSE m \in 0..(Pow2(W)-1) :
                                  \A b \in 0..(W-1) : ((m \div Pow2(b)) % 2 = 1) <=>
                                      /\ \A i \in S : (t[i].mask \div Pow2(b)) % 2 = 1
                                      /\ \A i, j \in S : (t[i].key \div Pow2(b)) % 2 = (t[j].key \div Pow2(b)) % 2
                   IN allm
CoverKey(t, S) == (t[CHOOSE i \in S : TRUE].key) & CoverMask(t, S)
UnionBits(t, S) == LET F[T \in SUBSET S] == IF T = {} THEN 0
                                            ELSE LET i == CHOOSE i \in T : TRUE IN t[i].srcs | F[T \ {i}]
                   IN F[S]

Merged(t, S) == [key |-> CoverKey(t, S), mask |-> CoverMask(t, S),
                 route |-> t[CHOOSE i \in S : TRUE].route, srcs |-> UnionBits(t, S),
                 al |-> UNION { t[i].al : i \in S }]
\* the merged entry goes after every entry of lower generality
InsertAt(t, g) == Cardinality({ i \in 1..Len(t) : Gen(t[i]) < g }) + 1
AsKM(km) == [key |-> km[1], mask |-> km[2]]
UpOK(t, S, pos) == \A i \in S : \A j \in (i+1)..(pos-1) : j \notin S => ~IntersectsKM(t[i], t[j])
DownOK(t, S, pos, m) == \A j \in pos..Len(t) : j \notin S =>
                            \A a \in t[j].al : ~IntersectsKM(m, AsKM(a))
ApplyMerge(t, S, pos, m) ==
    LET before == SelectSeq([i \in 1..Len(t) |-> [e |-> t[i], keep |-> i < pos /\ i \notin S]], LAMBDA x : x.keep)
        after  == SelectSeq([i \in 1..Len(t) |-> [e |-> t[i], keep |-> i >= pos /\ i \notin S]], LAMBDA x : x.keep)
    IN  [i \in 1..Len(before) |-> before[i].e] \o <<m>> \o [i \in 1..Len(after) |-> after[i].e]

Merge(S) == /\ phase = "merging" /\ Cardinality(S) >= 2
            /\ \A i, j \in S : table[i].route = table[j].route
            /\ LET m == Merged(table, S)  pos == InsertAt(table, Gen(m))
               IN /\ UpOK(table, S, pos) /\ DownOK(table, S, pos, m)
                  /\ table' = ApplyMerge(table, S, pos, m)
            /\ UNCHANGED <<orig, phase>>
\* default-route removal: one pass against the pre-step table
Droppable(t, i) == Defaultable(t[i]) /\ \A j \in (i+1)..Len(t) : ~IntersectsKM(t[i], t[j])
DropDefaults == /\ phase = "merging"
                /\ table' = LET kept == SelectSeq([i \in 1..Len(table) |-> [e |-> table[i], keep |-> ~Droppable(table, i)]],
                                                  LAMBDA x : x.keep)
                            IN [i \in 1..Len(kept) |-> kept[i].e]
                /\ phase' = "done" /\ UNCHANGED orig
MergeAny == \E S \in SUBSET (1..Len(table)) : Merge(S)
DNext == (\E e \in Entries : AddEntry(e)) \/ Start \/ MergeAny \/ DropDefaults
DSpec == DInit /\ [][DNext]_vars

Strip(t) == [i \in 1..Len(t) |-> [key |-> t[i].key, mask |-> t[i].mask, route |-> t[i].route, srcs |-> t[i].srcs]]
Preserved == phase # "building" => Equivalent(Strip(orig), Strip(table), W)
NeverLonger == phase # "building" => Len(table) <= Len(orig)
StaysOrdered == phase = "merging" => GeneralityOrdered(table, W)
=============================================================================
