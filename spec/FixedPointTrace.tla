--------------------------- MODULE FixedPointTrace ---------------------------
(***************************************************************************)
(* Trace specification for C16.  One trace = one format and a batch of     *)
(* calls of rig.type_casts made with it.  Trace record:                    *)
(*   fmt : <<signed (0/1), n_bits, n_frac>>                                *)
(*   n   : number of events before the closing "ok"                        *)
(*   ev  : the events.  Numbers travel exactly (see FixedPoint.tla):       *)
(*         X = <<sign, limbs, exponent>>  a finite double (-1)^s * m * 2^e *)
(*         V = <<sign, limbs>>            an integer (fixed-point value or *)
(*                                        unsigned word), limbs = base     *)
(*                                        65536, most significant first    *)
(* Conversions of floats, inputs in ascending order; the array and the     *)
(* deprecated call follow the scalar call on the same input:               *)
(*   <<"fp",  X, V>>   float_to_fp(fmt)(X) = V                             *)
(*   <<"np",  X, V>>   the element of NumpyFloatToFixConverter(fmt)(array) *)
(*                     at the position of X is V                           *)
(*   <<"fix", X, V>>   float_to_fix(fmt)(X) = V  (unsigned word)           *)
(* The other direction and back again, for a value V0 of the format:       *)
(*   <<"inv_fp",  V0, X, V>>      X = fp_to_float(n_frac)(V0),             *)
(*                                V = float_to_fp(fmt)(X)                  *)
(*   <<"inv_np",  V0, X, V>>      the same through NumpyFixToFloatConverter*)
(*                                and NumpyFloatToFixConverter (arrays)    *)
(*   <<"inv_fix", V0, W, X, V>>   W = the word passed, X = fix_to_float    *)
(*                                (fmt)(W), V = float_to_fix(fmt)(X)       *)
(*   <<"npshape", kind, given, got>>     an array converter ("to_fix" /    *)
(*                                       "to_float") was given an array of *)
(*                                       shape `given` without elements    *)
(*                                       and returned one of shape `got`   *)
(*   <<"raise", api, argument, class>>   the call raised                   *)
(*   <<"ok">>                            closes the trace                  *)
(* State st: number of events seen, the last scalar events ("fp",          *)
(* "inv_fp") the relational clauses refer to, the last "np" event.         *)
(***************************************************************************)
EXTENDS FixedPoint, Json, IOUtils

Traces == JsonDeserialize(IOEnv.TRACE_FILE)
VARIABLES tid, ei, st, verdict
vars == <<tid, ei, st, verdict>>
Tr == Traces[tid]
Ev == Tr.ev[ei]
Fmt == [signed |-> Tr.fmt[1] = 1, n |-> Tr.fmt[2], f |-> Tr.fmt[3]]

\* clauses shared by the scalar and the array conversion of double x into value r (raw r must be well formed)
Exact(x, r) == r = ToFp(Fmt, x)
\* the deprecated functions exist only for formats validate_fp_params accepts
Follows(prev, pos, arg) == prev # <<>> /\ prev[pos] = arg

Checks(e) ==
  CASE e[1] = "fp" ->
        LET x == DblOf(e[2])  r == FxOf(e[3]) IN
        [WellFormed      |-> DblWellFormed(e[2]) /\ FxWellFormed(e[3]),
         InputInDomain   |-> Finite(x, Fmt.f),
         InputsAscending |-> st.fp = <<>> \/ DblLE(DblOf(st.fp[2]), x),
         InRange         |-> FxInRange(Fmt, r),
         Saturates       |-> OutOfRange(Fmt, x) => Exact(x, r),
         TruncTowardZero |-> ~OutOfRange(Fmt, x) => Exact(x, r),
         Monotone        |-> st.fp = <<>> \/ (DblLE(DblOf(st.fp[2]), x) => FxLE(FxOf(st.fp[3]), r))]
    [] e[1] = "np" ->
        LET x == DblOf(e[2])  r == FxOf(e[3]) IN
        [WellFormed            |-> DblWellFormed(e[2]) /\ FxWellFormed(e[3]),
         FollowsScalarCall     |-> Follows(st.fp, 2, e[2]),
         ArrayInRange          |-> FxInRange(Fmt, r),
         ArraySaturates        |-> OutOfRange(Fmt, x) => Exact(x, r),
         ArrayTruncTowardZero  |-> ~OutOfRange(Fmt, x) => Exact(x, r),
         ArrayMonotone         |-> st.np = <<>> \/ (DblLE(DblOf(st.np[2]), x) => FxLE(FxOf(st.np[3]), r)),
         ArrayAgreesWithScalar |-> Follows(st.fp, 2, e[2]) => e[3] = st.fp[3]]
    [] e[1] = "fix" ->
        LET w == FxOf(e[3]) IN
        [WellFormed             |-> DblWellFormed(e[2]) /\ FxWellFormed(e[3]),
         FollowsScalarCall      |-> Follows(st.fp, 2, e[2]),
         UnsignedVariantsModulo |-> Follows(st.fp, 2, e[2]) => IsWordOf(w, FxOf(st.fp[3]), Fmt.n)]
    [] e[1] = "inv_fp" ->
        LET v == FxOf(e[2])  x == DblOf(e[3])  b == FxOf(e[4]) IN
        [WellFormed        |-> FxWellFormed(e[2]) /\ DblWellFormed(e[3]) /\ FxWellFormed(e[4]),
         ValueInFormat     |-> FxInRange(Fmt, v),
         RoundTrip         |-> ExactInDouble(v) => b = v,
         FloatDenotesValue |-> ExactInDouble(v) => ToFp(Fmt, x) = v,
         BackSaturates       |-> OutOfRange(Fmt, x) => Exact(x, b),
         BackTruncTowardZero |-> ~OutOfRange(Fmt, x) => Exact(x, b)]
    [] e[1] = "inv_np" ->
        LET v == FxOf(e[2])  x == DblOf(e[3])  b == FxOf(e[4]) IN
        [WellFormed            |-> FxWellFormed(e[2]) /\ DblWellFormed(e[3]) /\ FxWellFormed(e[4]),
         FollowsScalarCall     |-> Follows(st.inv, 2, e[2]),
         ArrayRoundTrip        |-> ExactInDouble(v) => b = v,
         ArrayAgreesWithScalar |-> Follows(st.inv, 2, e[2]) => (DblEq(x, DblOf(st.inv[3])) /\ e[4] = st.inv[4])]
    [] e[1] = "inv_fix" ->
        LET v == FxOf(e[2])  w == FxOf(e[3])  x == DblOf(e[4])  b == FxOf(e[5]) IN
        [WellFormed             |-> FxWellFormed(e[2]) /\ FxWellFormed(e[3]) /\ DblWellFormed(e[4]) /\ FxWellFormed(e[5]),
         FollowsScalarCall      |-> Follows(st.inv, 2, e[2]),
         WordEncodesValue       |-> IsWordOf(w, v, Fmt.n),
         UnsignedVariantsModulo |-> Follows(st.inv, 2, e[2]) =>
                                       (DblEq(x, DblOf(st.inv[3])) /\ IsWordOf(b, FxOf(st.inv[4]), Fmt.n))]
    [] e[1] = "npshape" ->
        \* "arrays of any shape", also those without elements: what an array converter returns has the shape of what
        \* it was given (shapes travel as strings, "2x0x2"; a call that raised as "raised <class>")
        [ShapePreserved |-> e[2] \in {"to_fix", "to_float"} /\ e[4] = e[3]]
    [] e[1] = "raise" ->
        \* inside the domain every call returns a value
        [NoException |-> e[2] \in {"fp", "np", "fix"} /\ ~Finite(DblOf(e[3]), Fmt.f)]
    [] e[1] = "ok" ->
        [Complete |-> st.cnt = Tr.n,
         \* the deprecated functions exist for every format with n_frac (+ sign bit) <= n_bits
         DeprecatedVariantAvailable |-> (Fmt.f >= 0 /\ Fmt.f + Tr.fmt[1] <= Fmt.n) => Tr.fix = 1]
    [] OTHER -> [UnknownEvent |-> FALSE]

Apply(e) ==
    [cnt |-> st.cnt + 1,
     fp  |-> IF e[1] = "fp" THEN e ELSE st.fp,
     np  |-> IF e[1] = "np" THEN e ELSE st.np,
     inv |-> IF e[1] = "inv_fp" THEN e ELSE st.inv]
St0 == [cnt |-> 0, fp |-> <<>>, np |-> <<>>, inv |-> <<>>]

Bad == LET ck == Checks(Ev) IN {c \in DOMAIN ck : ~ck[c]}
TInit == tid \in 1..Len(Traces) /\ ei = 1 /\ st = St0 /\ verdict = <<>>
TStep == /\ ei <= Len(Tr.ev) /\ verdict = <<>> /\ tid' = tid
         /\ IF Bad = {} THEN ei' = ei + 1 /\ st' = Apply(Ev) /\ verdict' = verdict
            ELSE /\ PrintT("REJECT|" \o ToString(tid) \o "|" \o ToString(ei) \o "|" \o ToString(Bad))
                 /\ verdict' = <<ei, Bad>> /\ ei' = ei /\ st' = st
TSpec == TInit /\ [][TStep]_vars
=============================================================================
