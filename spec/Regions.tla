------------------------------ MODULE Regions ------------------------------
(***************************************************************************)
(* Meaning of a flood-fill region word (C12), after "Managing Big          *)
(* SpiNNaker Machines": bits 31:24 x and 23:18 y of the block's base, bits *)
(* 17:16 the level L, bits 15:0 select sixteen sub-blocks.  A level-L      *)
(* block is 4^(4-L) chips square and its sub-blocks 4^(3-L); select bit    *)
(* sx + 4*sy picks the sub-block at base + (sx, sy) * sub-block size.      *)
(* A word travels as its four bytes <<b3, b2, b1, b0>> (b3 most            *)
(* significant) because TLC integers are 32-bit signed.                    *)
(***************************************************************************)
EXTENDS Integers, Sequences, FiniteSets, TLC

Pow4(n) == CASE n = 0 -> 1 [] n = 1 -> 4 [] n = 2 -> 16 [] n = 3 -> 64 [] n = 4 -> 256
BaseX(wd)  == wd[1]
BaseY(wd)  == wd[2] - (wd[2] % 4)
Level(wd)  == wd[2] % 4
Select(wd) == wd[3] * 256 + wd[4]
SubSize(wd) == Pow4(3 - Level(wd))

Bit(n, i) == (n \div (2 ^ i)) % 2 = 1
RECURSIVE PopCount(_)
PopCount(n) == IF n = 0 THEN 0 ELSE (n % 2) + PopCount(n \div 2)

\* does region word wd select chip (x, y)?
CoversChip(wd, x, y) ==
    LET sz == SubSize(wd)  dx == x - BaseX(wd)  dy == y - BaseY(wd)
    IN  /\ dx >= 0 /\ dy >= 0 /\ dx < 4 * sz /\ dy < 4 * sz
        /\ Bit(Select(wd), (dx \div sz) + 4 * (dy \div sz))
\* number of chips a word selects, and of (chip, core) pairs a (word, mask) pair selects
ChipCount(wd) == PopCount(Select(wd)) * SubSize(wd) * SubSize(wd)
PairCount(pr) == ChipCount(<<pr[1], pr[2], pr[3], pr[4]>>) * PopCount(pr[5])
\* a well-formed word: base aligned to its block size
WellFormed(wd) == LET bs == 4 * SubSize(wd) IN BaseX(wd) % bs = 0 /\ BaseY(wd) % bs = 0 /\ BaseX(wd) < 256

\* lexicographic order on (word, mask)
Key(pr) == <<pr[1], pr[2], pr[3], pr[4], pr[5]>>
RECURSIVE LexLess(_, _, _)
LexLess(a, b, i) == IF i > Len(a) THEN FALSE
                    ELSE IF a[i] < b[i] THEN TRUE ELSE IF a[i] > b[i] THEN FALSE ELSE LexLess(a, b, i + 1)

\* sum of q[lo..hi], by halving (recursion depth log n: target lists have thousands of entries)
RECURSIVE SumRange(_, _, _)
SumRange(q, lo, hi) == IF lo > hi THEN 0 ELSE IF lo = hi THEN q[lo]
                       ELSE LET mid == (lo + hi) \div 2 IN SumRange(q, lo, mid) + SumRange(q, mid + 1, hi)
SumSeq(q, i) == SumRange(q, i, Len(q))
=============================================================================
