---------------------------- MODULE AllocateTrace ----------------------------
(***************************************************************************)
(* Trace specification for C05.  One trace = one call of allocate().       *)
(* Setup fields of the trace record:                                       *)
(*   caps   : sequence of <<x, y, resource, capacity>> (chips holding      *)
(*            vertices, capacities after per-chip exceptions)              *)
(*   gres   : sequence of <<resource, start, stop>> reserved everywhere    *)
(*   lres   : sequence of <<x, y, resource, start, stop>> reserved on one  *)
(*            chip                                                         *)
(*   aligns : sequence of <<resource, alignment>>                          *)
(*   reqs   : sequence of <<vertex, x, y, resource, size>>                 *)
(* Events: <<"grant", vertex, x, y, resource, start, stop>> for every      *)
(* (vertex, resource) of the returned allocation, then <<"ok">>; or        *)
(* <<"raise", exception class name>>.                                      *)
(* State st: the set of grants seen so far.                                *)
(***************************************************************************)
EXTENDS Allocate, Json, IOUtils

Traces == JsonDeserialize(IOEnv.TRACE_FILE)
VARIABLES tid, ei, st, verdict
vars == <<tid, ei, st, verdict>>
Tr == Traces[tid]
Ev == Tr.ev[ei]

SeqSet(q) == { q[i] : i \in 1..Len(q) }
CapOf(x, y, rs) == LET m == { c \in SeqSet(Tr.caps) : c[1] = x /\ c[2] = y /\ c[3] = rs }
                   IN IF m = {} THEN -1 ELSE (CHOOSE c \in m : TRUE)[4]
AlignOf(rs) == LET m == { a \in SeqSet(Tr.aligns) : a[1] = rs } IN IF m = {} THEN 1 ELSE (CHOOSE a \in m : TRUE)[2]
\* reserved ranges that apply to resource rs of chip (x, y)
Reserved(x, y, rs) == { <<g[2], g[3]>> : g \in { g \in SeqSet(Tr.gres) : g[1] = rs } }
                      \cup { <<g[4], g[5]>> : g \in { g \in SeqSet(Tr.lres) : g[1] = x /\ g[2] = y /\ g[3] = rs } }
ReqOf(v, rs) == { r \in SeqSet(Tr.reqs) : r[1] = v /\ r[4] = rs }
Demand(x, y, rs) == LET q == SelectSeq(Tr.reqs, LAMBDA r : r[2] = x /\ r[3] = y /\ r[4] = rs)
                        F[i \in 0..Len(q)] == IF i = 0 THEN 0 ELSE F[i-1] + q[i][5]
                    IN F[Len(q)]
ChipRes == { <<r[2], r[3], r[4]>> : r \in SeqSet(Tr.reqs) }
NoAlignment == \A a \in SeqSet(Tr.aligns) : a[2] = 1
\* the precondition of the completeness sentence: no alignment, reservations only at the ends
\* (and not overlapping one another), total demand within what is left
EasyAndFeasible ==
    /\ NoAlignment
    /\ \A cr \in ChipRes :
          LET R == Reserved(cr[1], cr[2], cr[3])  cap == CapOf(cr[1], cr[2], cr[3])
          IN /\ cap >= 0 /\ OnlyAtEnds(R, cap) /\ \A r \in R : Within(r, cap)
             /\ Demand(cr[1], cr[2], cr[3]) <= FreeUnits(R, cap)

Checks(e) ==
  CASE e[1] = "grant" ->
        LET v == e[2]  x == e[3]  y == e[4]  rs == e[5]  rg == <<e[6], e[7]>>
            rq == ReqOf(v, rs)
        IN [Requested  |-> Cardinality(rq) = 1 /\ \A r \in rq : r[2] = x /\ r[3] = y,
            ExactSize  |-> \A r \in rq : RLen(rg) = r[5],
            InRange    |-> Within(rg, CapOf(x, y, rs)),
            OnAlignment |-> AlignedTo(rg, AlignOf(rs)),
            Unreserved |-> \A r \in Reserved(x, y, rs) : ~Overlap(rg, r),
            Disjoint   |-> \A g \in st : (g[2] = x /\ g[3] = y /\ g[4] = rs) => ~Overlap(rg, <<g[5], g[6]>>),
            Once       |-> \A g \in st : ~(g[1] = v /\ g[4] = rs)]
    [] e[1] = "ok" ->
        [AllGranted |-> \A r \in SeqSet(Tr.reqs) : \E g \in st : g[1] = r[1] /\ g[4] = r[4]]
    [] e[1] = "raise" ->
        [OnlyDocumentedError |-> e[2] = "InsufficientResourceError",
         Complete            |-> ~EasyAndFeasible]
    [] OTHER -> [UnknownEvent |-> FALSE]

Apply(e) == IF e[1] = "grant" THEN st \cup {<<e[2], e[3], e[4], e[5], e[6], e[7]>>} ELSE st

Bad == {c \in DOMAIN Checks(Ev) : ~Checks(Ev)[c]}
TInit == tid \in 1..Len(Traces) /\ ei = 1 /\ st = {} /\ verdict = <<>>
TStep == /\ ei <= Len(Tr.ev) /\ verdict = <<>> /\ tid' = tid
         /\ IF Bad = {} THEN ei' = ei + 1 /\ st' = Apply(Ev) /\ verdict' = verdict
            ELSE /\ PrintT("REJECT|" \o ToString(tid) \o "|" \o ToString(ei) \o "|" \o ToString(Bad))
                 /\ verdict' = <<ei, Bad>> /\ ei' = ei /\ st' = st
TSpec == TInit /\ [][TStep]_vars
=============================================================================
