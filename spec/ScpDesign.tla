----------------------------- MODULE ScpDesign -----------------------------
(***************************************************************************)
(* Design job for C06: the rules of the windowed SCP client - a table of   *)
(* unanswered commands keyed by sequence number, a per-command try counter *)
(* and deadline, callbacks queued when the matching "ok" reply is read -   *)
(* composed with a network that loses, delays, reorders and duplicates     *)
(* datagrams, a machine that answers ok / retryable / fatal, and a clock.  *)
(* TLC explores every interleaving at small constants and checks that the  *)
(* rules imply the property.                                               *)
(*                                                                         *)
(* The client's steps may be taken in any order their guards allow (rig's  *)
(* loop takes them in one particular order), so the result does not depend *)
(* on the order of the phases of the loop.                                 *)
(*                                                                         *)
(* Time: every unanswered command carries its age (ticks since its last    *)
(* transmission), capped one tick beyond its time-out - only "age >        *)
(* time-out" matters after that, which keeps the state space finite.  A    *)
(* reply in `net` may be delivered at any later moment (arbitrary delay    *)
(* and reordering), delivered again (Duplicate) or never (DropReply).      *)
(* A request that is lost produces no reply (ReqLost branch of Transmit). *)
(*                                                                         *)
(* Several bursts run one after the other on the same connection: the      *)
(* sequence counter and the replies still in the network survive the end   *)
(* of a burst (return, time-out or fatal error).                           *)
(*                                                                         *)
(* Lifetime = TRUE is the modelling assumption of the check: a reply is    *)
(* not delivered after its sequence number has been re-issued to another   *)
(* command (datagram lifetime < one cycle of the sequence counter - rig's  *)
(* own XXX comment).  With Lifetime = FALSE the job must FAIL (RightReply):*)
(* that run documents why the assumption is needed.                        *)
(***************************************************************************)
EXTENDS Scp

CONSTANTS NCmd,        \* commands per burst
          Windows,     \* set of window sizes explored
          TriesSet,    \* set of retry limits explored
          SeqMod,      \* size of the sequence-number space
          T0,          \* default time-out in ticks
          Extra,       \* per-command extra time-out, a sequence of length NCmd
          NBursts,     \* bursts per connection
          RcKinds,     \* subset of {"ok", "retry", "fatal"} the machine may answer with
          MaxNet,      \* replies the network can hold (more are lost)
          Lifetime,    \* the modelling assumption (see above)
          KeepHistory  \* TRUE only for simulation runs whose behaviours become schedules for the real code

\* values for the cfg files (a cfg cannot write a sequence)
ExtraNone == [i \in 1..NCmd |-> 0]
ExtraMixed == [i \in 1..NCmd |-> IF i = 2 THEN 1 ELSE 0]
AllKinds == {"ok", "retry", "fatal"}
KindNo(kind) == CASE kind = "ok" -> 0 [] kind = "retry" -> 1 [] kind = "fatal" -> 2

Cmds == 1..NCmd
Tmo(cmd) == TimeoutOf(T0, Extra[cmd])

VARIABLES win, maxTries,   \* chosen initially, then fixed
          burstNo, pc,     \* pc: "run", "returned", "timeout", "fatal"
          nextCmd,         \* next command of the burst to transmit for the first time
          outst,           \* sequence number -> [cmd, tries, age]      (the unanswered commands)
          cbq,             \* accepted replies whose callback has not run: [cmd, forc, forb]
          doneCnt, txCnt,  \* per command: callbacks run, transmissions
          answered,        \* commands for which an ok reply was accepted
          seqCtr,          \* the connection's sequence counter
          net,             \* replies in the network: [sq, rc, cmd, burst]
          culprit,         \* the command a time-out error was raised for (0: none)
          hist, clock      \* only if KeepHistory: per transmission [at |-> clock when sent, dl |-> deliveries
                           \* <<kind, delay>>], and the number of ticks so far; otherwise constant

vars == <<win, maxTries, burstNo, pc, nextCmd, outst, cbq, doneCnt, txCnt, answered, seqCtr, net, culprit,
          hist, clock>>
fixed == <<win, maxTries>>
history == <<hist, clock>>

Zero == [cmd \in Cmds |-> 0]
NoTable == [sq \in {} |-> 0]

DInit == /\ win \in Windows /\ maxTries \in TriesSet
         /\ burstNo = 1 /\ pc = "run" /\ nextCmd = 1 /\ outst = NoTable /\ cbq = <<>>
         /\ doneCnt = Zero /\ txCnt = Zero /\ answered = {} /\ seqCtr = 0 /\ net = {} /\ culprit = 0
         /\ hist = <<>> /\ clock = 0

\* ------------------------------------------------------------------ the environment's part of a transmission
\* the datagram (sq, cmd) goes out: it is lost (ReqLost), or the machine answers it with some return code
\* (ReqDelivered); with the lifetime assumption a first transmission under sq retires older replies echoing sq
Transmit(sq, cmd, isNew) ==
    LET kept == IF Lifetime /\ isNew THEN { r \in net : r.sq # sq } ELSE net
        txno == IF KeepHistory THEN Len(hist) + 1 ELSE 0
    IN /\ hist' = IF KeepHistory THEN Append(hist, [at |-> clock, dl |-> <<>>]) ELSE hist
       /\ clock' = clock
       /\ \/ net' = kept                                                           \* ReqLost
          \/ \E kind \in RcKinds :                                                 \* ReqDelivered(kind)
                /\ Cardinality(kept) < MaxNet
                /\ net' = kept \cup {[sq |-> sq, rc |-> kind, cmd |-> cmd, burst |-> burstNo, tx |-> txno]}

\* ------------------------------------------------------------------ the client
SendNew ==
    /\ pc = "run" /\ nextCmd <= NCmd /\ Cardinality(DOMAIN outst) < win
    /\ LET sq == FreshSeq(seqCtr, DOMAIN outst, SeqMod)
       IN /\ outst' = With(outst, sq, [cmd |-> nextCmd, tries |-> 1, age |-> 0])
          /\ seqCtr' = (sq + 1) % SeqMod
          /\ txCnt' = [txCnt EXCEPT ![nextCmd] = 1]
          /\ Transmit(sq, nextCmd, TRUE)
    /\ nextCmd' = nextCmd + 1
    /\ UNCHANGED <<fixed, burstNo, pc, cbq, doneCnt, answered, culprit>>

RunCallback ==
    /\ pc = "run" /\ cbq # <<>>
    /\ doneCnt' = [doneCnt EXCEPT ![Head(cbq).cmd] = @ + 1]
    /\ cbq' = Tail(cbq)
    /\ UNCHANGED <<fixed, burstNo, pc, nextCmd, outst, txCnt, answered, seqCtr, net, culprit, history>>

\* what reading reply r from the socket does to the client
Accept(r) ==
    /\ pc = "run"
    /\ CASE r.rc = "ok" /\ r.sq \in DOMAIN outst ->
              /\ cbq' = Append(cbq, [cmd |-> outst[r.sq].cmd, forc |-> r.cmd, forb |-> r.burst])
              /\ answered' = answered \cup {outst[r.sq].cmd}
              /\ outst' = Without(outst, r.sq)
              /\ pc' = pc
         [] r.rc = "fatal" -> pc' = "fatal" /\ UNCHANGED <<cbq, answered, outst>>
         [] OTHER -> UNCHANGED <<cbq, answered, outst, pc>>      \* unknown sequence number, or retryable: ignored
    /\ hist' = IF KeepHistory THEN [hist EXCEPT ![r.tx].dl = Append(@, <<KindNo(r.rc), clock - hist[r.tx].at>>)]
                ELSE hist
    /\ UNCHANGED <<fixed, burstNo, nextCmd, doneCnt, txCnt, seqCtr, culprit, clock>>

Recv == \E r \in net : Accept(r) /\ net' = net \ {r}
Duplicate == \E r \in net : Accept(r) /\ net' = net                 \* delivered, and a copy stays in the network
DropReply == \E r \in net : net' = net \ {r} /\ UNCHANGED <<fixed, burstNo, pc, nextCmd, outst, cbq, doneCnt,
                                                              txCnt, answered, seqCtr, culprit, history>>

Expired(sq) == outst[sq].age > Tmo(outst[sq].cmd)

Retransmit ==
    /\ pc = "run"
    /\ \E sq \in DOMAIN outst :
          /\ Expired(sq) /\ outst[sq].tries < maxTries
          /\ outst' = [outst EXCEPT ![sq].tries = @ + 1, ![sq].age = 0]
          /\ txCnt' = [txCnt EXCEPT ![outst[sq].cmd] = @ + 1]
          /\ Transmit(sq, outst[sq].cmd, FALSE)
    /\ UNCHANGED <<fixed, burstNo, pc, nextCmd, cbq, doneCnt, answered, seqCtr, culprit>>

RaiseTimeout ==
    /\ pc = "run"
    /\ \E sq \in DOMAIN outst :
          /\ Expired(sq) /\ outst[sq].tries >= maxTries
          /\ culprit' = outst[sq].cmd
    /\ pc' = "timeout"
    /\ UNCHANGED <<fixed, burstNo, nextCmd, outst, cbq, doneCnt, txCnt, answered, seqCtr, net, history>>

Return ==
    /\ pc = "run" /\ nextCmd > NCmd /\ DOMAIN outst = {} /\ cbq = <<>>
    /\ pc' = "returned"
    /\ UNCHANGED <<fixed, burstNo, nextCmd, outst, cbq, doneCnt, txCnt, answered, seqCtr, net, culprit, history>>

\* the next burst on the same connection: the sequence counter and the network are kept
NextBurst ==
    /\ pc # "run" /\ burstNo < NBursts
    /\ burstNo' = burstNo + 1 /\ pc' = "run" /\ nextCmd' = 1 /\ outst' = NoTable /\ cbq' = <<>>
    /\ doneCnt' = Zero /\ txCnt' = Zero /\ answered' = {} /\ culprit' = 0
    /\ UNCHANGED <<fixed, seqCtr, net, history>>

\* ------------------------------------------------------------------ the clock
Older(sq) == IF outst[sq].age > Tmo(outst[sq].cmd) THEN outst[sq].age ELSE outst[sq].age + 1
Tick ==
    /\ pc = "run"
    /\ outst' = [sq \in DOMAIN outst |-> [outst[sq] EXCEPT !.age = Older(sq)]]
    /\ clock' = IF KeepHistory THEN clock + 1 ELSE clock
    /\ UNCHANGED <<fixed, burstNo, pc, nextCmd, cbq, doneCnt, txCnt, answered, seqCtr, net, culprit, hist>>

Client == SendNew \/ RunCallback \/ Retransmit \/ RaiseTimeout \/ Return \/ NextBurst
DNext == Client \/ Recv \/ Duplicate \/ DropReply \/ Tick

\* the client keeps taking the steps that are open to it and the clock keeps running; the network owes nothing
DSpec == /\ DInit /\ [][DNext]_vars
         /\ WF_vars(SendNew) /\ WF_vars(RunCallback) /\ WF_vars(Retransmit) /\ WF_vars(RaiseTimeout)
         /\ WF_vars(Return) /\ WF_vars(NextBurst) /\ WF_vars(Tick)

\* ------------------------------------------------------------------ what is checked
TypeOK == /\ pc \in {"run", "returned", "timeout", "fatal"} /\ nextCmd \in 1..(NCmd + 1)
          /\ DOMAIN outst \subseteq 0..(SeqMod - 1)
          /\ \A sq \in DOMAIN outst : outst[sq].cmd \in Cmds /\ outst[sq].tries >= 1 /\ outst[sq].age >= 0
          /\ culprit \in 0..NCmd
\* never more than the window of commands unanswered
WindowBound == Cardinality(DOMAIN outst) <= win
\* no command transmitted more often than the configured tries
TriesBound == \A cmd \in Cmds : txCnt[cmd] <= maxTries
\* no callback twice
AtMostOnce == \A cmd \in Cmds : doneCnt[cmd] <= 1
\* the reply queued for command cmd's callback was generated for that very command (of this burst)
RightReply == \A i \in 1..Len(cbq) : cbq[i].forc = cbq[i].cmd /\ cbq[i].forb = burstNo
\* two unanswered commands never share a sequence number (by construction of the table) and never are the same
OneEntryPerCommand == \A s1, s2 \in DOMAIN outst : outst[s1].cmd = outst[s2].cmd => s1 = s2
\* a burst that returns has run every callback exactly once
ReturnedComplete == pc = "returned" => \A cmd \in Cmds : doneCnt[cmd] = 1
\* the time-out error names a command transmitted exactly maxTries times whose reply was never accepted
TimeoutHonest == pc = "timeout" => /\ culprit \in Cmds /\ txCnt[culprit] = maxTries
                                   /\ culprit \notin answered /\ doneCnt[culprit] = 0
\* a retransmission happens only when the time-out has elapsed since the previous transmission
NoEarlyRetransmit ==
    [][\A sq \in DOMAIN outst :
          (sq \in DOMAIN outst' /\ outst'[sq].cmd = outst[sq].cmd /\ outst'[sq].tries > outst[sq].tries)
             => Elapsed(0, outst[sq].age, Tmo(outst[sq].cmd))]_vars
\* transmissions are counted: the table's try counter is the number of datagrams sent for the command
Counted == \A sq \in DOMAIN outst : outst[sq].tries = txCnt[outst[sq].cmd]
\* every burst ends (return, time-out error or fatal error), whatever the network does
Terminates == <>(burstNo = NBursts /\ pc # "run")
\* simulation runs print the environment's choices of every finished behaviour (harness/props/c06.py reads them)
Emit == (KeepHistory /\ burstNo = NBursts /\ pc # "run")
           => PrintT("INFO|" \o ToString(<<win, maxTries, [i \in 1..Len(hist) |-> hist[i].dl]>>))
=============================================================================
