------------------------------- MODULE Memory -------------------------------
(***************************************************************************)
(* Remote memory access (C07): what SC&MP does with a read / write / fill  *)
(* / link command, and what a client-level operation must amount to.       *)
(* Memory is modelled on windows: a window is a chip plus a run of bytes   *)
(* starting at an absolute address given as <<hi16, lo16>>; addresses of   *)
(* commands are translated into offsets inside a window.                   *)
(***************************************************************************)
EXTENDS Integers, Sequences, FiniteSets, TLC

Byte == 0..255
\* offset of absolute address a = <<hi, lo>> from origin o = <<hi, lo>> (both 16-bit halves)
\* (-1 when the two are far apart: windows are at most a few KiB, and TLC integers are 32-bit)
Offset(a, o) == IF a[1] - o[1] \in 0..255 THEN (a[1] - o[1]) * 65536 + (a[2] - o[2])
                ELSE IF a[1] - o[1] = -1 THEN a[2] - o[2] - 65536 ELSE -1
\* low two bits of an absolute address
Low2(a) == a[2] % 4

\* SC&MP access types
TypeByte == 0
TypeShort == 1
TypeWord == 2
\* a command may use a half-word / word access only if both address and length are so aligned
TypeAllowed(a, n, typ) == \/ typ = TypeByte
                          \/ typ = TypeShort /\ a[2] % 2 = 0 /\ n % 2 = 0
                          \/ typ = TypeWord  /\ a[2] % 4 = 0 /\ n % 4 = 0
\* bytes of a window's contents m (a sequence, 1-indexed by offset + 1) in [off, off + n)
Slice(m, off, n) == [i \in 1..n |-> m[off + i]]
\* m with bytes d written at offset off
Store(m, off, d) == [i \in 1..Len(m) |-> IF i > off /\ i <= off + Len(d) THEN d[i - off] ELSE m[i]]
InRange(m, off, n) == off >= 0 /\ n >= 0 /\ off + n <= Len(m)
\* little-endian bytes of a 32-bit word given as halves <<hi, lo>>
WordBytes(wd) == << wd[2] % 256, wd[2] \div 256, wd[1] % 256, wd[1] \div 256 >>
\* what a fill leaves behind: n bytes of the word pattern (n a multiple of 4)
FillPattern(wd, n) == [i \in 1..n |-> WordBytes(wd)[((i - 1) % 4) + 1]]
\* the union of the ranges <<off, n>> in the set R covers exactly [off0, off0 + n0)
CoversExactly(R, off0, n0) ==
    /\ \A r \in R : r[2] = 0 \/ (r[1] >= off0 /\ r[1] + r[2] <= off0 + n0)
    /\ \A i \in off0..(off0 + n0 - 1) : \E r \in R : r[1] <= i /\ i < r[1] + r[2]
=============================================================================
