---------------------------- MODULE ProbeDesign ----------------------------
(***************************************************************************)
(* Design job for C14.  Three small state machines in one specification    *)
(* (dKind says which one a behaviour belongs to):                          *)
(*                                                                         *)
(* "info"  walks through abstract chip records (every link subset, every   *)
(*         state list of <= InfoCores cores, router block sizes at both    *)
(*         ends of the 11-bit field, Ethernet flag, extreme memory / IP /  *)
(*         Ethernet-chip values, junk in the unassigned bits of arg1) and  *)
(*         shows that the documented reply layout of Probe.tla is          *)
(*         lossless:  DecodeInfo(EncodeInfo(rec)) = rec.                   *)
(* "p2p"   walks through point-to-point tables of every height 1..MaxH     *)
(*         (the eight-entries-per-word boundary) and width 1..MaxW (the    *)
(*         256-rows-per-column stride): uniform / patterned tables with    *)
(*         one entry overwritten by every value, and shows the packing is  *)
(*         lossless and words stay below 2^24.                             *)
(* "resv"  for every pattern of busy cores on <= MaxChips chips with       *)
(*         <= ResvCores cores checks the rule of Probe.tla, and for the    *)
(*         patterns on <= ScanChips chips executes the procedure rig       *)
(*         documents (cores busy on every chip -> global ranges, the rest  *)
(*         -> per-chip ranges, a scan in ascending core order that extends *)
(*         the open range or emits it) one core per step, and shows that   *)
(*         what is emitted is the rule of Probe.tla and that the rule      *)
(*         covers exactly the non-idle cores of every chip with ranges     *)
(*         that never overlap on a chip.                                   *)
(***************************************************************************)
EXTENDS Probe

CONSTANTS InfoCores, CoreStates, RtrSizes, MaxW, MaxH, MaxChips, ResvCores, ScanChips

VARIABLES dKind,     \* "info" | "p2p" | "resv"
          dRec,      \* info: the abstract chip record
          dJunk,     \* info: junk for the unassigned bits of arg1
          dDims,     \* p2p: <<width, height>>
          dTab,      \* p2p: the table
          dMarked,   \* p2p: an entry has been overwritten
          dCfg,      \* resv: sequence of <<number of cores, set of busy cores>>, chip i is <<i - 1, 0>>
          dScan      \* resv: the scan: [stage, core, open, out]
dvars == <<dKind, dRec, dJunk, dDims, dTab, dMarked, dCfg, dScan>>

Nil == <<>>

\* ------------------------------------------------------------------ info
Aux == { [sdram |-> <<0, 0>>, sram |-> <<0, 1>>, ip |-> <<0, 0, 0, 0>>, leth |-> <<0, 0>>, junk |-> <<0, 0>>],
         [sdram |-> <<65535, 65535>>, sram |-> <<32768, 0>>, ip |-> <<255, 1, 2, 254>>, leth |-> <<255, 254>>, junk |-> <<63, 7>>],
         [sdram |-> <<1, 65535>>, sram |-> <<0, 65535>>, ip |-> <<10, 255, 0, 1>>, leth |-> <<7, 255>>, junk |-> <<21, 2>>] }
Rec0 == [nc |-> 1, states |-> <<Idle>>, links |-> {}, sdram |-> <<0, 0>>, sram |-> <<0, 1>>, rtr |-> 0,
         eth |-> FALSE, ip |-> <<0, 0, 0, 0>>, leth |-> <<0, 0>>]
InfoRest == UNCHANGED <<dKind, dDims, dTab, dMarked, dCfg, dScan>>
SuccIn(S, v) == IF \E u \in S : u > v THEN CHOOSE u \in S : u > v /\ \A t \in S : t > v => u <= t
                ELSE CHOOSE u \in S : \A t \in S : u <= t
InfoFlipLink == /\ dKind = "info" /\ InfoRest /\ UNCHANGED dJunk
                /\ \E l \in LinkIds : dRec' = [dRec EXCEPT !.links = IF l \in @ THEN @ \ {l} ELSE @ \cup {l}]
InfoNextRtr == /\ dKind = "info" /\ InfoRest /\ UNCHANGED dJunk
               /\ dRec' = [dRec EXCEPT !.rtr = SuccIn(RtrSizes, @)]
InfoToggleEth == /\ dKind = "info" /\ InfoRest /\ UNCHANGED dJunk
                 /\ dRec' = [dRec EXCEPT !.eth = ~@]
InfoAddCore == /\ dKind = "info" /\ InfoRest /\ UNCHANGED dJunk /\ dRec.nc < InfoCores
               /\ \E s \in CoreStates : dRec' = [dRec EXCEPT !.nc = @ + 1, !.states = Append(@, s)]
InfoRestartCores == /\ dKind = "info" /\ InfoRest /\ UNCHANGED dJunk
                    /\ \E s \in CoreStates : dRec' = [dRec EXCEPT !.nc = 1, !.states = <<s>>]
InfoSetAux == /\ dKind = "info" /\ InfoRest
              /\ \E a \in Aux :
                    /\ dRec' = [dRec EXCEPT !.sdram = a.sdram, !.sram = a.sram, !.ip = a.ip, !.leth = a.leth]
                    /\ dJunk' = a.junk
InfoReply == [EncodeInfo(dRec) EXCEPT !.arg1 = WithJunk(@, dJunk)]
InfoRoundTrip == dKind = "info" => DecodeInfo(InfoReply) = dRec
\* every field of arg1 stays in its own bits
InfoFieldsInPlace == dKind = "info" =>
    LET a == EncodeInfoArg1(dRec) IN
    /\ a[1] \in 0..1023 /\ a[2] \in 0..65535
    /\ a[2] % 32 = dRec.nc /\ (a[2] \div 32) % 8 = 0
    /\ Len(InfoReply.data) = 24

\* ------------------------------------------------------------------ p2p
Cells(wh) == (0..wh[1] - 1) \X (0..wh[2] - 1)
BaseTables(wh) == { [cr \in Cells(wh) |-> P2PNone], [cr \in Cells(wh) |-> 0], [cr \in Cells(wh) |-> P2PSelf],
                    [cr \in Cells(wh) |-> (cr[1] * 3 + cr[2]) % 6], [cr \in Cells(wh) |-> (cr[1] + 5 * cr[2]) % 8] }
P2PRest == UNCHANGED <<dKind, dRec, dJunk, dCfg, dScan>>
P2PGrow == /\ dKind = "p2p" /\ P2PRest
           /\ \E wh \in { <<dDims[1], dDims[2] + 1>>, <<dDims[1] + 1, 1>>, dDims } :
                 /\ wh[1] <= MaxW /\ wh[2] <= MaxH
                 /\ \E t \in BaseTables(wh) : dDims' = wh /\ dTab' = t /\ dMarked' = FALSE
P2PMark == /\ dKind = "p2p" /\ P2PRest /\ ~dMarked
           /\ \E cr \in Cells(dDims) : \E v \in 0..7 :
                 v # dTab[cr] /\ dTab' = [dTab EXCEPT ![cr] = v] /\ dMarked' = TRUE /\ UNCHANGED dDims
P2PMem == EncodeP2P(dTab, dDims[1], dDims[2])
P2PRoundTrip == dKind = "p2p" => DecodeP2P(P2PMem, dDims[1], dDims[2]) = dTab
P2PWords == dKind = "p2p" =>
    /\ \A ix \in DOMAIN P2PMem : P2PMem[ix] \in 0..(2 ^ 24 - 1)
    \* a column starts every 32 words (128 bytes) and takes ceil(height / 8) of them
    /\ DOMAIN P2PMem = { 32 * col + k : col \in 0..dDims[1] - 1, k \in 0..((dDims[2] + 7) \div 8) - 1 }
\* overwriting one entry changes exactly one word, by a multiple of that entry's bit position
P2PMarkIsLocal == [][P2PMark =>
    LET old == EncodeP2P(dTab, dDims[1], dDims[2])  new == EncodeP2P(dTab', dDims[1], dDims[2])
    IN Cardinality({ ix \in DOMAIN old : old[ix] # new[ix] }) = 1]_dvars

\* ------------------------------------------------------------------ resv
ChipPatterns == UNION { { <<n, bs>> : bs \in SUBSET (0..n - 1) } : n \in 1..ResvCores }
Configs == UNION { [1..k -> ChipPatterns] : k \in 0..MaxChips }
DescOf(cfg) == [xy \in { <<i - 1, 0>> : i \in 1..Len(cfg) } |->
                  [nc |-> cfg[xy[1] + 1][1],
                   states |-> [i \in 1..cfg[xy[1] + 1][1] |-> IF (i - 1) \in cfg[xy[1] + 1][2] THEN 7 ELSE Idle]]]
ResvRest == UNCHANGED <<dKind, dRec, dJunk, dDims, dTab, dMarked, dCfg>>
Scan0 == [stage |-> 0, core |-> 0, open |-> Nil, out |-> <<>>]
\* stage 0 scans the cores busy everywhere, stage k > 0 the remaining busy cores of chip k
Global == GlobalBusy(DescOf(dCfg))
ScanList == IF dScan.stage = 0 THEN Global ELSE dCfg[dScan.stage][2] \ Global
ScanLoc == IF dScan.stage = 0 THEN Nil ELSE <<dScan.stage - 1, 0>>
Scanned == dKind = "resv" /\ Len(dCfg) <= ScanChips     \* the procedure is stepped for these configurations
Scanning == Scanned /\ dScan.stage <= Len(dCfg) /\ dScan.core < ResvCores
ScanSkip == /\ ResvRest /\ Scanning /\ dScan.core \notin ScanList
            /\ dScan' = [dScan EXCEPT !.core = @ + 1]
ScanOpen == /\ ResvRest /\ Scanning /\ dScan.core \in ScanList /\ dScan.open = Nil
            /\ dScan' = [dScan EXCEPT !.core = @ + 1, !.open = <<dScan.core, dScan.core + 1>>]
ScanExtend == /\ ResvRest /\ Scanning /\ dScan.core \in ScanList /\ dScan.open # Nil /\ dScan.open[2] = dScan.core
              /\ dScan' = [dScan EXCEPT !.core = @ + 1, !.open = <<@[1], dScan.core + 1>>]
ScanEmitAndOpen == /\ ResvRest /\ Scanning /\ dScan.core \in ScanList /\ dScan.open # Nil /\ dScan.open[2] # dScan.core
                   /\ dScan' = [dScan EXCEPT !.core = @ + 1, !.open = <<dScan.core, dScan.core + 1>>,
                                             !.out = Append(@, <<dScan.open[1], dScan.open[2], ScanLoc>>)]
ScanFinish == /\ ResvRest /\ Scanned /\ dScan.stage <= Len(dCfg) /\ dScan.core = ResvCores
              /\ dScan' = [stage |-> dScan.stage + 1, core |-> 0, open |-> Nil,
                           out |-> IF dScan.open = Nil THEN dScan.out
                                   ELSE Append(dScan.out, <<dScan.open[1], dScan.open[2], ScanLoc>>)]
ResvNext == ScanSkip \/ ScanOpen \/ ScanExtend \/ ScanEmitAndOpen \/ ScanFinish
ResvDone == dKind = "resv" /\ dScan.stage = Len(dCfg) + 1
\* the rule, independent of any procedure: exact cover, no overlap on any chip
ResvRuleSound == (dKind = "resv" /\ dScan = Scan0) =>
    LET desc == DescOf(dCfg)  rs == RuleReservations(desc)
    IN CoverExactly(rs, desc) /\ DisjointPerChipSet(rs, desc)
\* the procedure produces the rule: hence minimal contiguous ranges, exact cover, disjointness
ResvProcedureIsRule == ResvDone =>
    LET desc == DescOf(dCfg) IN
    /\ SeqSet(dScan.out) = RuleReservations(desc)
    /\ Cardinality(SeqSet(dScan.out)) = Len(dScan.out)
    /\ CoverExactly(SeqSet(dScan.out), desc) /\ DisjointPerChip(dScan.out, desc)
\* while scanning nothing emitted so far overlaps on a chip, and nothing idle is ever reserved
ResvNeverReservesIdle == dKind = "resv" =>
    LET desc == DescOf(dCfg) IN
    \A xy \in DOMAIN desc : Covered(SeqSet(dScan.out), xy) \subseteq NonIdle(desc[xy])
\* termination: every step advances (stage, core) and the scan is never stuck before it is done
ResvMeasure == dScan.stage * (ResvCores + 1) + dScan.core
ResvProgress == [][dKind = "resv" => ResvMeasure' > ResvMeasure]_dvars
ResvNotStuck == (Scanned /\ ~ResvDone) => ENABLED ResvNext

\* ------------------------------------------------------------------ the specification
DInit == /\ dKind \in {"info", "p2p", "resv"}
         /\ dRec = Rec0 /\ dJunk = <<0, 0>>
         /\ dDims = <<1, 1>> /\ dTab = [cr \in Cells(<<1, 1>>) |-> P2PNone] /\ dMarked = FALSE
         /\ dCfg \in (IF dKind = "resv" THEN Configs ELSE {<<>>})
         /\ dScan = Scan0
DNext == \/ InfoFlipLink \/ InfoNextRtr \/ InfoToggleEth \/ InfoAddCore \/ InfoRestartCores \/ InfoSetAux
         \/ P2PGrow \/ P2PMark
         \/ ScanSkip \/ ScanOpen \/ ScanExtend \/ ScanEmitAndOpen \/ ScanFinish
DSpec == DInit /\ [][DNext]_dvars
=============================================================================
