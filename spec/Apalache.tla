--------------------------- MODULE Apalache -----------------------------------
(*
 * This is a standard module for use with the Apalache model checker.
 * The meaning of the operators is explained in the comments.
 * Many of the operators serve as additional annotations of their arguments.
 * As we like to preserve compatibility with TLC and TLAPS, we define the
 * operator bodies by erasure. The actual interpretation of the operators is
 * encoded inside Apalache. For the moment, these operators are mirrored in
 * the class at.forsyte.apalache.tla.lir.oper.ApalacheOper.
 *                                                                          
 * Igor Konnov, Jure Kukovec, Informal Systems 2020-2022
 * Igor Konnov, konnov.phd, 2026
 *)

(**
 * An assignment of an expression e to a state variable x. Typically, one
 * uses the non-primed version of x in the initializing predicate Init and
 * the primed version of x (that is, x') in the transition predicate Next.
 * Although TLA+ does not have a concept of a variable assignment, we find
 * this concept extremely useful for symbolic model checking. In pure TLA+,
 * one would simply write x = e, or x \in {e}.
 *
 * Apalache automatically converts some expressions of the form
 * x = e or x \in {e} into assignments. However, if you like to annotate
 * assignments by hand, you can use this operator.
 *
 * For a further discussion on that matter, see:
 * https://github.com/apalache-mc/apalache/blob/main/docs/src/idiomatic/001assignments.md
 *)
__x := __e == __x = __e

(**
 * A generator of a data structure. Given a positive integer `bound`, and
 * assuming that the type of the operator application is known, we
 * recursively generate a TLA+ data structure as a tree, whose width is
 * bound by the number `bound`.
 *
 * The body of this operator is redefined by Apalache.
 *)
Gen(__size) == {}

(**
 * Non-deterministically pick a value out of the set `S`, if `S` is non-empty.
 * If `S` is empty, return some value of the proper type.  This can be
 * understood as a non-deterministic version of CHOOSE x \in S: TRUE.
 *
 * @type: Set(a) => a;
 *)
Guess(__S) ==
    \* Since this is not supported by TLC,
    \* we fall back to the deterministic version for TLC.
    \* Apalache redefines the operator `Guess` as explained above.
    CHOOSE __x \in __S: TRUE

(**
 * Convert a set of pairs S to a function F. Note that if S contains at least
 * two pairs <<x, y>> and <<u, v>> such that x = u and y /= v,
 * then F is not uniquely defined. We use CHOOSE to resolve this ambiguity.
 * Apalache implements a more efficient encoding of this operator
 * than the default one.
 *
 * @type: Set(<<a, b>>) => (a -> b);
 *)
SetAsFun(__S) ==
    LET __Dom == { __x: <<__x, __y>> \in __S }
        __Rng == { __y: <<__x, __y>> \in __S }
    IN
    [ __x \in __Dom |-> CHOOSE __y \in __Rng: <<__x, __y>> \in __S ]

(**
 * A sequence constructor that avoids using a function constructor.
 * Since Apalache is typed, this operator is more efficient than
 * FunAsSeq([ i \in 1..N |-> F(i) ]). Apalache requires N to be
 * a constant expression.
 *
 * @type: (Int, (Int -> a)) => Seq(a);
 *)
LOCAL INSTANCE Integers
MkSeq(__N, __F(_)) ==
    \* This is the TLC implementation. Apalache does it differently.
    \* If __F is not defined on i \in 1..__N, TLC fails.
    \* Apalache evaluates symbolically. This is why definitions
    \* like `FunAsSeq` work.
    [ __i \in (1..__N) |-> __F(__i) ]

\* required by our default definition of FoldSeq and FunAsSeq
LOCAL INSTANCE Sequences

(**
 * As TLA+ is untyped, one can use function- and sequence-specific operators
 * interchangeably. However, to maintain correctness w.r.t. our type-system,
 * an explicit cast is needed when using functions as sequences.
 * FunAsSeq reinterprets a function over integers as a sequence.
 *
 * The parameters have the following meaning:
 *
 *  - fn is the function from 1..len that should be interpreted as a sequence.
 *  - len is the length of the sequence, len = Cardinality(DOMAIN fn),
 *    len may be a variable, a computable expression, etc.
 *  - capacity is a static upper bound on the length, that is, len <= capacity.
 *
 * @type: ((Int -> a), Int, Int) => Seq(a);
 *)
FunAsSeq(__fn, __len, __capacity) ==
    LET __FunAsSeq_elem_ctor(__i) == __fn[__i] IN
    SubSeq(MkSeq(__capacity, __FunAsSeq_elem_ctor), 1, __len)

(**
 * Annotating an expression \E x \in S: P as Skolemizable. That is, it can
 * be replaced with an expression c \in S /\ P(c) for a fresh constant c.
 * Not every exisential can be replaced with a constant, this should be done
 * with care. Apalache detects Skolemizable expressions by static analysis.
 *)
Skolem(__e) == __e

(**
 * A hint to the model checker to expand a set S, instead of dealing
 * with it symbolically. Apalache finds out which sets have to be expanded
 * by static analysis.
 *)
Expand(__S) == __S

(**
 * A hint to the model checker to replace its argument Cardinality(S) >= k
 * with a series of existential quantifiers for a constant k.
 * Similar to Skolem, this has to be done carefully. Apalache automatically
 * places this hint by static analysis.
 *)
ConstCardinality(__cardExpr) == __cardExpr

(**
 * The folding operator, used to implement computation over a set.
 * Apalache implements a more efficient encoding than the one below.
 * (from the community modules).
 *
 * @type: ((a, b) => a, a, Set(b)) => a;
 *)
RECURSIVE ApaFoldSet(_, _, _)
ApaFoldSet(__Op(_,_), __v, __S) ==
    IF __S = {}
    THEN __v
    ELSE LET __w == CHOOSE __x \in __S: TRUE IN
         LET __T == __S \ {__w} IN
         ApaFoldSet(__Op, __Op(__v,__w), __T)

(**
 * The folding operator, used to implement computation over a sequence.
 * Apalache implements a more efficient encoding than the one below.
 * (from the community modules).
 *
 * @type: ((a, b) => a, a, Seq(b)) => a;
 *)
RECURSIVE ApaFoldSeqLeft(_, _, _)
ApaFoldSeqLeft(__Op(_,_), __v, __seq) ==
    IF __seq = <<>>
    THEN __v
    ELSE ApaFoldSeqLeft(__Op, __Op(__v, Head(__seq)), Tail(__seq))

(**
 * The repetition operator, used to consecutively apply an operator, starting from
 * an initial value.
 *
 * @type: ((a, Int) => a, Int, a) => a;
 *)
RECURSIVE Repeat(_,_,_)
Repeat(__F(_,_), __N, __x) ==
        \* This is the TLC implementation. Apalache does it differently.
        IF __N <= 0
        THEN __x
        ELSE __F(Repeat(__F, __N - 1, __x), __N)

===============================================================================
