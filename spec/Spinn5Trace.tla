---------------------------- MODULE Spinn5Trace ----------------------------
(***************************************************************************)
(* Trace specification for C19.  A trace is [w, h, rx, ry, ev]; events:    *)
(*  <<"eth",  x, y, ex, ey>>   spinn5_local_eth_coord(x, y, w, h, rx, ry)  *)
(*  <<"chip", x, y, cx, cy>>   spinn5_chip_coord(x, y, rx, ry)             *)
(*  <<"fpga", x, y, k, some, f, n>>  spinn5_fpga_link(x, y, k, rx, ry):    *)
(*                             some = 0 for None else 1 with (f, n)        *)
(*  <<"board", seq>>           for every chip of one board and every link  *)
(*                             with a non-None FPGA link: <<cx,cy,k,f,n>>  *)
(*  <<"eths", seq>>            list(spinn5_eth_coords(w, h, rx, ry))       *)
(*  <<"dims", n, ok, dw, dh>>  standard_system_dimensions(n); ok = 0 when  *)
(*                             it raised ValueError                        *)
(***************************************************************************)
EXTENDS Spinn5, TLC, Json, IOUtils

Traces == JsonDeserialize(IOEnv.TRACE_FILE)
VARIABLES tid, ei, verdict
vars == <<tid, ei, verdict>>
Tr == Traces[tid]
Ev == Tr.ev[ei]

SeqToSet(q) == { q[i] : i \in 1..Len(q) }

Checks(e) ==
  CASE e[1] = "eth" ->
        \* On machines that are not whole 12 x 12 cells the torus does not close on board edges, so
        \* the answer is only determined when the board's Ethernet chip lies inside the machine.
        LET cc == ChipCoord(e[2], e[3], Tr.rx, Tr.ry)
            ox == e[2] - cc[1]  oy == e[3] - cc[2]
        IN [EthIsBoardOrigin |->
              ((Tr.w % 12 = 0 /\ Tr.h % 12 = 0) \/ (ox \in 0..(Tr.w-1) /\ oy \in 0..(Tr.h-1)))
              => <<e[4], e[5]>> = LocalEth(e[2], e[3], Tr.w, Tr.h, Tr.rx, Tr.ry)]
    [] e[1] = "chip" ->
        [ChipIsOffset |-> <<e[4], e[5]>> = ChipCoord(e[2], e[3], Tr.rx, Tr.ry)]
    [] e[1] = "fpga" ->
        [FpgaIffLeaves |-> (e[5] = 1) <=> Leaves(ChipCoord(e[2], e[3], Tr.rx, Tr.ry), e[4]),
         FpgaRange     |-> e[5] = 1 => e[6] \in 0..2 /\ e[7] \in 0..15]
    [] e[1] = "board" ->
        LET q == e[2] IN
        [FpgaExactlyLeaving |-> { <<<<q[i][1], q[i][2]>>, q[i][3]>> : i \in 1..Len(q) } = LeavingPairs,
         FpgaDistinct       |-> \A i, j \in 1..Len(q) :
                                   i < j => <<q[i][4], q[i][5]>> # <<q[j][4], q[j][5]>>]
    [] e[1] = "eths" ->
        [EthsExact  |-> { <<e[2][i][1], e[2][i][2]>> : i \in 1..Len(e[2]) } = EthCoords(Tr.w, Tr.h, Tr.rx, Tr.ry),
         EthsOnce   |-> \A i, j \in 1..Len(e[2]) : i < j => e[2][i] # e[2][j]]
    [] e[1] = "dims" ->
        [DimsSquarest |-> IF e[2] > 1 /\ e[2] % 3 # 0 THEN e[3] = 0
                          ELSE e[3] = 1 /\ <<e[4], e[5]>> = StandardDims(e[2])]
    [] e[1] = "raise" -> [NoException |-> FALSE]
    [] OTHER -> [UnknownEvent |-> FALSE]

Bad == {c \in DOMAIN Checks(Ev) : ~Checks(Ev)[c]}
TInit == tid \in 1..Len(Traces) /\ ei = 1 /\ verdict = <<>>
TStep == /\ ei <= Len(Tr.ev) /\ verdict = <<>> /\ tid' = tid
         /\ IF Bad = {} THEN ei' = ei + 1 /\ verdict' = verdict
            ELSE /\ PrintT("REJECT|" \o ToString(tid) \o "|" \o ToString(ei) \o "|" \o ToString(Bad))
                 /\ verdict' = <<ei, Bad>> /\ ei' = ei
TSpec == TInit /\ [][TStep]_vars
=============================================================================
