----------------------------- MODULE ScpWindow -----------------------------
(***************************************************************************)
(* C06: the CLIENT side of the windowed SCP protocol over integers, finite *)
(* sets and functions - the same rules as ScpDesign's client (a table of   *)
(* unanswered commands keyed by sequence number, a try counter and a       *)
(* deadline per entry, callbacks queued when the matching ok reply is      *)
(* read), but against a network that is not modelled at all: at any moment *)
(* a reply with ANY sequence number and any return code may be read        *)
(* (loss, delay, reordering, duplication, replies of earlier bursts and    *)
(* forged numbers are all included).  Shaped for Apalache (typed, no       *)
(* recursion, no ranges with symbolic bounds), and readable by TLC.        *)
(* Shared by ScpWindowInd (Apalache: inductive invariant for unbounded     *)
(* Window, MaxTries, SeqMod, time-outs, clock, bursts; NCmd <= CmdBound)   *)
(* and by cfg/ScpWindow_tlc.cfg (TLC: exhaustive at small constants).      *)
(*                                                                         *)
(* The search for a free sequence number is rig's loop, one iteration per  *)
(* action (SkipSeq), so no quantifier over 0..SeqMod-1 is needed.          *)
(***************************************************************************)
EXTENDS Integers, Sequences, FiniteSets

CmdBound == 4            \* the per-command functions have the fixed domain 1..CmdBound; NCmd <= CmdBound

CONSTANTS
    \* @type: Int;
    NCmd,        \* commands per burst
    \* @type: Int;
    Window,      \* unanswered commands allowed at once
    \* @type: Int;
    MaxTries,    \* transmissions allowed per command
    \* @type: Int;
    SeqMod,      \* size of the sequence-number space
    \* @type: Int;
    T0,          \* default time-out in ticks
    \* @type: Int -> Int;
    Extra        \* per-command extra time-out

VARIABLES
    \* @type: Int;
    nextCmd,     \* next command of the burst to transmit for the first time            (DESIGN: q)
    \* @type: Set({sq: Int, cmd: Int, tries: Int, deadline: Int});
    outst,       \* the unanswered commands                                              (DESIGN: out)
    \* @type: Int -> Int;
    cbq,         \* per command: accepted ok replies whose callback has not run yet (a bag: the order in which
                 \* queued callbacks run is not part of the property, a callback queued twice is)
    \* @type: Int -> Int;
    doneCnt,     \* per command: callbacks run                                           (DESIGN: done)
    \* @type: Int -> Int;
    txCnt,       \* per command: datagrams sent                                          (DESIGN: tx)
    \* @type: Int;
    seqCtr,      \* the connection's sequence counter (survives the end of a burst)
    \* @type: Int;
    now,
    \* @type: Str;
    pc,          \* "run", "returned", "timeout", "fatal"
    \* @type: Int;
    culprit      \* the command a time-out error was raised for (0: none)

vars == <<nextCmd, outst, cbq, doneCnt, txCnt, seqCtr, now, pc, culprit>>

Cmds == 1..CmdBound
Zero == [c \in Cmds |-> 0]
Tmo(c) == T0 + Extra[c]
SuccSeq(s) == IF s + 1 = SeqMod THEN 0 ELSE s + 1           \* (s + 1) % SeqMod without a symbolic modulus
\* @type: Set(Int);
OutCmds == { e.cmd : e \in outst }
\* @type: Set(Int);
Queued == { c \in Cmds : cbq[c] > 0 }

\* values for the TLC cfg
ExtraMixed == [c \in Cmds |-> IF c = 2 THEN 1 ELSE 0]

Init == /\ nextCmd = 1 /\ outst = {} /\ cbq = Zero /\ doneCnt = Zero /\ txCnt = Zero
        /\ seqCtr = 0 /\ now = 0 /\ pc = "run" /\ culprit = 0

\* ------------------------------------------------------------------ sending
CanSend == pc = "run" /\ nextCmd <= NCmd /\ Cardinality(outst) < Window
SeqInUse == \E e \in outst : e.sq = seqCtr

\* one iteration of rig's `while seq in outstanding` loop
SkipSeq == /\ CanSend /\ SeqInUse
           /\ seqCtr' = SuccSeq(seqCtr)
           /\ UNCHANGED <<nextCmd, outst, cbq, doneCnt, txCnt, now, pc, culprit>>

SendNew == /\ CanSend /\ ~SeqInUse
           /\ outst' = outst \cup {[sq |-> seqCtr, cmd |-> nextCmd, tries |-> 1, deadline |-> now + Tmo(nextCmd)]}
           /\ seqCtr' = SuccSeq(seqCtr)
           /\ txCnt' = [txCnt EXCEPT ![nextCmd] = 1]
           /\ nextCmd' = nextCmd + 1
           /\ UNCHANGED <<cbq, doneCnt, now, pc, culprit>>

\* ------------------------------------------------------------------ receiving (the reply's number is arbitrary)
\* an ok reply whose number is in the table: the entry is popped BY SEQUENCE NUMBER, its callback queued
ReceiveOk == /\ pc = "run"
             /\ \E e \in outst : /\ outst' = outst \ {e}
                                 /\ cbq' = [cbq EXCEPT ![e.cmd] = @ + 1]
             /\ UNCHANGED <<nextCmd, doneCnt, txCnt, seqCtr, now, pc, culprit>>
\* an ok reply whose number is not in the table (stale, duplicate, earlier burst) and any retryable reply: ignored
ReceiveStale == pc = "run" /\ UNCHANGED vars
ReceiveRetryable == pc = "run" /\ UNCHANGED vars
ReceiveFatal == /\ pc = "run" /\ pc' = "fatal"
                /\ UNCHANGED <<nextCmd, outst, cbq, doneCnt, txCnt, seqCtr, now, culprit>>

RunCallback == /\ pc = "run"
               /\ \E c \in Cmds : /\ cbq[c] > 0
                                  /\ doneCnt' = [doneCnt EXCEPT ![c] = @ + 1]
                                  /\ cbq' = [cbq EXCEPT ![c] = @ - 1]
               /\ UNCHANGED <<nextCmd, outst, txCnt, seqCtr, now, pc, culprit>>

\* ------------------------------------------------------------------ time-outs
Retransmit == /\ pc = "run"
              /\ \E e \in outst :
                    /\ e.deadline < now /\ e.tries < MaxTries
                    /\ outst' = (outst \ {e}) \cup {[sq |-> e.sq, cmd |-> e.cmd, tries |-> e.tries + 1,
                                                     deadline |-> now + Tmo(e.cmd)]}
                    /\ txCnt' = [txCnt EXCEPT ![e.cmd] = @ + 1]
              /\ UNCHANGED <<nextCmd, cbq, doneCnt, seqCtr, now, pc, culprit>>

RaiseTimeout == /\ pc = "run"
                /\ \E e \in outst : /\ e.deadline < now /\ e.tries >= MaxTries
                                    /\ culprit' = e.cmd
                /\ pc' = "timeout"
                /\ UNCHANGED <<nextCmd, outst, cbq, doneCnt, txCnt, seqCtr, now>>

Tick == /\ pc = "run" /\ now' = now + 1
        /\ UNCHANGED <<nextCmd, outst, cbq, doneCnt, txCnt, seqCtr, pc, culprit>>

\* ------------------------------------------------------------------ the end of a burst, and the next one
Return == /\ pc = "run" /\ nextCmd > NCmd /\ outst = {} /\ cbq = Zero
          /\ pc' = "returned"
          /\ UNCHANGED <<nextCmd, outst, cbq, doneCnt, txCnt, seqCtr, now, culprit>>

\* the sequence counter and the clock are kept, everything else starts afresh
NextBurst == /\ pc # "run"
             /\ pc' = "run" /\ nextCmd' = 1 /\ outst' = {} /\ cbq' = Zero /\ doneCnt' = Zero /\ txCnt' = Zero
             /\ culprit' = 0
             /\ UNCHANGED <<seqCtr, now>>

Next == \/ SkipSeq \/ SendNew \/ ReceiveOk \/ ReceiveStale \/ ReceiveRetryable \/ ReceiveFatal \/ RunCallback
        \/ Retransmit \/ RaiseTimeout \/ Tick \/ Return \/ NextBurst

Spec == Init /\ [][Next]_vars

\* ------------------------------------------------------------------ what is checked
ConstOK == /\ NCmd \in Nat /\ NCmd <= CmdBound
           /\ Window \in Nat /\ Window >= 1
           /\ MaxTries \in Nat /\ MaxTries >= 1
           /\ SeqMod \in Nat /\ SeqMod > Window
           /\ T0 \in Nat
           /\ DOMAIN Extra = Cmds /\ \A c \in Cmds : Extra[c] >= 0

TypeOK ==
    /\ pc \in {"run", "returned", "timeout", "fatal"}
    /\ 1 <= nextCmd /\ nextCmd <= NCmd + 1
    /\ DOMAIN doneCnt = Cmds /\ DOMAIN txCnt = Cmds /\ DOMAIN cbq = Cmds
    /\ \A c \in Cmds : doneCnt[c] >= 0 /\ txCnt[c] >= 0 /\ cbq[c] >= 0
    /\ \A e \in outst : /\ 0 <= e.sq /\ e.sq < SeqMod
                        /\ 1 <= e.cmd /\ e.cmd <= NCmd
                        /\ e.tries >= 1
    /\ 0 <= seqCtr /\ seqCtr < SeqMod
    /\ 0 <= culprit /\ culprit <= NCmd

\* ---- the three statements of the property
\* never more than the window of commands unanswered
WindowBound == Cardinality(outst) <= Window
\* no command transmitted more often than the configured tries
TriesBound == /\ \A c \in Cmds : txCnt[c] <= MaxTries
              /\ \A e \in outst : e.tries <= MaxTries
\* no callback twice
AtMostOnce == \A c \in Cmds : doneCnt[c] <= 1

\* ---- the linking facts that make them inductive
\* a sequence number / a command is in the table at most once
SeqUnique == \A e1, e2 \in outst : e1.sq = e2.sq => e1 = e2
OneEntryPerCommand == \A e1, e2 \in outst : e1.cmd = e2.cmd => e1 = e2
\* the table's try counter is the number of datagrams sent for the command
Counted == \A e \in outst : e.tries = txCnt[e.cmd]
\* a command is queued for its callback at most once
QueuedOnce == \A c \in Cmds : cbq[c] <= 1
\* commands not yet sent: nothing transmitted, nothing run, not in the table, not queued
Unsent == /\ \A c \in Cmds : c >= nextCmd => txCnt[c] = 0 /\ doneCnt[c] = 0 /\ cbq[c] = 0
          /\ \A e \in outst : e.cmd < nextCmd
\* a command that was sent is in exactly one of three places: unanswered, queued for its callback, called back
Accounted == \A c \in Cmds : c < nextCmd =>
                /\ txCnt[c] >= 1
                /\ \/ c \in OutCmds /\ c \notin Queued /\ doneCnt[c] = 0
                   \/ c \notin OutCmds /\ c \in Queued /\ doneCnt[c] = 0
                   \/ c \notin OutCmds /\ c \notin Queued /\ doneCnt[c] = 1
\* how a burst ends
Returned == pc = "returned" => nextCmd > NCmd /\ outst = {} /\ cbq = Zero
TimedOut == /\ pc = "timeout" => \E e \in outst : e.cmd = culprit /\ e.tries >= MaxTries
            /\ pc # "timeout" => culprit = 0

\* ---- consequences (implied by the conjunction of the above; checked as such)
\* a burst that returns has run every callback exactly once
ReturnedComplete == pc = "returned" => \A c \in Cmds : c <= NCmd => doneCnt[c] = 1
\* the time-out error names a command transmitted exactly MaxTries times whose callback never ran
TimeoutHonest == pc = "timeout" => /\ 1 <= culprit /\ culprit <= NCmd
                                   /\ txCnt[culprit] = MaxTries /\ doneCnt[culprit] = 0
                                   /\ culprit \notin Queued

\* for TLC: the clock is bounded by a state constraint (everything else is finite by the invariants)
ClockBound == now <= 5
=============================================================================
