------------------------- MODULE ContextReplayTrace -------------------------
(***************************************************************************)
(* Trace specification for the replay job of C18.  A trace is a behaviour  *)
(* of ContextSim.tla (chosen by TLC's simulator) executed as a program of  *)
(* nested `with` blocks over a real controller.  Every event is one of     *)
(* ContextTrace.tla's, judged by all of its clauses, and carries as its    *)
(* LAST field what the design machine predicted for that step:             *)
(*   <<"none">>                       a step the simulator did not choose  *)
(*                                    (the driver's leading discovery)     *)
(*   <<"enter", force>>  <<"update", force>>  <<"end", force>>             *)
(*   <<"app", force, id>>                                                  *)
(*   <<"exit", how, stops, force>>    stops: the application ids of the    *)
(*                                    stop signals the leave sends         *)
(*   <<"invoke", refused, bound>>     refused 1 | 0; bound: sequence of    *)
(*                                    <<contextual parameter, argval>>,    *)
(*                                    the value the method body receives   *)
(* force = the arguments in force after the step, a sequence of            *)
(* <<name, value>>.  The clause MatchesPrediction demands that what the    *)
(* controller did equals the prediction: the arguments it reports, the     *)
(* stop signals on the wire, the refusal, and - projected as in            *)
(* ContextTrace - the chip, core, application / board and connection of    *)
(* the datagrams of an accepted call.                                      *)
(***************************************************************************)
EXTENDS ContextTrace

Pred(e) == e[Len(e)]
SameForce(ctx, force) == Blind \/ AsSet(ctx) = AsSet(force)

PredictedMc(name, outcome, sent, pr) ==
    LET bound == pr[3]
        B(k) == Get(bound, k)[2]
        cores == Names(bound) \cap CoreNames
        core == CHOOSE k \in cores : TRUE
        scope == IF name \in Explorers THEN 1..(IF Len(sent) > 0 THEN 1 ELSE 0) ELSE 1..Len(sent)
    IN  /\ outcome = <<"ok">>
        /\ Len(sent) > 0
        /\ Has(bound, "x") => \A i \in scope : DX(sent[i]) = B("x")
        /\ Has(bound, "y") => \A i \in scope : DY(sent[i]) = B("y")
        /\ cores # {} => \A i \in scope : IF name \in DirectCore THEN DP(sent[i]) = B(core)
                                          ELSE DP(sent[i]) \in {B(core), 0}
        /\ (cores # {} /\ name \in SubjectCore) => \E i \in 1..Len(sent) : InVcpuBlock(sent[i], Tr.vbase, B(core))
        /\ Has(bound, "app_id") =>
              /\ \A i \in 1..Len(sent) : AppCarried(sent[i]) \in {<<>>, <<B("app_id")>>}
              /\ \E i \in 1..Len(sent) : AppCarried(sent[i]) = <<B("app_id")>>

PredictedBmp(name, outcome, sent, pr) ==
    LET bound == pr[3]
        B(k) == Get(bound, k)[2]
        Target(d) == IF DCmd(d) = 57 THEN 0 ELSE B("board")
    IN  /\ outcome = <<"ok">>
        /\ Len(sent) > 0
        /\ Has(bound, "board") =>
              \A i \in 1..Len(sent) : /\ DP(sent[i]) = Target(sent[i])
                                      /\ DCmd(sent[i]) \in {25, 57} => sent[i][7] = BoardMask(B("board"))
        /\ {"cabinet", "frame", "board"} \subseteq Names(bound) =>
              \A i \in 1..Len(sent) :
                  DConn(sent[i]) = ExpectedBmpConn(SeqSet(Tr.hosts), B("cabinet"), B("frame"), Target(sent[i]))

MatchesPrediction(e) ==
    LET pr == Pred(e)
    IN  IF pr[1] = "none" THEN TRUE
        ELSE IF pr[1] # e[1] THEN FALSE
        ELSE CASE e[1] = "enter"  -> SameForce(e[3], pr[2]) /\ e[4] = <<>>
               [] e[1] = "update" -> SameForce(e[3], pr[2]) /\ e[4] = <<>>
               [] e[1] = "end"    -> SameForce(e[2], pr[2])
               [] e[1] = "app"    -> e[4] = <<"ok">> /\ e[5] = <<>> /\ SameForce(e[6], pr[2])
               [] e[1] = "exit"   -> /\ e[2] = pr[2]
                                     /\ Len(e[3]) = Len(pr[3])
                                     /\ \A i \in 1..Min2(Len(e[3]), Len(pr[3])) : IsStopFor(e[3][i], pr[3][i])
                                     /\ SameForce(e[4], pr[4])
               [] e[1] = "invoke" -> IF pr[2] = 1 THEN e[5] = <<"raise", "TypeError">> /\ e[6] = <<>>
                                     ELSE IF Tr.kind = "mc" THEN PredictedMc(e[2], e[5], e[6], pr)
                                     ELSE PredictedBmp(e[2], e[5], e[6], pr)
               [] OTHER -> FALSE

RChecks(e) == Checks(e) @@ [MatchesPrediction |-> MatchesPrediction(e)]
RBad == LET ck == RChecks(Ev) IN {c \in DOMAIN ck : ~ck[c]}
RStep == /\ ei <= Len(Tr.ev) /\ verdict = <<>> /\ tid' = tid
         /\ LET bad == RBad
            IN IF bad = {} THEN ei' = ei + 1 /\ st' = Apply(Ev) /\ verdict' = verdict
               ELSE /\ PrintT("REJECT|" \o ToString(tid) \o "|" \o ToString(ei) \o "|" \o ToString(bad)
                              \o "|" \o Detail(Ev) \o " predicted=" \o ToString(Pred(Ev)))
                    /\ verdict' = <<ei, bad>> /\ ei' = ei /\ st' = st
RSpec == TInit /\ [][RStep]_vars
=============================================================================
