------------------------------ MODULE Context ------------------------------
(***************************************************************************)
(* Contextual arguments of the machine and board controllers (C18).        *)
(*                                                                         *)
(* A controller carries a stack of blocks; each block is a partial map     *)
(* argument name -> value (the bottom block is the initial context given   *)
(* to the constructor).  A command names its destination by arguments      *)
(* (chip x, y; core p / processor; application app_id; cabinet, frame,     *)
(* board).  Each argument of a call takes                                  *)
(*     the value given explicitly in the call (positionally or by keyword) *)
(*     else the value of the innermost enclosing block that sets it        *)
(*     else the default the method declares                                *)
(*     else it is lacking and the call must be rejected, nothing sent.     *)
(* Written from the property statement and the controllers' documentation; *)
(* nothing here is taken from rig.utils.contexts.                          *)
(*                                                                         *)
(* Encodings (shared with the trace module):                               *)
(*   map      sequence of <<name, value>>, names unique                    *)
(*   block    [args |-> map, app |-> <<>> | <<app id>>]                    *)
(*   argval   <<"int", v>> | <<"other">>  (a value that is not a           *)
(*            destination) ; a default may also be <<"req">> (none)        *)
(*   method   <<name, positional parameter names, their defaults,          *)
(*              keyword-only <<name, default>> pairs, 1 if the method      *)
(*              swallows all positional arguments (star-args) else 0>>     *)
(*   datagram <<connection, x, y, p, cmd, arg1, arg2>> as it is on the     *)
(*            wire: SDP destination chip and core, SCP command number,     *)
(*            arg1/arg2 as four little-endian bytes                        *)
(***************************************************************************)
EXTENDS Spinn5

----------------------------------------------------------------------------
\* maps
Names(m)  == { m[i][1] : i \in 1..Len(m) }
Has(m, k) == k \in Names(m)
Get(m, k) == m[CHOOSE i \in 1..Len(m) : m[i][1] = k][2]
AsSet(m)  == { <<m[i][1], m[i][2]>> : i \in 1..Len(m) }

----------------------------------------------------------------------------
\* the stack of blocks, bottom first
Defining(stack, k) == { i \in 1..Len(stack) : Has(stack[i].args, k) }
\* the value in force for k: that of the top-most block defining it, <<>> when none does
InForce(stack, k) == IF Defining(stack, k) = {} THEN <<>>
                     ELSE << Get(stack[MaxOf(Defining(stack, k))].args, k) >>
AllNames(stack) == UNION { Names(stack[i].args) : i \in 1..Len(stack) }
\* all arguments in force, as a set of <<name, value>>
Merged(stack) == { <<k, InForce(stack, k)[1]>> : k \in AllNames(stack) }
Push(stack, m, app) == Append(stack, [args |-> m, app |-> app])
Pop(stack) == SubSeq(stack, 1, Len(stack) - 1)
\* update_current_context(u): the innermost block's own arguments are overwritten / extended by u (outside any block
\* that is the controller's initial context, and the change stays)
Updated(m, u) == SelectSeq(m, LAMBDA pr : ~Has(u, pr[1])) \o u
Update(stack, u) == [stack EXCEPT ![Len(stack)].args = Updated(@, u)]

----------------------------------------------------------------------------
\* methods and calls
Declared(meth) == { meth[2][i] : i \in 1..Len(meth[2]) } \cup { meth[4][i][1] : i \in 1..Len(meth[4]) }
PosIndex(meth, k) == IF meth[5] = 1 \/ ~\E i \in 1..Len(meth[2]) : meth[2][i] = k THEN 0
                     ELSE CHOOSE i \in 1..Len(meth[2]) : meth[2][i] = k
DefaultOf(meth, k) == IF \E i \in 1..Len(meth[2]) : meth[2][i] = k
                      THEN meth[3][CHOOSE i \in 1..Len(meth[2]) : meth[2][i] = k]
                      ELSE Get(meth[4], k)
\* the value the call itself gives to k: <<argval>> or <<>>
Explicit(meth, pos, kw, k) ==
    LET i == PosIndex(meth, k)
    IN  IF i > 0 /\ i <= Len(pos) THEN <<pos[i]>> ELSE IF Has(kw, k) THEN <<Get(kw, k)>> ELSE <<>>
\* the resolution order of the property
Resolved(meth, pos, kw, stack, k) ==
    LET ex == Explicit(meth, pos, kw, k)  cx == InForce(stack, k)
    IN  IF Len(ex) > 0 THEN ex[1] ELSE IF Len(cx) > 0 THEN <<"int", cx[1]>> ELSE DefaultOf(meth, k)
Lacking(meth, pos, kw, stack) == { k \in Declared(meth) : Resolved(meth, pos, kw, stack, k)[1] = "req" }

----------------------------------------------------------------------------
\* the roles of argument names (from the controllers' documentation)
CoreNames == {"p", "processor"}
\* methods whose core argument IS the destination of every datagram they send
DirectCore == {"read", "write", "fill", "send_scp", "get_software_version", "read_struct_field", "write_struct_field"}
\* methods whose core argument names the core whose per-core record (128-byte VCPU block) is accessed; the
\* access itself may be performed through the monitor (core 0) of the chip
SubjectCore == {"read_vcpu_struct_field", "write_vcpu_struct_field", "get_processor_status", "get_iobuf",
                "get_iobuf_bytes"}
\* methods documented to start at chip (x, y) and then visit every chip of the machine
Explorers == {"discover_connections", "get_system_info"}

----------------------------------------------------------------------------
\* datagrams.  Which SCP commands carry an application id, and where (SC&MP command set: CMD_ALLOC 28
\* arg1 = app << 8 | op for the allocate / free-by-tag / free-by-app operations, CMD_RTR 29 arg1 =
\* count << 16 | app << 8 | op for the load operation, CMD_SIG 22 arg2 = ... mask << 8 | app, CMD_NNP 20
\* flood-fill end (NN command 15 in the top byte of arg1) arg2 = app << 24 | flags << 18).
DConn(d) == d[1]
DX(d) == d[2]
DY(d) == d[3]
DP(d) == d[4]
DCmd(d) == d[5]
AppCarried(d) ==
    CASE d[5] = 28 /\ d[6][1] \in {0, 2, 3, 5} -> << d[6][2] >>
      [] d[5] = 29 /\ d[6][1] = 2               -> << d[6][2] >>
      [] d[5] = 22                              -> << d[7][1] >>
      [] d[5] = 20 /\ d[6][4] = 15              -> << d[7][4] >>
      [] OTHER                                  -> <<>>
\* the signal "stop" (2) to every core (app mask 0xff) of application a
IsStopFor(d, a) == d[5] = 22 /\ d[7] = <<a, 255, 2, 0>>
\* read (2) / write (3) address as a number when it is below 2^31
AddrOf(d) == d[6][1] + 256 * d[6][2] + 65536 * d[6][3] + 16777216 * d[6][4]
InVcpuBlock(d, base, core) == /\ d[5] \in {2, 3} /\ d[6][4] < 128
                              /\ AddrOf(d) >= base + 128 * core /\ AddrOf(d) < base + 128 * (core + 1)

----------------------------------------------------------------------------
\* connection choice of the machine controller.  known: set of chips to which a connection is known;
\* the initial connection is written <<-1, -1>>.
InitialConn == <<-1, -1>>
InsideMachine(x, y, w, h) == x \in 0..(w - 1) /\ y \in 0..(h - 1)
\* On machines that are not whole 12 x 12 cells the torus does not close on board edges: the board of a chip
\* is only determined when that board's Ethernet chip lies inside the machine (same caveat as C19).
BoardDetermined(x, y, w, h, rx, ry) ==
    LET cc == ChipCoord(x, y, rx, ry)
    IN  (w % 12 = 0 /\ h % 12 = 0) \/ InsideMachine(x - cc[1], y - cc[2], w, h)
IsEthChip(c, rx, ry) == ChipCoord(c[1], c[2], rx, ry) = <<0, 0>>
ExpectedConn(known, x, y, w, h, rx, ry) ==
    LET e == LocalEth(x, y, w, h, rx, ry) IN IF e \in known THEN e ELSE InitialConn

\* connection choice of the board controller.  hosts: set of keys <<c, f>> / <<c, f, b>> with a connection
ExpectedBmpConn(hosts, c, f, b) == IF <<c, f, b>> \in hosts THEN <<c, f, b>> ELSE <<c, f>>
\* a board mask with exactly bit b set, as four little-endian bytes
BoardMask(b) == [ i \in 1..4 |-> IF i = (b \div 8) + 1 THEN 2 ^ (b % 8) ELSE 0 ]
=============================================================================
