-------------------------- MODULE RoutingTreeTrace --------------------------
(***************************************************************************)
(* Trace specification for C03.  One trace = one call of route() (or of    *)
(* ner_net alone) on one machine:                                          *)
(*   [w, h, dead: seq of <<x, y>>, deadlinks: seq of <<x, y, l>>, ev]      *)
(* Events: <<"tree", t>> with t a record as described in RoutingTree.tla   *)
(* (one per net), and finally <<"ok">> or <<"raise", exception class>>.    *)
(* <<"notree", ..>>: the returned mapping has no entry for a net of the    *)
(* call; <<"malformed", ..>>: the entry is not a tree of chips, links and  *)
(* the call's own vertices (the driver could not even write it down).      *)
(* st = the machine record, built once per trace.                          *)
(***************************************************************************)
EXTENDS RoutingTree, Json, IOUtils

Traces == JsonDeserialize(IOEnv.TRACE_FILE)
VARIABLES tid, ei, st, verdict
vars == <<tid, ei, st, verdict>>
Tr == Traces[tid]
Ev == Tr.ev[ei]

MachineOf(tr) == [w |-> tr.w, h |-> tr.h, dead |-> { tr.dead[i] : i \in 1..Len(tr.dead) },
                  deadlinks |-> { tr.deadlinks[i] : i \in 1..Len(tr.deadlinks) }]

Checks(e) ==
  CASE e[1] = "tree" ->
        LET t == e[2] IN
        [RootAtSource |-> RootAtSource(t),
         ChipOnce     |-> ChipOnce(t),
         IsTree       |-> IsTree(t),
         HopsLive     |-> HopsLive(st, t),
         NodesLive    |-> NodesLive(st, t),
         LeavesExact  |-> LeavesExact(t),
         SinkChipsInTree |-> SinkChipsInTree(t)]
    [] e[1] = "ok" -> [Closed |-> TRUE]
    \* "for every net the router returns a tree"
    [] e[1] = "notree" -> [EveryNetHasATree |-> FALSE]
    [] e[1] = "malformed" -> [TreeIsWellFormed |-> FALSE]
    [] e[1] = "raise" ->
        [OnlyDisconnectedError |-> e[2] = "MachineHasDisconnectedSubregion",
         \* the only permitted failure, and only on a machine that really is disconnected
         FailsOnlyIfDisconnected |-> ~Connected(st)]
    [] OTHER -> [UnknownEvent |-> FALSE]

Bad == {c \in DOMAIN Checks(Ev) : ~Checks(Ev)[c]}
TInit == tid \in 1..Len(Traces) /\ ei = 1 /\ st = MachineOf(Traces[tid]) /\ verdict = <<>>
TStep == /\ ei <= Len(Tr.ev) /\ verdict = <<>> /\ tid' = tid /\ st' = st
         /\ IF Bad = {} THEN ei' = ei + 1 /\ verdict' = verdict
            ELSE /\ PrintT("REJECT|" \o ToString(tid) \o "|" \o ToString(ei) \o "|" \o ToString(Bad))
                 /\ verdict' = <<ei, Bad>> /\ ei' = ei
TSpec == TInit /\ [][TStep]_vars
=============================================================================
