------------------------------ MODULE ScpTrace ------------------------------
(***************************************************************************)
(* Trace specification for C06.  One trace = one SCPConnection driven      *)
(* through one or several calls of send_scp_burst / send_scp against the   *)
(* virtual-time network of harness/env/net.py.                             *)
(*                                                                         *)
(* Setup fields of the trace record:                                       *)
(*   t0      : the connection's default time-out, in ticks                 *)
(*   tries   : the connection's n_tries                                    *)
(*   seqmod  : size of the sequence-number space of the connection (for    *)
(*             the record only; no clause uses it)                         *)
(*   bursts  : one record per call: [n |-> number of commands,             *)
(*             window |-> window size, extra |-> sequence of n per-command *)
(*             extra time-outs in ticks]                                   *)
(* Events, in program order (t = virtual time in ticks):                   *)
(*   <<"burst", b>>                      call number b begins              *)
(*   <<"send", seq, c, b, t, label, whole>>  a datagram for command c of   *)
(*                                       call b handed to the socket;      *)
(*                                       whole = 1: the data it carries is *)
(*                                       the data the caller gave command  *)
(*                                       c (compared byte by byte by the   *)
(*                                       harness)                          *)
(*   <<"select", timeout, t0, t1, rdy>>  select() entered at t0, left at   *)
(*                                       t1                                *)
(*   <<"recv", seq, rc, t, fb, fc>>      a datagram read from the socket   *)
(*                                       (fb, fc: whom it answers - not    *)
(*                                       used by any clause)               *)
(*   <<"callback", c, rb, rc_, rcode, t, whole>> the callback of c was      *)
(*                                       called with a packet that is the  *)
(*                                       reply generated for command rc_   *)
(*                                       of call rb, return code rcode     *)
(*   <<"raise", class, c, b, t>>         the call raised; for a time-out   *)
(*                                       error (c, b) is the command named *)
(*                                       by the exception's packet (-1 if  *)
(*                                       none); class "DidNotTerminate" is *)
(*                                       written by the harness when the   *)
(*                                       call exceeded its bound of        *)
(*                                       select() calls                    *)
(*   <<"return", t>>                     the call returned                 *)
(*   <<"end">>                           closes the trace                  *)
(* State st: the unanswered commands by sequence number with try counter   *)
(* and time of last transmission, per-command transmission and callback    *)
(* counts, the commands an ok reply was read for, whether a fatal code was *)
(* read, the clock.                                                        *)
(***************************************************************************)
EXTENDS Scp, Json, IOUtils

Traces == JsonDeserialize(IOEnv.TRACE_FILE)
VARIABLES tid, ei, st, verdict
vars == <<tid, ei, st, verdict>>
Tr == Traces[tid]
Ev == Tr.ev[ei]

NoTable == [q \in {} |-> 0]
Burst == Tr.bursts[st.b]
NC == Burst.n
IsCmd(cmd, bno) == st.pc = "run" /\ bno = st.b /\ cmd \in 1..NC
TmoOf(cmd) == TimeoutOf(Tr.t0, Burst.extra[cmd])
Unanswered(cmd) == cmd \in CmdsOf(st.out)
Running == st.pc = "run"

St0 == [pc |-> "idle", b |-> 0, out |-> NoTable, answered |-> {}, done |-> <<>>, tx |-> <<>>,
        fatal |-> FALSE, now |-> 0]

Checks(e) ==
  CASE e[1] = "burst" ->
        [PreviousCallEnded |-> st.pc # "run",
         CallNumber        |-> e[2] = st.b + 1 /\ e[2] <= Len(Tr.bursts)]
    [] e[1] = "send" ->
        LET sq == e[2]  cmd == e[3]  tnow == e[5]  known == IsCmd(cmd, e[4])
            isNew == known /\ st.tx[cmd] = 0
            again == known /\ st.tx[cmd] > 0
            mine == again /\ sq \in DOMAIN st.out /\ st.out[sq].cmd = cmd
        IN [Running           |-> Running,
            KnownCommand      |-> known,
            \* "transmitted", "retransmitted": what goes out under a command's name is that command, with the
            \* data the caller gave it - every time
            WholeRequest      |-> Len(e) >= 7 => e[7] = 1,
            ClockMonotone     |-> tnow >= st.now,
            \* first transmission of a command
            WindowBound       |-> isNew => Cardinality(DOMAIN st.out) < Burst.window,
            SeqNotOutstanding |-> isNew => sq \notin DOMAIN st.out,
            \* retransmission
            RetransmitOfUnanswered |-> again => mine,
            NoEarlyRetransmit |-> mine => Elapsed(st.out[sq].sent, tnow, TmoOf(cmd)),
            TriesBound        |-> again => st.tx[cmd] < Tr.tries]
    [] e[1] = "select" ->
        [ClockMonotone |-> e[3] >= st.now /\ e[4] >= e[3]]
    [] e[1] = "recv" ->
        [Running         |-> Running,
         ClockMonotone   |-> e[4] >= st.now,
         KnownReturnCode |-> RcClass(e[3]) # "unknown"]
    [] e[1] = "callback" ->
        LET cmd == e[2]  known == st.pc = "run" /\ cmd \in 1..NC
        IN [Running          |-> Running,
            KnownCommand     |-> known,
            AtMostOnce       |-> known => st.done[cmd] = 0,
            RightReply       |-> e[3] = st.b /\ e[4] = cmd /\ e[5] = RcOk,
            \* "the reply to that very command": all of it, not a truncated datagram (e[7] = 1: the data handed
            \* over equals the data of the reply that names this command, compared byte by byte by the harness)
            WholeReply       |-> Len(e) >= 7 => e[7] = 1,
            CallbackHasReply |-> cmd \in st.answered]
    [] e[1] = "raise" ->
        LET kind == e[2]  cmd == e[3]
        IN [Running              |-> Running,
            Terminates           |-> kind # "DidNotTerminate",
            OnlyDocumentedErrors |-> kind \in {"TimeoutError", "FatalReturnCodeError", "DidNotTerminate"},
            FatalRaises          |-> st.fatal => kind \in {"FatalReturnCodeError", "DidNotTerminate"},
            FatalOnlyOnFatalCode |-> kind = "FatalReturnCodeError" => st.fatal,
            TimeoutHonest        |-> kind = "TimeoutError" =>
                                        /\ IsCmd(cmd, e[4])
                                        /\ st.tx[cmd] = Tr.tries
                                        /\ Unanswered(cmd) /\ cmd \notin st.answered /\ st.done[cmd] = 0]
    [] e[1] = "return" ->
        [Running          |-> Running,
         FatalRaises      |-> ~st.fatal,
         ReturnedComplete |-> Running => (DOMAIN st.out = {} /\ \A cmd \in 1..NC : st.tx[cmd] >= 1),
         ExactlyOnce      |-> Running => \A cmd \in 1..NC : st.done[cmd] = 1]
    [] e[1] = "end" ->
        [CallEnded |-> st.pc # "run",
         EndIsLast |-> ei = Len(Tr.ev)]
    [] OTHER -> [UnknownEvent |-> FALSE]

\* every trace is closed explicitly
Closed(e) == ei < Len(Tr.ev) \/ e[1] = "end"

Apply(e) ==
  CASE e[1] = "burst" ->
        LET nb == Tr.bursts[e[2]].n
        IN [st EXCEPT !.pc = "run", !.b = e[2], !.out = NoTable, !.answered = {}, !.fatal = FALSE,
                      !.done = [i \in 1..nb |-> 0], !.tx = [i \in 1..nb |-> 0]]
    [] e[1] = "send" ->
        LET sq == e[2]  cmd == e[3]  tnow == e[5]
        IN [st EXCEPT !.out = With(st.out, sq, [cmd |-> cmd, sent |-> tnow]),
                      !.tx[cmd] = @ + 1, !.now = tnow]
    [] e[1] = "select" -> [st EXCEPT !.now = e[4]]
    [] e[1] = "recv" ->
        LET sq == e[2]  kind == RcClass(e[3])
        IN IF kind = "ok" /\ sq \in DOMAIN st.out
           THEN [st EXCEPT !.out = Without(st.out, sq), !.answered = @ \cup {st.out[sq].cmd}, !.now = e[4]]
           ELSE IF kind = "fatal" THEN [st EXCEPT !.fatal = TRUE, !.now = e[4]]
           ELSE [st EXCEPT !.now = e[4]]
    [] e[1] = "callback" -> [st EXCEPT !.done[e[2]] = @ + 1]
    [] e[1] \in {"raise", "return"} -> [st EXCEPT !.pc = "closed"]
    [] OTHER -> st

AllChecks == IF Closed(Ev) THEN Checks(Ev) ELSE [TraceClosedByEnd |-> FALSE]
BadOf(ch) == {cl \in DOMAIN ch : ~ch[cl]}
Bad == BadOf(AllChecks)
TInit == tid \in 1..Len(Traces) /\ ei = 1 /\ st = St0 /\ verdict = <<>>
TStep == /\ ei <= Len(Tr.ev) /\ verdict = <<>> /\ tid' = tid
         /\ LET bad == Bad
            IN IF bad = {} THEN ei' = ei + 1 /\ st' = Apply(Ev) /\ verdict' = verdict
               ELSE /\ PrintT("REJECT|" \o ToString(tid) \o "|" \o ToString(ei) \o "|" \o ToString(bad))
                    /\ verdict' = <<ei, bad>> /\ ei' = ei /\ st' = st
TSpec == TInit /\ [][TStep]_vars
=============================================================================
