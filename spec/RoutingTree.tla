---------------------------- MODULE RoutingTree ----------------------------
(***************************************************************************)
(* Validity of a routing tree returned by the router (C03).                *)
(* A tree is given flat:                                                   *)
(*   nodes  : sequence of <<x, y>>            node 1 is the root           *)
(*   edges  : sequence of <<parent, dir, child>>  (node indices, link)     *)
(*   leaves : sequence of <<node, route, vertex>>  route = -1 for "no      *)
(*            route" (a sink without cores and without endpoint)           *)
(* and the net as                                                          *)
(*   src    : <<x, y>>  chip of the net's source                           *)
(*   sinks  : sequence of <<vertex, x, y, kind, a, b>>                     *)
(*            kind "cores": allocated cores a..b-1;  "endpoint": route a;  *)
(*            "none": no core resource allocated and no endpoint           *)
(* m is a machine record of Hex.tla.                                       *)
(***************************************************************************)
EXTENDS Hex

SeqSet(q) == { q[i] : i \in 1..Len(q) }

RootAtSource(t) == Len(t.nodes) >= 1 /\ t.nodes[1] = t.src
ChipOnce(t) == \A i, j \in 1..Len(t.nodes) : i < j => t.nodes[i] # t.nodes[j]

Parents(t, n) == { e \in SeqSet(t.edges) : e[3] = n }
RECURSIVE Descend(_, _, _)
Descend(t, seen, frontier) ==
    IF frontier = {} THEN seen
    ELSE LET next == { e[3] : e \in { e \in SeqSet(t.edges) : e[1] \in frontier } } \ seen
         IN Descend(t, seen \cup next, next)
\* one parent per non-root node, none for the root, no repeated edge, everything hangs off the root
IsTree(t) == /\ Parents(t, 1) = {}
             /\ \A n \in 2..Len(t.nodes) : Cardinality(Parents(t, n)) = 1
             /\ Len(t.edges) = Len(t.nodes) - 1
             /\ Descend(t, {1}, {1}) = 1..Len(t.nodes)
\* every hop follows a working link from a working chip to the adjacent working chip in that direction
HopsLive(m, t) == \A e \in SeqSet(t.edges) :
                     /\ e[2] \in Links
                     /\ Nbr(t.nodes[e[1]], e[2], m.w, m.h) = t.nodes[e[3]]
                     /\ HopOK(m, t.nodes[e[1]], e[2])
NodesLive(m, t) == \A i \in 1..Len(t.nodes) : ChipAlive(m, t.nodes[i])

ExpectedRoutes(s) == CASE s[4] = "cores"    -> { 6 + c : c \in s[5]..(s[6] - 1) }
                       [] s[4] = "endpoint" -> { s[5] }
                       [] s[4] = "none"     -> { -1 }
ExpectedLeaves(t) == UNION { { <<<<s[2], s[3]>>, r, s[1]>> : r \in ExpectedRoutes(s) } : s \in SeqSet(t.sinks) }
ActualLeaves(t) == { <<t.nodes[lf[1]], lf[2], lf[3]>> : lf \in SeqSet(t.leaves) }
\* every sink is a leaf on the node of its chip with exactly its routes; there are no other leaves
LeavesExact(t) == ActualLeaves(t) = ExpectedLeaves(t)
\* every sink's chip is in the tree (also for sinks that get no leaf, e.g. zero cores allocated)
SinkChipsInTree(t) == \A s \in SeqSet(t.sinks) : <<s[2], s[3]>> \in SeqSet(t.nodes)
\* the tree has no useless branches: every node without children edges carries a leaf or is a sink's chip
TreeValid(m, t) == RootAtSource(t) /\ ChipOnce(t) /\ IsTree(t) /\ HopsLive(m, t) /\ NodesLive(m, t)
                   /\ LeavesExact(t) /\ SinkChipsInTree(t)
=============================================================================
