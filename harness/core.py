"""Shared machinery of every check: tiers/seeds, TLC jobs, verdict collection, known findings,
evidence.  It contains no oracle: an execution is judged by TLC from the .tla text, and this
module only transports traces to TLC and REJECT lines back.
"""
import hashlib
import json
import os
import random
import re
import shutil
import sys
import tempfile
import time

from . import tlc as tlcmod

VERIF = os.path.dirname(os.path.dirname(os.path.abspath(__file__)))
RIG_ROOT = os.environ.get("RIG_ROOT", "/repo")
NCPU = min(16, os.cpu_count() or 4)


class MachineryError(Exception):
    """The verification machinery itself failed (exit status 2)."""


def canon(obj):
    return json.dumps(obj, sort_keys=True, separators=(",", ":"), default=str)


def digest(obj):
    return hashlib.sha1(canon(obj).encode()).hexdigest()[:16]


class Check(object):
    def __init__(self, pid, tier, seed, replay=None):
        self.pid = pid
        self.tier = tier
        self.seed = seed
        self.replay_path = replay
        self.rng = random.Random(seed)
        self.t0 = time.time()
        self.tmp = tempfile.mkdtemp(prefix="rigverif-%s-" % pid)
        self.states = 0
        self.transitions = 0
        self.traces_ok = 0
        self.replayed = 0
        self.evaluations = 0
        self._nontrivial = set()
        self.samples = []
        self.violations = []       # dicts: key, what, replay(obj)
        self.jobs = []             # summaries of TLC jobs
        self.assumptions = []
        self.rule = ""
        self.extra = {}            # extra coverage keys
        self.skipped = {}
        self.exhaustive = None
        self.action_coverage = {}
        self.info = {}             # informational counters

    # ------------------------------------------------------------------ bookkeeping
    @property
    def quick(self):
        return self.tier == "quick"

    def pick(self, quick, thorough):
        return quick if self.quick else thorough

    def note_case(self, obj, nontrivial=True):
        """Count one evaluated case; obj is hashed for the distinct-nontrivial count."""
        self.evaluations += 1
        if nontrivial:
            self._nontrivial.add(digest(obj))

    def sample(self, obj, limit=4):
        if len(self.samples) < limit:
            self.samples.append(obj)

    def skip(self, reason, n=1):
        self.skipped[reason] = self.skipped.get(reason, 0) + n

    def count(self, name, n=1):
        self.info[name] = self.info.get(name, 0) + n

    def violation(self, key, what, replay_obj):
        self.violations.append(dict(key=key, what=what, replay=replay_obj))

    # ------------------------------------------------------------------ TLC jobs
    def design(self, module, cfg, workers=NCPU, timeout=1800, expect_actions=(), env=None,
               heap="6g", label=None, allow_error=False):
        """Job D: exhaustive model check of a design spec.  A failure here cannot be caused by
        the code under test (the job never reads it), so it is a machinery error."""
        r = tlcmod.run_tlc(module, cfg, workers=workers, timeout=timeout, coverage=bool(expect_actions),
                           env=env, heap=heap)
        self.jobs.append(dict(job="D", module=module, cfg=cfg, label=label, **r.summary()))
        if allow_error:
            return r
        if not r.ok:
            raise MachineryError("design job %s/%s failed: %s" % (module, cfg, r.error))
        for a in expect_actions:
            if r.coverage.get(a, (0, 0))[1] == 0:
                raise MachineryError("design job %s/%s: action %s never taken (vacuous)" % (module, cfg, a))
        for a, c in r.coverage.items():
            self.action_coverage["%s.%s" % (module, a)] = c[1]
        self.states += r.distinct
        self.transitions += max(r.generated - 1, 0)
        return r

    def apalache(self, module, init, next_, inv, length, cinit=None, expect="NoError", timeout=900, label=None):
        """Job A: a symbolic check by Apalache (inductive invariants for unbounded constants).  Like job D it never
        reads the code under test, so an unexpected outcome is a machinery error."""
        outcome, wall, tail = tlcmod.run_apalache(module, init, next_, inv, length, cinit=cinit, timeout=timeout)
        self.jobs.append(dict(job="A", tool="apalache-mc 0.58", module=module, init=init, next=next_, inv=inv,
                              length=length, outcome=outcome, expected=expect, wall_s=round(wall, 1), label=label))
        if outcome != expect:
            raise MachineryError("apalache job %s (%s / %s / %s, length %d): outcome %s, expected %s\n%s" %
                                 (module, init, next_, inv, length, outcome, expect, tail))
        return outcome

    def validate(self, module, cfg, traces, workers=NCPU, timeout=1800, batch=4000, heap="6g",
                 key_of=None, label=None, env=None):
        """Job T: validate recorded traces against spec/<module>.tla.

        traces: list of dicts with at least 'ev' (list of events) and whatever 'setup' the module
        reads.  Returns the list of (trace, event_index, clauses) rejected.  Every rejection is
        recorded as a violation with key key_of(trace, idx, clauses).
        """
        rejected = []
        # a batch is at most `batch` traces and at most ~10 MB of JSON (TLC holds the whole batch as one value: a
        # 40 MB batch exhausted its heap and surfaced as a JSON parse error)
        starts, size = [0], 0
        for k, t in enumerate(traces):
            n = len(json.dumps(t, separators=(",", ":"), default=str))
            if k > starts[-1] and (k - starts[-1] >= batch or size + n > 10000000):
                starts.append(k)
                size = 0
            size += n
        for b0, b1 in zip(starts, starts[1:] + [len(traces)]):
            chunk = traces[b0:b1]
            if not chunk:
                continue
            path = os.path.join(self.tmp, "traces-%s-%d.json" % (module, b0))
            tlcmod.write_json(path, chunk)
            e = {"TRACE_FILE": path}
            if env:
                e.update(env)
            r = tlcmod.run_tlc(module, cfg, workers=workers, timeout=timeout, env=e, heap=heap)
            self.jobs.append(dict(job="T", module=module, cfg=cfg, label=label, n=len(chunk),
                                  **r.summary()))
            if not r.ok:
                raise MachineryError("trace job %s/%s failed: %s\n%s" % (module, cfg, r.error, r.cmd))
            bad_tids = set()
            for line in r.rejects:
                parts = line.replace('\\"', '"').split("|")
                tid, l = int(parts[0]), int(parts[1])
                clauses = sorted(set(re.findall(r'"([^"]+)"', parts[2]))) if len(parts) > 2 else []
                detail = parts[3] if len(parts) > 3 else ""
                tr = chunk[tid - 1]
                if tid in bad_tids:
                    continue
                bad_tids.add(tid)
                rejected.append((tr, l, clauses))
                key = key_of(tr, l, clauses) if key_of else "%s %s" % (",".join(clauses), digest(tr))
                self.violation(key, "trace rejected by %s at event %d: clauses %s %s" %
                               (module, l, clauses, detail),
                               dict(module=module, cfg=cfg, event=l, clauses=clauses, trace=tr))
            expected = sum(len(t["ev"]) + 1 for t in chunk)
            if not bad_tids and r.distinct != expected:
                raise MachineryError("trace job %s/%s: %d distinct states, expected %d (some trace "
                                     "was neither accepted nor rejected)" % (module, cfg, r.distinct, expected))
            self.states += r.distinct
            self.transitions += max(r.generated - len(chunk), 0)
            self.traces_ok += len(chunk) - len(bad_tids)
            os.remove(path)
        return rejected

    def validate_beyond(self, module, cfg, traces, label, **kw):
        """Job T for behaviour BEYOND the listed property (the specification grows past the properties): the traces
        are judged by TLC like any others, but a rejection is reported as an `EXTRA:` line and counted in the
        evidence, never as a VIOLATION of this check's property."""
        shadow = Check(self.pid, self.tier, self.seed)
        try:
            rej = shadow.validate(module, cfg, traces, **kw)
        finally:
            shutil.rmtree(shadow.tmp, ignore_errors=True)
        self.states += shadow.states
        self.transitions += shadow.transitions
        self.jobs += [dict(j, label="beyond the property: " + label) for j in shadow.jobs]
        info = self.extra.setdefault("beyond_the_property", {})
        info[label] = dict(traces=len(traces), accepted=shadow.traces_ok, rejected=len(rej),
                           rejected_clauses=sorted({c for _, _, cl in rej for c in cl}))
        for tr, i, cl in rej[:5]:
            print("EXTRA: %s (beyond property %s): event %d rejected by %s" % (label, self.pid, i, cl))
        return rej

    # ------------------------------------------------------------------ finish
    def finish(self):
        from .known import load_known
        known = load_known().get(self.pid, {})
        shutil.rmtree(self.tmp, ignore_errors=True)
        new = []
        seen_known = {}
        for v in self.violations:
            if v["key"] in known:
                seen_known.setdefault(v["key"], 0)
                seen_known[v["key"]] += 1
            else:
                new.append(v)
        for k, n in sorted(seen_known.items()):
            print("KNOWN-FINDING: property=%s %s (%s; %d occurrence(s) this run)" %
                  (self.pid, k, known[k], n))
        rc = 0
        rdir = os.path.join(VERIF, "replay", self.pid)
        reported = set()
        for v in new:
            if v["key"] in reported:
                continue
            reported.add(v["key"])
            if len(reported) > 10:
                break
            os.makedirs(rdir, exist_ok=True)
            path = os.path.join(rdir, "%s-%s.json" % (self.tier, digest(v["key"])))
            with open(path, "w") as f:
                json.dump(dict(property=self.pid, key=v["key"], what=v["what"], seed=self.seed,
                               tier=self.tier, replay=v["replay"]), f, indent=1, default=str)
            print("VIOLATION property=%s replay=%s" % (self.pid, path))
            print("  " + v["what"][:600])
            rc = 1
        self.write_evidence(len(new))
        return rc

    def write_evidence(self, nviol):
        cov = dict(
            states=self.states, transitions=self.transitions,
            traces_validated_against_impl=self.traces_ok + self.replayed,
            samples=self.samples,
            evaluations=self.evaluations, distinct_nontrivial=len(self._nontrivial),
            rule=self.rule, tlc_jobs=self.jobs, skipped=self.skipped,
            action_coverage=self.action_coverage, informational=self.info,
            behaviours_replayed_into_impl=self.replayed,
            trusted_base=["TLC 1.8 + CommunityModules Json/Bitwise/IOUtils overrides",
                          "CPython 3.12", "harness projections (self-tested)"],
        )
        if self.exhaustive is not None:
            cov["exhaustive"] = self.exhaustive
        cov.update(self.extra)
        ev = dict(property_id=self.pid, tier=self.tier, seed=self.seed, level="model_checking",
                  coverage=cov, assumptions=self.assumptions, wall_s=round(time.time() - self.t0, 2),
                  violations=nviol)
        os.makedirs(os.path.join(VERIF, "evidence"), exist_ok=True)
        with open(os.path.join(VERIF, "evidence", "%s.json" % self.pid), "w") as f:
            json.dump(ev, f, indent=1, default=str)


def import_rig():
    """Import rig from RIG_ROOT's current working tree, never from an installed copy."""
    if sys.path[0] != RIG_ROOT:
        sys.path.insert(0, RIG_ROOT)
    import warnings
    warnings.simplefilter("ignore")
    import rig
    assert os.path.abspath(rig.__file__).startswith(os.path.abspath(RIG_ROOT)), rig.__file__
    return rig
