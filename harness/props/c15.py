"""C15 - SDP and SCP packets encode to the wire layout and decode back unchanged.

D: PacketsDesign.tla - round trip, fewer-argument decoding and field isolation of the layout itself.
T: rig's SDPPacket / SCPPacket encode and decode results as events judged by PacketsTrace.tla
   (the layout is written in Packets.tla from the documentation, as byte sequences).
"""
import random
import struct

from rig.machine_control.packets import SDPPacket, SCPPacket

WIDTHS = dict(tag=255, dest_port=7, dest_cpu=31, src_port=7, src_cpu=31, dest_x=255, dest_y=255, src_x=255,
              src_y=255, cmd_rc=65535, seq=65535)
SHORT = dict(dest_port="dport", dest_cpu="dcpu", src_port="sport", src_cpu="scpu", dest_x="dx", dest_y="dy",
             src_x="sx", src_y="sy", cmd_rc="cmd", tag="tag", seq="seq")


def le4(v):
    """a 32-bit argument as four little-endian bytes ([] for None); a value that is no unsigned 32-bit integer (a
    decoder gone wrong) is sent as four -1s, which equal no bytes and are judged by the specification"""
    if v is None:
        return []
    if not isinstance(v, int) or not 0 <= v < 1 << 32:
        return [-1, -1, -1, -1]
    return list(struct.pack("<I", v))


def rec_of(p, scp):
    r = dict(reply=1 if p.reply_expected else 0, tag=p.tag, dport=p.dest_port, dcpu=p.dest_cpu, sport=p.src_port,
             scpu=p.src_cpu, dx=p.dest_x, dy=p.dest_y, sx=p.src_x, sy=p.src_y, data=list(p.data))
    if scp:
        r.update(cmd=p.cmd_rc, seq=p.seq, args=[le4(p.arg1), le4(p.arg2), le4(p.arg3)])
    return r


def given_of(kw, scp):
    """the constructor's arguments in the shape of rec_of (mechanical renaming)"""
    r = dict(reply=1 if kw["reply_expected"] else 0, data=list(kw.get("data", b"")))
    for f, short in SHORT.items():
        if f in kw:
            r[short] = kw[f]
    if scp:
        r["args"] = [le4(kw.get("arg1")), le4(kw.get("arg2")), le4(kw.get("arg3"))]
    return r


def run(chk):
    rng = random.Random(chk.seed)
    chk.design("PacketsDesign", "PacketsDesign.cfg", expect_actions=("SetField",))
    evs = []

    def one(kw, scp, nargs_list=(0, 1, 2, 3)):
        cls = SCPPacket if scp else SDPPacket
        p = cls(**kw)
        evs.append(["new", given_of(kw, scp), rec_of(p, scp)])     # the packet is the one that was asked for
        b = p.bytestring
        evs.append(["scp_enc" if scp else "sdp_enc", rec_of(p, scp), list(b)])
        if scp:
            for n in nargs_list:
                q = SCPPacket.from_bytestring(b, n_args=n)
                evs.append(["scp_dec", list(b), n, rec_of(q, True)])
        else:
            q = SDPPacket.from_bytestring(b)
            evs.append(["sdp_dec", list(b), rec_of(q, False)])
        chk.note_case((scp, sorted(kw.items(), key=str)), nontrivial=True)

    def base(v, scp):
        kw = dict(reply_expected=bool(v), data=b"")
        for f, w in WIDTHS.items():
            if f in ("cmd_rc", "seq") and not scp:
                continue
            kw[f] = w if v else 0
        return kw

    # field sweeps: each field over its full width, neighbours all zeros / all ones
    for scp in (False, True):
        for v in (0, 1):
            for f, w in WIDTHS.items():
                if f in ("cmd_rc", "seq") and not scp:
                    continue
                vals = range(w + 1) if w <= 255 else sorted(set(
                    list(range(0, 260)) + list(range(65270, 65536)) + [257 * k for k in range(256)] +
                    [rng.randrange(65536) for _ in range(chk.pick(100, 12000))]))
                for x in vals:
                    kw = base(v, scp)
                    kw[f] = x
                    if scp:
                        kw.update(arg1=0xFFFFFFFF if v else 0, arg2=None, arg3=None, data=b"\x5a" if v else b"")
                    one(kw, scp, nargs_list=(1, 3))
    # argument presence x payload lengths (0..16, incl. 1..11 that end inside the argument words)
    argvals = [0, 1, 0x80000000, 0xFFFFFFFF, 0x01020304, 0xA5A5A5A5]
    for na in range(4):
        for plen in range(0, 17):
            for rep in range(chk.pick(2, 40)):
                kw = base(rep % 2, True)
                for f, w in WIDTHS.items():
                    kw[f] = rng.randint(0, w)
                args = [rng.choice(argvals) if rng.random() < 0.6 else rng.randrange(1 << 32) for _ in range(na)]
                args += [None] * (3 - na)
                kw.update(arg1=args[0], arg2=args[1], arg3=args[2],
                          data=bytes(rng.randrange(256) for _ in range(plen)))
                one(kw, True)
    # raw datagrams of every length 14..30 decoded with every argument count
    for ln in range(14, 31):
        for rep in range(chk.pick(3, 80)):
            b = bytes([0, 0, rng.choice([0x87, 0x07])] + [rng.randrange(256) for _ in range(ln - 3)])
            for n in range(4):
                q = SCPPacket.from_bytestring(b, n_args=n)
                evs.append(["scp_dec", list(b), n, rec_of(q, True)])
            q = SDPPacket.from_bytestring(b)
            evs.append(["sdp_dec", list(b), rec_of(q, False)])
            chk.note_case(("raw", b.hex()))
    # random SDP packets with payloads
    for rep in range(chk.pick(200, 15000)):
        kw = dict(reply_expected=rng.random() < 0.5, data=bytes(rng.randrange(256) for _ in range(rng.randint(0, 20))))
        for f, w in WIDTHS.items():
            if f not in ("cmd_rc", "seq"):
                kw[f] = rng.randint(0, w)
        one(kw, False)

    # the same packet object encoded again after fields were assigned (packets are mutable objects)
    for rep in range(chk.pick(300, 20000)):
        scp = rng.random() < 0.7
        kw = dict(reply_expected=rng.random() < 0.5, data=bytes(rng.randrange(256) for _ in range(rng.randint(0, 6))))
        for f, w in WIDTHS.items():
            if scp or f not in ("cmd_rc", "seq"):
                kw[f] = rng.randint(0, w)
        if scp:
            kw.update(arg1=rng.choice((None, 0, 5, 0xFFFFFFFF)), arg2=None, arg3=None)
            if kw["arg1"] is not None and rng.random() < 0.5:
                kw["arg2"] = rng.randrange(1 << 32)
        p = (SCPPacket if scp else SDPPacket)(**kw)
        for step in range(rng.randint(2, 4)):
            b = p.bytestring
            evs.append(["scp_enc" if scp else "sdp_enc", rec_of(p, scp), list(b)])
            fields = [f for f in WIDTHS if scp or f not in ("cmd_rc", "seq")] + ["data", "reply_expected"]
            if scp:
                fields += ["arg1", "arg2", "arg3"]
            f = rng.choice(fields)
            if f == "data":
                p.data = bytes(rng.randrange(256) for _ in range(rng.randint(0, 6)))
            elif f == "reply_expected":
                p.reply_expected = not p.reply_expected
            elif f in ("arg1", "arg2", "arg3"):
                # keep the present arguments a prefix
                if f == "arg1" or (f == "arg2" and p.arg1 is not None) or (f == "arg3" and p.arg2 is not None):
                    if getattr(p, f) is not None or rng.random() < 0.7:
                        setattr(p, f, rng.choice((0, 1, 0x80000000, rng.randrange(1 << 32))))
            else:
                setattr(p, f, rng.randint(0, WIDTHS[f]))
        chk.note_case(("re-encode", scp, sorted(kw.items(), key=str)))

    traces = [dict(ev=evs[i:i + 200]) for i in range(0, len(evs), 200)]
    chk.rule = ("every header field swept over its full width (16-bit fields: both ends, equal-byte values and random "
                "values) with all other fields all-zeros and all-ones, SDP and SCP; 0-3 arguments x payload lengths "
                "0..16 x random headers; raw datagrams of length 14..30 decoded with n_args 0..3; distinct = distinct "
                "constructor arguments / datagram bytes")
    chk.exhaustive = False
    chk.sample(evs[0]); chk.sample(evs[len(evs) // 2]); chk.sample(evs[-1])

    def key_of(tr, i, clauses):
        e = tr["ev"][i - 1]
        return "%s %s" % (e[0], ",".join(clauses))

    chk.validate("PacketsTrace", "PacketsTrace.cfg", traces, key_of=key_of, batch=3000)


def selftest(chk):
    p = SCPPacket(True, 0xff, 1, 2, 7, 31, 3, 4, 0, 0, 0x1234, 0x5678, 1, 2, None, b"xyz")
    b = list(p.bytestring)
    r = rec_of(p, True)
    q = rec_of(SCPPacket.from_bytestring(bytes(b), 2), True)
    def mod(d, **kw):
        d = dict(d); d.update(kw); return d
    swapped = list(b); swapped[6], swapped[7] = swapped[7], swapped[6]
    cases = [
        (dict(ev=[["scp_enc", r, b], ["scp_dec", b, 2, q]]), None),
        (dict(ev=[["scp_enc", r, swapped]]), "WireLayout"),
        (dict(ev=[["scp_enc", r, b[:-1]]]), "WireLayout"),
        (dict(ev=[["scp_dec", b, 2, mod(q, sport=1)]]), "DecodeFields"),
        (dict(ev=[["scp_dec", b, 2, mod(q, args=[q["args"][0], [], []])]]), "DecodeArgs"),
        (dict(ev=[["scp_dec", b, 2, mod(q, data=q["data"][1:])]]), "DecodePayload"),
    ]
    rej = chk.validate("PacketsTrace", "PacketsTrace.cfg", [c[0] for c in cases])
    got = {id(t): cl for t, _, cl in rej}
    msgs = []
    for tr, want in cases:
        cl = got.get(id(tr))
        if (want is None) != (cl is None) or (want and want not in cl):
            msgs.append("expected %s, got %s" % (want, cl))
    return not msgs, "; ".join(msgs) or "%d corrupted traces rejected with the expected clauses" % (len(cases) - 1)
