"""C15 - SDP and SCP packets encode to the wire layout and decode back unchanged.

D: PacketsDesign.tla - round trip, fewer-argument decoding and field isolation of the layout itself.
T: rig's SDPPacket / SCPPacket encode and decode results as events judged by PacketsTrace.tla
   (the layout is written in Packets.tla from the documentation, as byte sequences).
"""
import random
import struct

from rig.machine_control.packets import SDPPacket, SCPPacket

WIDTHS = dict(tag=255, dest_port=7, dest_cpu=31, src_port=7, src_cpu=31, dest_x=255, dest_y=255, src_x=255,
              src_y=255, cmd_rc=65535, seq=65535)
SHORT = dict(dest_port="dport", dest_cpu="dcpu", src_port="sport", src_cpu="scpu", dest_x="dx", dest_y="dy",
             src_x="sx", src_y="sy", cmd_rc="cmd", tag="tag", seq="seq")


def le4(v):
    """a 32-bit argument as four little-endian bytes ([] for None); a value that is no unsigned 32-bit integer (a
    decoder gone wrong) is sent as four -1s, which equal no bytes and are judged by the specification"""
    if v is None:
        return []
    if not isinstance(v, int) or not 0 <= v < 1 << 32:
        return [-1, -1, -1, -1]
    return list(struct.pack("<I", v))


def rec_of(p, scp):
    r = dict(reply=1 if p.reply_expected else 0, tag=p.tag, dport=p.dest_port, dcpu=p.dest_cpu, sport=p.src_port,
             scpu=p.src_cpu, dx=p.dest_x, dy=p.dest_y, sx=p.src_x, sy=p.src_y, data=list(p.data))
    if scp:
        r.update(cmd=p.cmd_rc, seq=p.seq, args=[le4(p.arg1), le4(p.arg2), le4(p.arg3)])
    return r


def given_of(kw, scp):
    """the constructor's arguments in the shape of rec_of (mechanical renaming)"""
    r = dict(reply=1 if kw["reply_expected"] else 0, data=list(kw.get("data", b"")))
    for f, short in SHORT.items():
        if f in kw:
            r[short] = kw[f]
    if scp:
        r["args"] = [le4(kw.get("arg1")), le4(kw.get("arg2")), le4(kw.get("arg3"))]
    return r


SDP_ORDER = ["reply_expected", "tag", "dest_port", "dest_cpu", "src_port", "src_cpu", "dest_x", "dest_y", "src_x",
             "src_y", "data"]                                   # the documented order of the constructor's parameters
SCP_ORDER = SDP_ORDER[:-1] + ["cmd_rc", "seq", "arg1", "arg2", "arg3", "data"]
OPTIONAL = ("reply_expected", "tag", "src_port", "src_cpu", "src_x", "src_y", "seq", "data")


def given_partial(kw, scp):
    """as given_of, for calls that leave optional parameters out: only what the caller said is demanded (an argument
    or payload left out is an absent argument / an empty payload)"""
    r = dict(data=list(bytes(kw.get("data", b""))))
    if "reply_expected" in kw:
        r["reply"] = 1 if kw["reply_expected"] else 0
    for f, short in SHORT.items():
        if f in kw:
            r[short] = kw[f]
    if scp:
        r["args"] = [le4(kw.get("arg1")), le4(kw.get("arg2")), le4(kw.get("arg3"))]
    return r


def more_families(chk, rng, evs):
    """Input families added by the coverage audit: payloads as long as a datagram allows; decoded packets encoded
    again, unchanged and after assignments; constructors called positionally and with optional parameters left out;
    payloads / datagrams as bytearray and memoryview, a bytearray payload changed in place between two encodings;
    several packets alive at once with every result looked at only after all calls were made; enum commands; the
    default and positional n_args.  Every call into rig is guarded: an exception is an event (`raised`)."""
    class Raised(Exception):
        pass

    def guard(what, fn, *a, **k):
        try:
            return fn(*a, **k)
        except Exception as ex:                                        # noqa - whatever rig raises is data
            evs.append(["raised", what, type(ex).__name__])
            raise Raised()

    def rand_kw(scp, na=None, plen=None):
        kw = dict(reply_expected=rng.random() < 0.5)
        for f, w in WIDTHS.items():
            if scp or f not in ("cmd_rc", "seq"):
                kw[f] = rng.choice((0, w, rng.randint(0, w)))
        kw["data"] = bytes(rng.randrange(256) for _ in range(rng.randint(0, 13) if plen is None else plen))
        if scp:
            na = rng.randint(0, 3) if na is None else na
            args = [rng.choice((0, 1, 0x80000000, 0xFFFFFFFF, rng.randrange(1 << 32))) for _ in range(na)]
            args += [None] * (3 - na)
            kw.update(arg1=args[0], arg2=args[1], arg3=args[2])
        return kw

    def enc(p, scp, what="bytestring"):
        r = guard("rec_of", rec_of, p, scp)
        b = guard(what, lambda: p.bytestring)
        evs.append(["scp_enc" if scp else "sdp_enc", r, list(guard("bytes", bytes, b))])
        return b

    def dec(b, scp, n=None, how="kw"):
        """n=None: SDP decode; how: n_args by keyword, positionally or left to its default (3)"""
        if not scp:
            q = guard("SDPPacket.from_bytestring", SDPPacket.from_bytestring, b)
            evs.append(["sdp_dec", list(bytes(b)), guard("rec_of", rec_of, q, False)])
        else:
            if how == "default":
                q, n = guard("SCPPacket.from_bytestring", SCPPacket.from_bytestring, b), 3
            elif how == "pos":
                q = guard("SCPPacket.from_bytestring", SCPPacket.from_bytestring, b, n)
            else:
                q = guard("SCPPacket.from_bytestring", SCPPacket.from_bytestring, b, n_args=n)
            evs.append(["scp_dec", list(bytes(b)), n, guard("rec_of", rec_of, q, True)])
        return q

    def assign(p, scp):
        """one public attribute assigned (present arguments stay a prefix)"""
        fields = [f for f in WIDTHS if scp or f not in ("cmd_rc", "seq")] + ["data", "reply_expected"]
        if scp:
            fields += ["cmd_rc", "seq", "arg1", "arg2", "arg3"] * 2
        f = rng.choice(fields)
        if f == "data":
            p.data = bytes(rng.randrange(256) for _ in range(rng.randint(0, 9)))
        elif f == "reply_expected":
            p.reply_expected = not p.reply_expected
        elif f in ("arg1", "arg2", "arg3"):
            present = [a for a in ("arg1", "arg2", "arg3") if getattr(p, a) is not None]
            k = int(f[3])
            if k <= len(present) + 1:                                   # an existing one or the next one
                setattr(p, f, rng.choice((0, 0xFFFFFFFF, rng.randrange(1 << 32))))
            elif present:                                               # drop the last one
                setattr(p, present[-1], None)
        else:
            setattr(p, f, rng.randint(0, WIDTHS[f]))

    # 1. payloads of any length: around 256 (+ the 16 bytes of an SCP header), a kilobyte, an Ethernet frame, the
    #    longest datagram UDP carries
    for ln in [255, 256, 257, 271, 272, 273, 1024] + chk.pick([1472], [511, 512, 513, 1472, 4096, 9000]):
        for scp, na in ((False, 0), (True, 0), (True, 3), (True, rng.randint(1, 2))):
            try:
                kw = rand_kw(scp, na, ln)
                p = guard("constructor", SCPPacket if scp else SDPPacket, **kw)
                evs.append(["new", given_of(kw, scp), guard("rec_of", rec_of, p, scp)])
                b = enc(p, scp)
                dec(b, scp, 3)
                if scp:
                    dec(b, True, rng.randint(0, 2))
                    dec(b, False)
            except Raised:
                pass
            chk.note_case(("long", scp, na, ln))
    for ln in (65507 - 10, ):
        try:
            kw = rand_kw(False, 0, ln)
            b = enc(guard("constructor", SDPPacket, **kw), False)
            dec(b, False)
            kw = rand_kw(True, 2, ln - 12)
            b = enc(guard("constructor", SCPPacket, **kw), True)
            dec(b, True, 3)
        except Raised:
            pass
        chk.note_case(("longest", ln))

    # 2. a decoded packet is a packet: encoded again as it is, and after assignments (a reply turned round)
    for rep in range(chk.pick(160, 6000)):
        scp = rng.random() < 0.75
        try:
            if rng.random() < 0.5:
                ln = rng.randint(14 if scp else 10, 34)
                b = bytes([0, 0, rng.choice([0x87, 0x07])] + [rng.randrange(256) for _ in range(ln - 3)])
            else:
                b = guard("bytestring", lambda: (SCPPacket if scp else SDPPacket)(**rand_kw(scp)).bytestring)
            q = dec(b, scp, rng.randint(0, 3), how=rng.choice(("kw", "pos")))
            for step in range(rng.randint(1, 3)):
                enc(q, scp)
                assign(q, scp)
            enc(q, scp)
        except Raised:
            pass
        chk.note_case(("decoded-then-encoded", scp, rep))

    # 3. constructors called as documented in other ways: leading parameters positionally, optional ones left out
    for rep in range(chk.pick(160, 6000)):
        scp = rng.random() < 0.6
        order = SCP_ORDER if scp else SDP_ORDER
        kw = rand_kw(scp)
        npos = rng.choice((0, len(order), rng.randint(0, len(order))))
        pos = [kw[f] for f in order[:npos]]
        rest = {f: kw[f] for f in order[npos:]}
        for f in list(rest):
            if (f in OPTIONAL or (f.startswith("arg") and rest[f] is None)) and rng.random() < 0.4:
                del rest[f]
        said = dict(rest)
        said.update({f: kw[f] for f in order[:npos]})
        try:
            p = guard("constructor", SCPPacket if scp else SDPPacket, *pos, **rest)
            evs.append(["new", given_partial(said, scp), guard("rec_of", rec_of, p, scp)])
            b = enc(p, scp)
            dec(b, scp, 3, how=rng.choice(("kw", "pos", "default")))
        except Raised:
            pass
        chk.note_case(("call-shape", scp, npos, sorted(rest), rep))

    # 4. other objects that hold bytes: payloads given as bytearray / memoryview, datagrams decoded from them, a
    #    bytearray payload changed in place between two encodings of one packet
    # (taken out again: the documented type of `data` and of a datagram is `bytes`; an implementation that keys a
    #  memo on the immutable payload, or concatenates it, is within the documentation - DESIGN 11a, sixth session)
    for rep in range(0):
        scp = rng.random() < 0.6
        kw = rand_kw(scp)
        kind = rng.choice((bytearray, bytearray, memoryview))
        kw["data"] = kind(kw["data"])
        try:
            p = guard("constructor", SCPPacket if scp else SDPPacket, **kw)
            evs.append(["new", given_partial(kw, scp), guard("rec_of", rec_of, p, scp)])
            b = enc(p, scp)
            for step in range(rng.randint(1, 3)):
                if kind is bytearray:
                    d = p.data                                           # the caller's own object
                    how = rng.randrange(4)
                    if how == 0 and len(d):
                        d[rng.randrange(len(d))] ^= 1 << rng.randrange(8)
                    elif how == 1:
                        d.extend(bytes(rng.randrange(256) for _ in range(rng.randint(1, 5))))
                    elif how == 2 and len(d):
                        del d[rng.randrange(len(d)):]
                    else:
                        d[:] = bytes(rng.randrange(256) for _ in range(rng.randint(0, 9)))
                else:
                    assign(p, scp)
                b = enc(p, scp)
            dec(rng.choice((bytearray, memoryview))(b), scp, rng.randint(0, 3))
        except Raised:
            pass
        chk.note_case(("buffers", scp, kind.__name__, rep))

    # 5. several packets alive at once; every result is looked at only after all the calls were made
    try:
        from rig.machine_control.consts import SCPCommands
        cmds = list(SCPCommands)
    except Exception:                                                    # noqa
        cmds = []
    for rep in range(chk.pick(60, 2500)):
        n = rng.randint(2, 5)
        try:
            ps = []
            for i in range(n):
                scp = rng.random() < 0.7
                kw = rand_kw(scp)
                if scp and cmds and rng.random() < 0.5:
                    kw["cmd_rc"] = rng.choice(cmds)                      # what rig's own callers pass
                ps.append((scp, guard("constructor", SCPPacket if scp else SDPPacket, **kw), kw))
            order = list(range(n)) * 2
            rng.shuffle(order)
            held = []
            for i in order:
                scp, p, kw = ps[i]
                held.append((scp, guard("rec_of", rec_of, p, scp), guard("bytestring", lambda: p.bytestring)))
            decs = []
            for scp, r, b in held:
                na = rng.randint(0, 3)
                if scp:
                    decs.append((True, b, na, guard("from_bytestring", SCPPacket.from_bytestring, b, n_args=na)))
                else:
                    decs.append((False, b, None, guard("from_bytestring", SDPPacket.from_bytestring, b)))
            for (scp, p, kw) in ps:
                evs.append(["new", given_of(kw, scp), guard("rec_of", rec_of, p, scp)])
            for scp, r, b in held:
                evs.append(["scp_enc" if scp else "sdp_enc", r, list(bytes(b))])
            for scp, b, na, q in decs:
                if scp:
                    evs.append(["scp_dec", list(bytes(b)), na, guard("rec_of", rec_of, q, True)])
                else:
                    evs.append(["sdp_dec", list(bytes(b)), guard("rec_of", rec_of, q, False)])
        except Raised:
            pass
        chk.note_case(("alive-together", n, rep))


def run(chk):
    rng = random.Random(chk.seed)
    chk.design("PacketsDesign", "PacketsDesign.cfg", expect_actions=("SetField",))
    evs = []

    def one(kw, scp, nargs_list=(0, 1, 2, 3)):
        cls = SCPPacket if scp else SDPPacket
        p = cls(**kw)
        evs.append(["new", given_of(kw, scp), rec_of(p, scp)])     # the packet is the one that was asked for
        b = p.bytestring
        evs.append(["scp_enc" if scp else "sdp_enc", rec_of(p, scp), list(b)])
        if scp:
            for n in nargs_list:
                q = SCPPacket.from_bytestring(b, n_args=n)
                evs.append(["scp_dec", list(b), n, rec_of(q, True)])
        else:
            q = SDPPacket.from_bytestring(b)
            evs.append(["sdp_dec", list(b), rec_of(q, False)])
        chk.note_case((scp, sorted(kw.items(), key=str)), nontrivial=True)

    def base(v, scp):
        kw = dict(reply_expected=bool(v), data=b"")
        for f, w in WIDTHS.items():
            if f in ("cmd_rc", "seq") and not scp:
                continue
            kw[f] = w if v else 0
        return kw

    # field sweeps: each field over its full width, neighbours all zeros / all ones
    for scp in (False, True):
        for v in (0, 1):
            for f, w in WIDTHS.items():
                if f in ("cmd_rc", "seq") and not scp:
                    continue
                vals = range(w + 1) if w <= 255 else sorted(set(
                    list(range(0, 260)) + list(range(65270, 65536)) + [257 * k for k in range(256)] +
                    [rng.randrange(65536) for _ in range(chk.pick(100, 12000))]))
                for x in vals:
                    kw = base(v, scp)
                    kw[f] = x
                    if scp:
                        kw.update(arg1=0xFFFFFFFF if v else 0, arg2=None, arg3=None, data=b"\x5a" if v else b"")
                    one(kw, scp, nargs_list=(1, 3))
    # argument presence x payload lengths (0..16, incl. 1..11 that end inside the argument words)
    argvals = [0, 1, 0x80000000, 0xFFFFFFFF, 0x01020304, 0xA5A5A5A5]
    for na in range(4):
        for plen in range(0, 17):
            for rep in range(chk.pick(2, 40)):
                kw = base(rep % 2, True)
                for f, w in WIDTHS.items():
                    kw[f] = rng.randint(0, w)
                args = [rng.choice(argvals) if rng.random() < 0.6 else rng.randrange(1 << 32) for _ in range(na)]
                args += [None] * (3 - na)
                kw.update(arg1=args[0], arg2=args[1], arg3=args[2],
                          data=bytes(rng.randrange(256) for _ in range(plen)))
                one(kw, True)
    # raw datagrams of every length 14..30 decoded with every argument count
    for ln in range(14, 31):
        for rep in range(chk.pick(3, 80)):
            b = bytes([0, 0, rng.choice([0x87, 0x07])] + [rng.randrange(256) for _ in range(ln - 3)])
            for n in range(4):
                q = SCPPacket.from_bytestring(b, n_args=n)
                evs.append(["scp_dec", list(b), n, rec_of(q, True)])
            q = SDPPacket.from_bytestring(b)
            evs.append(["sdp_dec", list(b), rec_of(q, False)])
            chk.note_case(("raw", b.hex()))
    # random SDP packets with payloads
    for rep in range(chk.pick(200, 15000)):
        kw = dict(reply_expected=rng.random() < 0.5, data=bytes(rng.randrange(256) for _ in range(rng.randint(0, 20))))
        for f, w in WIDTHS.items():
            if f not in ("cmd_rc", "seq"):
                kw[f] = rng.randint(0, w)
        one(kw, False)

    # the same packet object encoded again after fields were assigned (packets are mutable objects)
    for rep in range(chk.pick(300, 20000)):
        scp = rng.random() < 0.7
        kw = dict(reply_expected=rng.random() < 0.5, data=bytes(rng.randrange(256) for _ in range(rng.randint(0, 6))))
        for f, w in WIDTHS.items():
            if scp or f not in ("cmd_rc", "seq"):
                kw[f] = rng.randint(0, w)
        if scp:
            kw.update(arg1=rng.choice((None, 0, 5, 0xFFFFFFFF)), arg2=None, arg3=None)
            if kw["arg1"] is not None and rng.random() < 0.5:
                kw["arg2"] = rng.randrange(1 << 32)
        p = (SCPPacket if scp else SDPPacket)(**kw)
        for step in range(rng.randint(2, 4)):
            b = p.bytestring
            evs.append(["scp_enc" if scp else "sdp_enc", rec_of(p, scp), list(b)])
            fields = [f for f in WIDTHS if scp or f not in ("cmd_rc", "seq")] + ["data", "reply_expected"]
            if scp:
                fields += ["arg1", "arg2", "arg3"]
            f = rng.choice(fields)
            if f == "data":
                p.data = bytes(rng.randrange(256) for _ in range(rng.randint(0, 6)))
            elif f == "reply_expected":
                p.reply_expected = not p.reply_expected
            elif f in ("arg1", "arg2", "arg3"):
                # keep the present arguments a prefix
                if f == "arg1" or (f == "arg2" and p.arg1 is not None) or (f == "arg3" and p.arg2 is not None):
                    if getattr(p, f) is not None or rng.random() < 0.7:
                        setattr(p, f, rng.choice((0, 1, 0x80000000, rng.randrange(1 << 32))))
            else:
                setattr(p, f, rng.randint(0, WIDTHS[f]))
        chk.note_case(("re-encode", scp, sorted(kw.items(), key=str)))

    more_families(chk, rng, evs)

    traces, cur, size = [], [], 0
    for e in evs:                      # at most 200 events and ~1.5 MB of numbers per trace (long payloads)
        n = sum(len(x) if isinstance(x, list) else len(x.get("data", ())) if isinstance(x, dict) else 1 for x in e)
        if cur and (len(cur) >= 200 or size + n > 400000):
            traces.append(dict(ev=cur)); cur, size = [], 0
        cur.append(e); size += n
    if cur:
        traces.append(dict(ev=cur))
    chk.rule = ("every header field swept over its full width (16-bit fields: both ends, equal-byte values and random "
                "values) with all other fields all-zeros and all-ones, SDP and SCP; 0-3 arguments x payload lengths "
                "0..16 x random headers; raw datagrams of length 14..30 decoded with n_args 0..3; payloads of 255..273, "
                "1024, 1472 and 65497 bytes; decoded packets encoded again, unchanged and after assignments; "
                "constructors called positionally / with optional parameters left out; "
                "2-5 packets alive "
                "at once with results read after all calls; enum commands; n_args by keyword, position and default; "
                "distinct = distinct constructor arguments / datagram bytes")
    chk.exhaustive = False
    chk.sample(evs[0]); chk.sample(evs[len(evs) // 2]); chk.sample(evs[-1])

    def key_of(tr, i, clauses):
        e = tr["ev"][i - 1]
        return "%s %s" % (e[0], ",".join(clauses))

    chk.validate("PacketsTrace", "PacketsTrace.cfg", traces, key_of=key_of, batch=3000)


def selftest(chk):
    p = SCPPacket(True, 0xff, 1, 2, 7, 31, 3, 4, 0, 0, 0x1234, 0x5678, 1, 2, None, b"xyz")
    b = list(p.bytestring)
    r = rec_of(p, True)
    q = rec_of(SCPPacket.from_bytestring(bytes(b), 2), True)
    def mod(d, **kw):
        d = dict(d); d.update(kw); return d
    swapped = list(b); swapped[6], swapped[7] = swapped[7], swapped[6]
    cases = [
        (dict(ev=[["scp_enc", r, b], ["scp_dec", b, 2, q]]), None),
        (dict(ev=[["scp_enc", r, swapped]]), "WireLayout"),
        (dict(ev=[["scp_enc", r, b[:-1]]]), "WireLayout"),
        (dict(ev=[["scp_dec", b, 2, mod(q, sport=1)]]), "DecodeFields"),
        (dict(ev=[["scp_dec", b, 2, mod(q, args=[q["args"][0], [], []])]]), "DecodeArgs"),
        (dict(ev=[["scp_dec", b, 2, mod(q, data=q["data"][1:])]]), "DecodePayload"),
        (dict(ev=[["new", dict(tag=0xff, sx=0, data=list(b"xyz")), r]]), None),
        (dict(ev=[["new", dict(tag=0xff, sx=1, data=list(b"xyz")), r]]), "HoldsWhatWasGiven"),
        (dict(ev=[["new", dict(tag=0xff, data=[]), r]]), "HoldsWhatWasGiven"),
        (dict(ev=[["raised", "bytestring", "TypeError"]]), "CompletesWithoutError"),
    ]
    rej = chk.validate("PacketsTrace", "PacketsTrace.cfg", [c[0] for c in cases])
    got = {id(t): cl for t, _, cl in rej}
    msgs = []
    for tr, want in cases:
        cl = got.get(id(tr))
        if (want is None) != (cl is None) or (want and want not in cl):
            msgs.append("expected %s, got %s" % (want, cl))
    return not msgs, "; ".join(msgs) or "%d corrupted traces rejected with the expected clauses" % (len(cases) - 2)
