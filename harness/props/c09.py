"""C09 - application loading returns only when every requested core is loaded.

D: LoadAppDesign.tla - the retry loop (count / per-core verification) against flood-fill receivers on 2 chips x 2
   cores, every assignment of cores to 1-2 binaries of 1-2 blocks, every miss set per fill, n_tries 0..2, cores
   already waiting from earlier loads; two variants that leave the property's domain must fail.
T: the real MachineController.load_application against the simulated machine with binaries in temporary files and a
   per-fill schedule of chips that silently miss the fill.  Every command the machine executed during the call, the
   machine's state before and after, and the outcome are one trace, judged by LoadAppTrace.tla, which keeps its own
   model of the receivers and of the cores (so the simulator is validated in the same pass).

This module contains no oracle: it drives rig, copies what the simulator logged into events and mechanically
encodes arguments, addresses and exceptions.
"""
import collections
import copy
import itertools
import os
import random
import struct

import pkg_resources

from rig.machine_control import scp_connection, machine_controller
from rig.machine_control.machine_controller import MachineController

from ..core import MachineryError
from ..env.spinnaker_sim import SimMachine, STATE_IDLE
from ..env.simnet import SimNet

STRUCT_TEXT = pkg_resources.resource_string("rig", "boot/sark.struct").decode()
_SIMS = {}


# ---------------------------------------------------------------------------------------------- environment
class AppMaskMachine(SimMachine):
    """Signals and core counts reach the cores whose application id equals the packet's under the packet's
    application mask (bits 15:8 of arg2), as on the real machine.  spinnaker_sim applies them to the packet's
    application id alone - right as long as the mask is 0xff or no other application is loaded; here other
    applications' cores may be waiting at their barrier while the call runs.  A packet with another mask is executed
    as one packet with the full mask for every application id present that it matches."""

    def _cmd_22(self, chip, p, a, data, rec):
        app, mask = a[1] & 0xff, (a[1] >> 8) & 0xff
        if mask == 0xff:
            return SimMachine._cmd_22(self, chip, p, a, data, rec)
        present = {c.core_app[i] for c in self.chips.values() for i in range(1, c.ncores)} | {app}
        total, res = 0, None
        for ap in sorted(present):
            if (ap & mask) == (app & mask):
                res = SimMachine._cmd_22(self, chip, p, (a[0], (a[1] & ~0xffff) | 0xff00 | ap) + tuple(a[2:]), data, rec)
                total += rec.get("count", 0)
        if "count" in rec:
            rec["count"] = total
            return (total,), res[1]
        return res


def get_sim(w, h):
    """one simulated machine per shape, returned to its power-on core state before every scenario"""
    sim = _SIMS.get((w, h))
    if sim is None:
        sim = _SIMS[(w, h)] = AppMaskMachine(w, h, STRUCT_TEXT)
    return sim


def reset_sim(sim, buf, ncores):
    sim.buffer_size = buf
    sim.log = []
    sim.miss = lambda chip, pid: False
    sim.fill_pid = None
    for xy, c in sim.chips.items():
        c.ncores = ncores.get(xy, 18) if isinstance(ncores, dict) else ncores
        c.write(sim.sv_addr("num_cpus"), bytes([c.ncores]))
        c.ff = None
        for p in range(1, 18):
            c.core_state[p], c.core_app[p], c.core_image[p] = STATE_IDLE, 0, None
            sim._sync_core(c, p)


def snapshot(sim):
    """application cores that are not in the power-on condition: [x, y, p, state, app, [] | [image bytes]]"""
    out = []
    for (x, y) in sorted(sim.chips):
        c = sim.chips[(x, y)]
        for p in range(1, 18):
            if c.core_state[p] != STATE_IDLE or c.core_app[p] != 0 or c.core_image[p] is not None:
                img = c.core_image[p]
                out.append([x, y, p, c.core_state[p], c.core_app[p], [] if img is None else [list(bytearray(img))]])
    return out


def halves(a):
    return [(a >> 16) & 0xffff, a & 0xffff]


def events_of(sim, records):
    """mechanical copy of the simulator's command log into trace events"""
    evs = []
    for rec in records:
        ff = rec.get("ff")
        x, y = rec["x"], rec["y"]
        if ff is not None and ff[0] == "start":
            evs.append(["start", ff[1], ff[2]])
        elif ff is not None and ff[0] == "select":
            r = ff[1]
            evs.append(["select", [(r >> 24) & 255, (r >> 16) & 255, (r >> 8) & 255, r & 255], ff[2]])
        elif ff is not None and ff[0] == "data":
            evs.append(["data", ff[1], ff[2], ff[3], halves(ff[4]), len(rec["data"]), list(bytearray(rec["data"]))])
        elif ff is not None and ff[0] == "end":
            evs.append(["end", ff[1], ff[2], ff[3], [list(c) for c in rec.get("loaded", [])]])
        elif "count" in rec:
            evs.append(["count", (rec["arg2"] >> 16) & 0xf, rec["arg2"] & 0xff, rec["reply_args"][0],
                        (rec["arg2"] >> 8) & 0xff])
        elif "signal" in rec:
            evs.append(["signal", rec["signal"], rec["arg2"] & 0xff, (rec["arg2"] >> 8) & 0xff])
        elif rec["cmd"] == 2 and rec.get("rc") == 0x80 and rec["arg2"] == 1 and (x, y) in sim.chips:
            chip = sim.chips[(x, y)]
            ps = [p for p in range(18) if sim.vcpu_addr(chip, p, "cpu_state") == rec["arg1"]]
            if ps:
                evs.append(["read", x, y, ps[0], bytearray(rec["reply_data"])[0]])
            else:
                evs.append(["aux", 2, x, y])
        else:
            evs.append(["aux", rec["cmd"], x, y])
    return evs


class Workdir(object):
    """binaries live in files under the check's scratch directory; equal contents share a file only by name"""

    def __init__(self, chk):
        self.dir = os.path.join(chk.tmp, "aplx")
        os.makedirs(self.dir, exist_ok=True)
        self.n = 0

    def write(self, data, tag, reuse=False):
        """reuse: the same path every time (a user rebuilding a binary in place between two loads)"""
        self.n += 1
        path = os.path.join(self.dir, "%s-%s.aplx" % (tag, "rebuilt-in-place" if reuse else self.n))
        with open(path, "wb") as f:
            f.write(bytes(bytearray(data)))
        return path


# ---------------------------------------------------------------------------------------------- one scenario
def shaped_args(names, sc):
    """the positional arguments of the call in one of the documented shapes: (file name, targets) or one application
    map; the maps plain dictionaries, ordered dictionaries, or what rig.place_and_route.utils.build_application_map
    returns (a defaultdict of defaultdicts of sets); the cores of a chip a set or a frozenset"""
    shape = sc.get("shape", "dict")
    cores = frozenset if shape == "frozen" else set
    tgs = [[(xy, cores(ps)) for xy, ps in tg.items()] for _, tg in sc["bins"]]
    if shape == "appmap":
        amap = collections.defaultdict(lambda: collections.defaultdict(set))
        for name, tg in zip(names, tgs):
            amap[name]
            for xy, ps in tg:
                amap[name][xy].update(ps)
    elif shape == "ordered":
        amap = collections.OrderedDict((name, collections.OrderedDict(tg)) for name, tg in zip(names, tgs))
    else:
        amap = {name: dict(tg) for name, tg in zip(names, tgs)}
    if sc["style"] == "two":
        return (names[0], amap[names[0]])
    return (amap,)


def one_call(sim, mc, wd, sc):
    """one call of load_application, recorded: the machine's state before, every command it executed, its state
    after, the outcome.  Returns the trace and the number of fills the call started."""
    names = [wd.write(data, "bin%d" % (i + 1), sc.get("reuse", False)) for i, (data, _) in enumerate(sc["bins"])]
    init = snapshot(sim)
    base = struct.unpack("<I", sim.chips[sim.root].read(sim.sv_addr("sdram_sys"), 4))[0]
    logpos = len(sim.log)
    schedule = [set(map(tuple, s)) for s in sc["miss"]]
    seen = {"rec": None, "n": 0}

    def miss(chip, pid):
        if sim.log[-1] is not seen["rec"]:          # a new start packet
            seen["rec"] = sim.log[-1]
            seen["n"] += 1
        k = seen["n"]
        return k <= len(schedule) and tuple(chip) in schedule[k - 1]
    sim.miss = miss
    args = shaped_args(names, sc)
    try:
        how = sc.get("how", "kw")
        if how == "kw":
            mc.load_application(*args, app_id=sc["app"], wait=bool(sc["wait"]), n_tries=sc["ntries"],
                                use_count=bool(sc["usecount"]))
        elif how == "dflt":
            # arguments left out where the documented default is what the scenario wants: wait (default: do not
            # wait, i.e. start the cores) and use_count (default True)
            kw = dict(app_id=sc["app"], n_tries=sc["ntries"])
            if sc["wait"]:
                kw["wait"] = True
            if not sc["usecount"]:
                kw["use_count"] = False
            mc.load_application(*args, **kw)
        elif how == "over":
            # ... and what the call says wins over what the enclosing blocks say
            with mc(app_id=sc["app"] ^ 3, n_tries=sc["ntries"] + 1, wait=not sc["wait"]):
                mc.load_application(*args, app_id=sc["app"], wait=bool(sc["wait"]), n_tries=sc["ntries"],
                                    use_count=bool(sc["usecount"]))
        else:
            # the application id, whether to wait and the number of tries are contextual arguments: they may come
            # from enclosing blocks instead of the call
            with mc(app_id=sc["app"], n_tries=sc["ntries"]):
                with mc(wait=bool(sc["wait"])):
                    mc.load_application(*args, use_count=bool(sc["usecount"]))
        outcome = ["return"]
    except machine_controller.SpiNNakerLoadingError as ex:
        ents = []
        for fname, targets in ex.app_map.items():
            b = names.index(fname) + 1 if fname in names else 0
            for (x, y), ps in targets.items():
                ents.append([b, x, y, sorted(ps)])
        outcome = ["raise", type(ex).__name__, ents]
    except Exception as ex:          # judged by the specification (OnlyLoadingError)
        outcome = ["raise", type(ex).__name__, []]
    finally:
        sim.miss = lambda chip, pid: False
    evs = events_of(sim, sim.log[logpos:])
    evs.append(["final", snapshot(sim)])
    evs.append(outcome)
    tr = dict(chips=[[x, y, sim.chips[(x, y)].ncores] for (x, y) in sorted(sim.chips)],
              buf=sim.buffer_size, base=halves(base), app=sc["app"], wait=int(bool(sc["wait"])), ntries=sc["ntries"],
              usecount=int(bool(sc["usecount"])),
              bins=[dict(data=list(bytearray(data)), tg=[[x, y, sorted(ps)] for (x, y), ps in sorted(tg.items())])
                    for data, tg in sc["bins"]],
              miss=[[list(c) for c in sorted(s)] for s in sc["miss"]], init=init, ev=evs,
              label=sc.get("label", ""), style=sc["style"], nn_id=sc.get("nn_id", 0), how=sc.get("how", "kw"),
              shape=sc.get("shape", "dict"))
    return tr, seen["n"]


def run_scenario(wd, sc):
    """sc: dict(w, h, ncores, buf, app, wait, ntries, usecount, style, bins=[(bytes, {(x, y): set})], miss=[[chip..]..],
    pre=[(bytes, targets)], nn_id).  Returns the trace of the call, the number of fills it started, and the traces
    of the earlier loads (each a recorded call of its own: nobody misses, per-core verification, left waiting)."""
    sim = get_sim(sc["w"], sc["h"])
    reset_sim(sim, sc["buf"], sc.get("ncores", 18))
    net = SimNet(sim)
    net.install(scp_connection, machine_controller)
    try:
        mc = MachineController("sim")
        earlier = []
        for pre in sc.get("pre", ()):
            data, targets = pre[0], pre[1]
            # (a third member: the earlier load was of ANOTHER application, whose cores wait at its barrier)
            t, _ = one_call(sim, mc, wd, dict(app=pre[2] if len(pre) > 2 else sc["app"], wait=1, ntries=2, usecount=0,
                                              style="two", bins=[(data, targets)], miss=[], label="earlier load",
                                              reuse=sc.get("reuse", False)))
            earlier.append(t)
        if "nn_id" in sc:
            mc._nn_id = sc["nn_id"]                 # a controller that has already done this many fills
        tr, used = one_call(sim, mc, wd, sc)
    finally:
        net.uninstall()
    return tr, used, earlier


def explore_schedules(wd, sc, chips, max_fills, sink):
    """every effective per-fill miss schedule: extend the schedule by every subset of `chips` for as long as the call
    starts a further fill (a schedule entry the call never reaches would not change anything)"""
    subsets = [list(s) for k in range(len(chips) + 1) for s in itertools.combinations(chips, k)]

    first = []

    def rec(prefix):
        tr, used, earlier = run_scenario(wd, dict(sc, miss=prefix))
        for t in earlier:                       # the same at every node: keep one copy, and any that did not return
            if not first or t["ev"][-1][0] != "return":
                sink(t)
        first.append(1)
        if used <= len(prefix) or len(prefix) >= max_fills:
            sink(tr)
            return
        for s in subsets:
            rec(prefix + [s])
    rec([])


# ---------------------------------------------------------------------------------------------- inputs
def make_binary(rng, buf, k=None, d=None):
    """whole words, around a multiple of the buffer size"""
    k = rng.randint(1, 3) if k is None else k
    d = rng.choice((-4, 0, 4, 0, 8, -8)) if d is None else d
    n = max(4, k * buf + d)
    n -= n % 4
    return bytes(bytearray(rng.randrange(256) for _ in range(n)))


def small_scope(chk, rng, wd, sink):
    """exhaustive in the miss schedule: <= 3 chips, <= 3 attempts"""
    # one binary on three chips, n_tries 0..2 (1..3 attempts), both verification modes, both wait modes
    data = make_binary(rng, 16, 2, 4)
    tg3 = {(0, 0): {1, 2}, (1, 0): {3}, (2, 0): {17}}
    modes = [(u, w) for u in (1, 0) for w in (0, 1)]
    n = 0
    for ntries in (0, 1, 2):
        for (u, w) in (modes if (ntries < 2 or not chk.quick) else modes[:1] + modes[3:]):
            sc = dict(w=3, h=1, buf=16, app=30, wait=w, ntries=ntries, usecount=u, style="two" if n % 2 else "map",
                      bins=[(data, tg3)], nn_id=124 + (n % 3), label="small one binary")
            n += 1
            explore_schedules(wd, sc, [(0, 0), (1, 0), (2, 0)], ntries + 1, sink)
    # two binaries on two chips, n_tries 0..1 (quick) / 0..2 (thorough)
    d1, d2 = make_binary(rng, 16, 1, 0), make_binary(rng, 16, 1, 4)
    for ntries in chk.pick((0, 1), (0, 1, 2)):
        for (u, w) in modes:
            sc = dict(w=2, h=1, buf=16, app=66, wait=w, ntries=ntries, usecount=u, style="map",
                      bins=[(d1, {(0, 0): {1}, (1, 0): {1}}), (d2, {(0, 0): {2}, (1, 0): {2, 3}})],
                      nn_id=0, label="small two binaries")
            explore_schedules(wd, sc, [(0, 0), (1, 0)], 2 * (ntries + 1), sink)
    # cores already waiting from an earlier load of the same application id: a requested core holding the binary
    # requested for it (reload after a partial failure) and - per-core verification only - a core outside the request
    other = make_binary(rng, 16, 1, 0)
    for ntries in (0, 1):
        for (u, w) in modes:
            pre = [(data, {(1, 0): {3}})]
            if not u:
                pre.append((other, {(1, 0): {5}, (0, 0): {4}}))
            sc = dict(w=2, h=1, buf=16, app=30, wait=w, ntries=ntries, usecount=u, style="two",
                      bins=[(data, {(0, 0): {1, 2}, (1, 0): {3, 4}})], pre=pre, nn_id=0,
                      label="small with earlier loads", reuse=bool(ntries))
            explore_schedules(wd, sc, [(0, 0), (1, 0)], ntries + 1, sink)


def other_app_scope(chk, rng, wd, sink):
    """exhaustive in the miss schedule: 2 chips, 1..2 attempts, cores of another application waiting"""
    modes = [(u, w) for u in (1, 0) for w in (0, 1)]
    data, other, d1 = make_binary(rng, 16, 2, 4), make_binary(rng, 16, 1, 0), make_binary(rng, 16, 1, 4)
    # cores of ANOTHER application waiting at its barrier (earlier loads under another application id; the ids differ
    # from the requested one in a low bit, a high bit, or everywhere): the count must not see them, the start signal
    # must not start them, whichever chips miss - as many of them on a chip as requested cores there, so that a count
    # that saw them would come out right exactly when that chip misses
    for k, (app, oapp) in enumerate(((30, 31), (66, 194), (16, 239))):
        for (u, w) in modes:
            sc = dict(w=2, h=1, buf=16, app=app, wait=w, ntries=k % 2, usecount=u, style="two" if k == 1 else "map",
                      bins=[(data, {(0, 0): {1, 2}, (1, 0): {3}})],
                      pre=[(other, {(1, 0): {5}}, oapp), (d1, {(0, 0): {6, 7}}, oapp)], nn_id=0,
                      how=("kw", "ctx", "dflt")[(k + u + w) % 3], shape=("dict", "appmap", "frozen")[k],
                      label="small with another application waiting")
            explore_schedules(wd, sc, [(0, 0), (1, 0)], k % 2 + 1, sink)


SHAPES = [(1, 1), (2, 1), (2, 2), (3, 1), (3, 2), (4, 4), (5, 4)]


def random_scenario(rng):
    w, h = rng.choice(SHAPES)
    chips = [(x, y) for x in range(w) for y in range(h)]
    ncores = {xy: rng.choice((18, 18, 17, 5, 3)) for xy in chips}
    buf = rng.choice((16, 16, 32, 64, 128, 256, 512))
    nb = rng.choice((1, 1, 2, 2, 3))
    usecount = rng.random() < 0.5
    # all application cores of the machine, dealt to the binaries / to earlier loads / left alone
    cores = [(xy, p) for xy in chips for p in range(1, ncores[xy])]
    rng.shuffle(cores)
    dense = rng.random() < 0.3                       # whole blocks of chips with the same cores: coarse regions
    bins = []
    taken = set()
    for b in range(nb):
        data = make_binary(rng, buf) if not (b and rng.random() < 0.1) else bins[0][0]     # sometimes equal contents
        tg = {}
        if dense and b == 0:
            ps = set(rng.sample(range(1, 3), rng.randint(1, 2)))
            for xy in chips:
                if rng.random() < 0.95:
                    tg[xy] = set(ps)
        else:
            for (xy, p) in cores[:rng.randint(0 if rng.random() < 0.05 else 1, min(len(cores), 12))]:
                tg.setdefault(xy, set()).add(p)
        tg = {xy: {p for p in ps if (xy, p) not in taken} for xy, ps in tg.items()}
        tg = {xy: ps for xy, ps in tg.items() if ps or rng.random() < 0.02}      # rarely: a chip with no cores
        taken.update((xy, p) for xy, ps in tg.items() for p in ps)
        rng.shuffle(cores)
        bins.append((data, tg))
    pre = []
    r = rng.random()
    if r < 0.25:            # reload: some requested cores already hold their binary (earlier partial load)
        for data, tg in bins:
            sub = {xy: set(p for p in ps if rng.random() < 0.5) for xy, ps in tg.items()}
            sub = {xy: ps for xy, ps in sub.items() if ps}
            if sub:
                pre.append((data, sub))
    if not usecount and rng.random() < 0.4:          # another binary of the same application, loaded earlier
        free = [(xy, p) for (xy, p) in cores if (xy, p) not in taken]
        sub = {}
        for (xy, p) in free[:rng.randint(1, 4)]:
            sub.setdefault(xy, set()).add(p)
        if sub:
            pre.append((make_binary(rng, buf) if rng.random() < 0.7 else bins[0][0], sub))
    # count mode with MORE foreign waiting cores than requested cores: the count can then never equal the number
    # requested, so the documented shortcut cannot be fooled and the per-core check must decide (the coincidence
    # "foreign + loaded = requested" is the documented precondition of use_count and stays outside the domain)
    nreq = sum(len(ps) for _, tg in bins for ps in tg.values())
    if usecount and not pre and rng.random() < 0.4:
        free = [(xy, p) for (xy, p) in cores if (xy, p) not in taken]
        if len(free) > nreq:
            sub = {}
            for (xy, p) in free[:nreq + rng.randint(1, 3)]:
                sub.setdefault(xy, set()).add(p)
            pre.append((make_binary(rng, buf), sub))
    app = rng.choice((16, 30, 66, 255))
    # cores of another application (any other id: one bit away, or unrelated) waiting at its barrier, in either
    # verification mode: they are neither counted nor started with the requested application
    if rng.random() < 0.3:
        held = taken | {(xy, p) for pr in pre for xy, ps in pr[1].items() for p in ps}
        free = [(xy, p) for (xy, p) in cores if (xy, p) not in held]
        oapp = rng.choice((app ^ 1, app ^ 0x80, app ^ 0x10, rng.choice([a for a in range(1, 256) if a != app])))
        sub = {}
        for (xy, p) in free[:rng.randint(1, 4)]:
            sub.setdefault(xy, set()).add(p)
        if sub and oapp:
            pre.append((make_binary(rng, buf), sub, oapp))
    ntries = rng.choice((0, 1, 2, 2, 3, 5))
    pm = rng.choice((0.0, 0.15, 0.4, 0.7, 1.0))
    miss = [[xy for xy in chips if rng.random() < pm] for _ in range((ntries + 1) * nb)]
    return dict(w=w, h=h, ncores=ncores, buf=buf, app=app, wait=rng.random() < 0.5,
                ntries=ntries, usecount=usecount, style="two" if nb == 1 and rng.random() < 0.5 else "map",
                bins=bins, miss=miss, pre=pre, nn_id=rng.choice((0, 0, 1, 60, 124, 125, 126)), label="random",
                reuse=rng.random() < 0.3,       # the binaries' files are rewritten in place between the loads
                how=rng.choice(("kw", "kw", "ctx", "dflt", "over")),
                shape=rng.choice(("dict", "dict", "ordered", "appmap", "frozen")))


def big_scenario(rng, k):
    """the far ends of the binary's size: one word; images of many blocks, up to the 32 KiB of a core's instruction
    memory in 128 blocks of 256 bytes (block numbers and the announced count well beyond the few blocks of the
    other families), a block more or less, a word more or less"""
    w, h = rng.choice(((1, 1), (2, 1), (2, 2)))
    chips = [(x, y) for x in range(w) for y in range(h)]
    if k == 0:
        buf, data = rng.choice((16, 256)), bytes(bytearray(rng.randrange(256) for _ in range(4)))
    elif k == 1:
        buf = 256
        data = make_binary(rng, buf, 128, rng.choice((0, 0, -4)))
    else:
        buf = rng.choice((16, 16, 32, 64, 128))
        nblk = rng.choice((15, 16, 17, 63, 64, 65, 100, 127, 128, 129, 200, 255))
        # (255 blocks is the most the start packet's 8-bit count can announce: no word more there)
        data = make_binary(rng, buf, nblk, rng.choice((-4, 0) if nblk == 255 else (-4, 0, 4)))
    tg = {xy: set(rng.sample(range(1, 18), rng.randint(1, 3))) for xy in chips if rng.random() < 0.8 or xy == (0, 0)}
    bins = [(data, tg)]
    if rng.random() < 0.4:
        bins.append((make_binary(rng, buf, rng.choice((1, 2, 40))),
                     {xy: {p for p in range(1, 18) if p not in tg.get(xy, ())} & set(rng.sample(range(1, 18), 4))
                      for xy in chips[:2]}))
    ntries = rng.choice((0, 1, 1))
    pm = rng.choice((0.0, 0.3))
    return dict(w=w, h=h, ncores=18, buf=buf, app=rng.choice((16, 66)), wait=rng.random() < 0.5, ntries=ntries,
                usecount=rng.random() < 0.5, style="map" if len(bins) > 1 or rng.random() < 0.5 else "two", bins=bins,
                miss=[[xy for xy in chips if rng.random() < pm] for _ in range((ntries + 1) * len(bins))],
                pre=[], nn_id=rng.choice((0, 126)), label="binary of one word / of many blocks",
                how=rng.choice(("kw", "ctx", "dflt")), shape=rng.choice(("dict", "appmap")))


def wide_scenario(rng):
    """a machine more than 16 chips across, a core requested on every chip of an aligned 4 x 4 block (so that the
    selection collapses into one coarser region) and on single chips on both sides of it"""
    w, h = rng.choice(((20, 4), (24, 4), (4, 20), (21, 5)))
    chips = [(x, y) for x in range(w) for y in range(h)]
    # (mostly beyond the first 16 x 16 area, so that the coarse region's word is numerically above the fine ones)
    if w >= h:
        bx, by = rng.choice([x for x in range(4, w - 3, 4)] + [16, 16, 16]), 0
    else:
        bx, by = 0, rng.choice([y for y in range(4, h - 3, 4)] + [16, 16, 16])
    core = rng.randint(1, 5)
    tg = {(bx + dx, by + dy): {core} for dx in range(4) for dy in range(4)}
    for xy in rng.sample([c for c in chips if c not in tg], rng.randint(1, 4)):
        tg[xy] = {core} if rng.random() < 0.7 else {core, core + 1}
    buf = rng.choice((64, 256))
    bins = [(make_binary(rng, buf, 1), tg)]
    if rng.random() < 0.5:
        bins.append((make_binary(rng, buf, 1), {xy: {core + 7} for xy in rng.sample(chips, 3)}))
    ntries = rng.choice((0, 1, 2))
    pm = rng.choice((0.0, 0.0, 0.1))
    return dict(w=w, h=h, ncores=18, buf=buf, app=rng.choice((16, 30)), wait=rng.random() < 0.5, ntries=ntries,
                usecount=rng.random() < 0.5, style="map", bins=bins,
                miss=[[xy for xy in chips if rng.random() < pm] for _ in range((ntries + 1) * len(bins))],
                pre=[], nn_id=rng.choice((0, 7)), label="wide machine, coarse and fine regions", how=rng.choice(("kw", "ctx")))


def huge_scenario(rng, k):
    """a machine 32 x 16: a core requested on every chip of a whole aligned 16 x 16 area (one region of the second
    coarsest level), on two whole 4 x 4 blocks of the other 16 x 16 area (one region word with two blocks selected) and
    on single chips - region words of three levels in one fill, on a machine where they select different chips"""
    w, h = 32, 16
    chips = [(x, y) for x in range(w) for y in range(h)]
    ax = 16 * k if k < 2 else rng.choice((0, 16))        # the full area; the other one holds blocks and singles
    ox = 16 - ax
    core = rng.randint(1, 5)
    tg = {(ax + dx, dy): {core} for dx in range(16) for dy in range(16)}
    for (bx, by) in rng.sample([(i, j) for i in range(0, 16, 4) for j in range(0, 16, 4)], 2):
        for dx in range(4):
            for dy in range(4):
                tg[(ox + bx + dx, by + dy)] = {core}
    for xy in rng.sample([c for c in chips if c not in tg], 3):
        tg[xy] = {core, core + 2}
    extra = rng.sample(sorted(tg), 2)
    for xy in extra:
        tg[xy] = tg[xy] | {core + 1}
    bins = [(make_binary(rng, 64, 1), tg)]
    ntries = rng.choice((0, 1))
    miss = [[xy for xy in chips if rng.random() < 0.02] for _ in range(ntries + 1)]
    return dict(w=w, h=h, ncores=18, buf=64, app=rng.choice((16, 30)), wait=rng.random() < 0.5, ntries=ntries,
                usecount=k % 2, style="map", bins=bins, miss=miss, pre=[], nn_id=3,
                label="32 x 16 machine, regions of three levels", how="kw", shape="appmap")


def describe(tr):
    return "app=%d wait=%d ntries=%d usecount=%d chips=%s bins=%s miss=%s init=%s" % (
        tr["app"], tr["wait"], tr["ntries"], tr["usecount"], tr["chips"],
        [(len(b["data"]), b["tg"]) for b in tr["bins"]], tr["miss"], [c[:5] for c in tr["init"]])


def key_of(tr, i, clauses):
    return "%s %s %s" % (tr["ev"][i - 1][0], ",".join(clauses), describe(tr))


def note(chk, tr):
    targeted = {(t[0], t[1]) for b in tr["bins"] for t in b["tg"]}
    nfills = sum(1 for e in tr["ev"] if e[0] == "start")
    hit = any((m[0], m[1]) in targeted for s in tr["miss"][:nfills] for m in s)
    chk.note_case((tr["chips"], tr["buf"], tr["app"], tr["wait"], tr["ntries"], tr["usecount"], tr["bins"],
                   tr["miss"][:nfills], tr["init"], tr["style"]), nontrivial=hit or bool(tr["init"]))
    chk.count("calls that %s" % ("returned" if tr["ev"][-1][0] == "return" else "raised " + tr["ev"][-1][1]))
    chk.count("fills started", nfills)
    if tr["usecount"]:
        chk.count("calls verified by core count")
    if tr["init"]:
        chk.count("calls with cores already waiting")


# ---------------------------------------------------------------------------------------------- the check
def design_jobs(chk):
    acts = ("BeginAttempt", "RaiseError", "Finish", "FFStart", "FFSelect", "FFData", "FFEnd", "VerifyByCount",
            "VerifyPerCore")
    if chk.quick:
        chk.design("LoadAppDesign", "LoadAppDesign_quick.cfg", expect_actions=acts,
                   label="1 binary of 1-2 blocks, up to 4 cores already waiting, n_tries 0..2, termination")
        chk.design("LoadAppDesign", "LoadAppDesign_quick2.cfg", expect_actions=acts,
                   label="2 binaries, at most one core already waiting, n_tries 0..2")
    else:
        chk.design("LoadAppDesign", "LoadAppDesign_quick.cfg", expect_actions=acts, label="1 binary, termination")
        chk.design("LoadAppDesign", "LoadAppDesign_thorough.cfg", expect_actions=acts, timeout=3600,
                   label="2 binaries of 1-2 blocks, up to 2 cores already waiting, n_tries 0..2")
    # outside the domain the property must fail in the model: (a) count mode with a foreign core of the same
    # application id already waiting (the documented precondition of use_count); (b) a requested core that already
    # waits holding another binary (the per-core check reads only the state)
    for cfg, why in (("LoadAppDesign_foreigncount.cfg", "use_count with a waiting core outside the request"),
                     ("LoadAppDesign_overwrite.cfg", "requested core already waiting with another binary")):
        r = chk.design("LoadAppDesign", cfg, allow_error=True, label="expected to violate ReturnedMeansAllLoaded: " + why)
        if r.ok or "Invariant ReturnedMeansAllLoaded is violated" not in (r.error or ""):
            raise MachineryError("design job LoadAppDesign/%s does not violate ReturnedMeansAllLoaded (%s)" %
                                 (cfg, (r.error or "no error")[:200]))
        chk.jobs[-1].update(expected_violation="ReturnedMeansAllLoaded",
                            error="Invariant ReturnedMeansAllLoaded is violated (as it must be)")
        chk.count("out-of-domain design variants rejected by ReturnedMeansAllLoaded")


def run(chk):
    rng = random.Random(chk.seed)
    design_jobs(chk)
    wd = Workdir(chk)
    traces = []
    small_scope(chk, rng, wd, traces.append)
    other_app_scope(chk, random.Random(chk.seed + 707), wd, traces.append)
    nsmall = len(traces)
    for _ in range(chk.pick(500, 8000)):
        tr, _n, earlier = run_scenario(wd, random_scenario(rng))
        traces.extend(earlier)
        traces.append(tr)
    for _ in range(chk.pick(8, 120)):
        tr, _n, earlier = run_scenario(wd, wide_scenario(rng))
        traces.append(tr)
    rng2 = random.Random(chk.seed + 909)         # (the earlier families keep the inputs they had)
    for k in range(chk.pick(7, 80)):
        tr, _n, earlier = run_scenario(wd, big_scenario(rng2, k))
        traces.append(tr)
    for k in range(chk.pick(2, 12)):
        tr, _n, earlier = run_scenario(wd, huge_scenario(rng2, k))
        traces.append(tr)
    # the empty application map: nothing to load, nothing may be loaded
    for wait in (0, 1):
        tr, _n, earlier = run_scenario(wd, dict(w=2, h=1, buf=16, app=30, wait=wait, ntries=1, usecount=1 - wait,
                                                style="map", bins=[], miss=[], nn_id=0, label="empty application map"))
        traces.append(tr)
    for tr in traces:
        note(chk, tr)
    chk.rule = ("real load_application (two-argument and application-map call styles; use_count on/off; wait on/off; "
                "n_tries 0..3; fill counter started at 0/1/60/124..126) against the simulated machine: (1) every effective "
                "per-fill schedule of missing chips for one binary on 3 chips with 1..3 attempts, two binaries on 2 chips, "
                "and 2 chips with cores already waiting from earlier loads; (2) random machines of 1..20 chips with 3..18 "
                "cores, buffers of 16..512 bytes, 1..3 binaries of whole words around multiples of the buffer size "
                "(sometimes with equal contents), sparse and block-dense targets, random miss schedules, earlier loads "
                "of the same application id and of OTHER application ids (their cores wait at their barrier: neither "
                "counted nor started with the requested application - count and signal packets are executed under their "
                "application mask), arguments left to their documented defaults (wait, use_count) or overriding an "
                "enclosing context block, application maps as dict / OrderedDict / build_application_map's defaultdicts, "
                "core sets as set / frozenset; (3) binaries of one word and of 15..255 blocks (up to 32 KiB in 128 "
                "blocks of 256 bytes); a 32 x 16 machine with region words of three levels in one fill; the empty "
                "map; non-trivial = some targeted chip misses a fill that was sent, or cores "
                "were already waiting; distinct = distinct (machine, arguments, binaries, effective schedule, earlier state)")
    chk.exhaustive = False          # the random tail is not; the small-scope part is (see small_scope_domain)
    chk.extra["small_scope_exhaustive"] = True
    chk.extra["small_scope_traces"] = nsmall
    chk.extra["small_scope_domain"] = ("all effective miss schedules (every subset of chips per fill, for as many fills as the "
                                 "call starts): 1 binary/3 chips/n_tries 0..2; 2 binaries/2 chips/n_tries %s; "
                                 "2 chips with earlier loads/n_tries 0..1; 2 chips with 3 cores of another application "
                                 "waiting (ids one low bit / one high bit / all bits apart)/n_tries 0..1; crossed with "
                                 "use_count and wait%s"
                                 % (chk.pick("0..1", "0..2"), chk.pick(" (n_tries=2 of the first family: two of the four "
                                                                       "mode combinations)", "")))
    chk.assumptions += [
        "APLX images are a whole number of words and not empty (binaries are generated as such)",
        "targets of different binaries are disjoint application cores (1..ncores-1) of live chips",
        "a requested core is idle before the call, or already waits under the application id holding the binary now "
        "requested for it; a requested core waiting with another binary is outside the domain (load_application's "
        "per-core check reads only cpu_state) - LoadAppDesign_overwrite.cfg shows the property fails there",
        "use_count=True with cores outside the request already waiting under the application id is exercised only "
        "when there are MORE such cores than requested ones (the count shortcut then cannot fire and the per-core "
        "check decides); the coincidence 'foreign + loaded = requested' violates the documented precondition of "
        "use_count ('the targets dictionary will be assumed to represent all the cores that will be loaded') and "
        "stays outside the domain - LoadAppDesign_foreigncount.cfg shows the property fails there",
        "a count or signal packet addresses the cores whose application id equals the packet's in the bits set in "
        "the packet's application mask (arg2 bits 15:8), as SC&MP does; c09.AppMaskMachine and LoadAppTrace both follow "
        "this (spinnaker_sim alone treats every mask as 0xff)",
        "images have at most 255 blocks (the start packet announces the count in 8 bits; load_application does not "
        "guard against more - with the standard 256-byte buffer that is 65 280 bytes, above a core's 32 KiB of ITCM)",
        "AttemptsBounded takes n_tries as the number of re-tries (at most n_tries + 1 attempts, as coded); the "
        "docstring's 'number of attempts' would be n_tries",
        "the simulator's flood-fill, count, signal and state-read effects are validated against LoadApp.tla in every trace",
    ]
    chk.sample(traces[0]); chk.sample(traces[nsmall - 1]); chk.sample(traces[-1])
    chk.validate("LoadAppTrace", "LoadAppTrace.cfg", traces, key_of=key_of, batch=1500)
    # job R: behaviours of LoadAppDesign chosen by TLC's simulator, replayed through the real loader
    from . import c09_replay
    c09_replay.run_replay(chk)
    from . import lifecycle; lifecycle.run_beyond(chk)


# ---------------------------------------------------------------------------------------------- self-test
def selftest(chk):
    rng = random.Random(1)
    wd = Workdir(chk)
    data = make_binary(rng, 16, 2, 4)
    base = dict(w=2, h=1, buf=16, app=30, wait=0, ntries=1, usecount=0, style="two",
                bins=[(data, {(0, 0): {1, 2}, (1, 0): {3}})], nn_id=0)
    good = run_scenario(wd, dict(base, miss=[[(1, 0)]]))[0]                 # second attempt succeeds, start signal
    bad = run_scenario(wd, dict(base, miss=[[(1, 0)], [(1, 0)]]))[0]        # raises naming (1, 0, 3)
    counted = run_scenario(wd, dict(base, usecount=1, miss=[[(0, 0)]]))[0]
    waiting = run_scenario(wd, dict(base, wait=1, style="map", miss=[[(0, 0)]]))[0]

    # cores of another application (31: one bit from 30) waiting while the call runs
    withother = dict(base, pre=[(data, {(1, 0): {5}}, 31)])
    masked = run_scenario(wd, dict(withother, miss=[]))[0]
    mcounted = run_scenario(wd, dict(withother, usecount=1, miss=[]))[0]

    def mut(tr, f, **setup):
        t = dict(tr, **setup)
        t["ev"] = copy.deepcopy(tr["ev"])
        f(t["ev"])
        return t

    def idx(tr, name, nth=0):
        return [i for i, e in enumerate(tr["ev"]) if e[0] == name][nth]
    g = good
    sel0, sel1 = idx(g, "select", 0), idx(g, "select", 1)
    d0, e0, s0 = idx(g, "data", 0), idx(g, "end", 0), idx(g, "start", 0)
    sel_retry = idx(g, "select", 2)

    def swap(ev, i, j):
        ev[i], ev[j] = ev[j], ev[i]
    cases = [
        (good, None), (bad, None), (counted, None), (waiting, None), (masked, None), (mcounted, None),
        # a start signal / a count whose mask also matches the other application: the model's machine then starts /
        # counts its core too
        (mut(masked, lambda ev: ev[idx(masked, "signal")].__setitem__(3, 0xfe)), "SimulatorStateMatchesModel"),
        (mut(mcounted, lambda ev: ev[idx(mcounted, "count", 0)].__setitem__(4, 0xfe)), "CountAnswerMatchesModel"),
        (mut(g, lambda ev: ev[s0].__setitem__(2, ev[s0][2] + 1)), "StartAnnouncesBlocks"),
        (mut(g, lambda ev: ev.__delitem__(d0)), "BlocksConsecutive"),
        (mut(g, lambda ev: swap(ev, sel0, sel1)), "SelectsIncreasing"),
        (mut(g, lambda ev: ev[d0][6].__setitem__(0, ev[d0][6][0] ^ 1)), "ImageReassembles"),
        (mut(g, lambda ev: ev[d0].__setitem__(3, ev[d0][3] + 1)), "BlockWholeWords"),
        (mut(g, lambda ev: None, buf=12), "BlockFitsBuffer"),
        (mut(g, lambda ev: ev[d0 + 1].__setitem__(4, [ev[d0 + 1][4][0], ev[d0 + 1][4][1] + 4])), "BlockAddressContiguous"),
        (mut(g, lambda ev: ev.__delitem__(sel1)), "SelectsExactTargets"),
        (mut(g, lambda ev: ev.insert(sel_retry, list(g["ev"][sel0]))), "RetriesOnlyMissing"),
        (mut(g, lambda ev: ev[e0].__setitem__(4, ev[e0][4][:-1])), "SimulatorCommitMatchesModel"),
        (mut(g, lambda ev: [e.__setitem__(1, e[1] + 1) for e in ev[s0:e0 + 1] if e[0] in ("start", "data", "end")]),
         "PidEvenInRange"),
        (mut(g, lambda ev: ev[e0].__setitem__(1, ev[e0][1] + 2)), "EndClosesFill"),
        (mut(g, lambda ev: swap(ev, sel1, e0)), "StartAnnouncesBlocks"),
        (mut(g, lambda ev: ev.insert(e0 + 1, list(g["ev"][sel0]))), "SelectsBetweenStartAndEnd"),
        (mut(g, lambda ev: ev[idx(g, "final")][1][0].__setitem__(3, 5)), "SimulatorStateMatchesModel"),
        (mut(g, lambda ev: ev[idx(g, "read", 0)].__setitem__(4, 15)), "ReadAnswerMatchesModel"),
        (mut(counted, lambda ev: ev[idx(counted, "count", 0)].__setitem__(3, 3)), "CountAnswerMatchesModel"),
        (mut(g, lambda ev: None, wait=1), "StartSignalOnlyWhenNotWaiting"),
        (mut(g, lambda ev: ev.__delitem__(idx(g, "signal"))), "SimulatorStateMatchesModel"),
        (mut(g, lambda ev: None, ntries=0), "AttemptsBounded"),
        (mut(g, lambda ev: ev[e0].__setitem__(2, 31)), "AppIdAsRequested"),
        (mut(bad, lambda ev: ev.__setitem__(len(ev) - 1, ["return"])), "ReturnedMeansAllLoaded"),
        (mut(bad, lambda ev: ev[-1].__setitem__(2, [[1, 0, 0, [1]]] + ev[-1][2])), "RaisedNamesExactlyMissing"),
        (mut(bad, lambda ev: ev[-1].__setitem__(2, [])), "RaisedNamesExactlyMissing"),
        (mut(bad, lambda ev: ev[-1].__setitem__(1, "KeyError")), "OnlyLoadingError"),
        (mut(waiting, lambda ev: ev.__setitem__(len(ev) - 1, ["raise", "SpiNNakerLoadingError", []])), "RaisedOnlyWhenMissing"),
        (mut(waiting, lambda ev: ev.insert(len(ev) - 2, ["signal", 3, 30, 255])), "StartSignalOnlyWhenNotWaiting"),
        (mut(bad, lambda ev: None, ntries=3), "RaisedOnlyAfterAllowedAttempts"),
        (mut(g, lambda ev: ev.__delitem__(idx(g, "final"))), "FinalStateSeen"),
    ]
    rej = chk.validate("LoadAppTrace", "LoadAppTrace.cfg", [c[0] for c in cases])
    got = {id(t): cl for t, _, cl in rej}
    msgs = []
    for n, (tr, want) in enumerate(cases):
        cl = got.get(id(tr))
        if (want is None) != (cl is None) or (want and want not in cl):
            msgs.append("case %d: expected %s, got %s" % (n, want, cl))
    return not msgs, "; ".join(msgs) or "%d corrupted traces rejected with the expected clauses" % (len(cases) - 6)
