"""C05 - allocated resource ranges are exact, in range, disjoint and unreserved.

D: AllocateDesign.tla - the greedy scan as coded, all layouts at small constants (soundness, progress,
   termination under fairness, completeness).
T: one trace per call of rig's allocate(): a grant event per (vertex, resource), judged by AllocateTrace.tla.
"""
import itertools
import random

from rig.place_and_route import Machine, Cores, SDRAM, SRAM
from rig.place_and_route.allocate.greedy import allocate
from rig.place_and_route.constraints import ReserveResourceConstraint, AlignResourceConstraint
from rig.place_and_route.exceptions import InsufficientResourceError

RNAME = {Cores: "Cores", SDRAM: "SDRAM", SRAM: "SRAM"}


def rname(r):
    return RNAME.get(r, str(r))


def make_trace(vertices_resources, machine, constraints, placements, label="", rebase=None):
    """rebase: {resource: BASE} for the "huge" family - every quantity of that resource is BASE + something small
    and the bottom [0, BASE) of every chip's range is reserved globally.  TLC's integers are 32-bit, so the trace
    carries a mechanical, order-preserving projection of the positions of such a resource (exact integer
    arithmetic here): [0, BASE) is shrunk to the stand-in [0, 64) and everything from BASE upwards is shifted down
    by BASE - 64 (a multiple of every alignment used, so sizes, overlaps and alignment above BASE are unchanged).
    A non-empty granted range that starts below BASE - it overlaps the bottom reservation - is represented by
    [0, 1), which overlaps the stand-in; an empty range at 0 < p < BASE by the empty range at 8 + p % 8 (inside the
    stand-in, same alignment up to 8)."""
    caps, gres, lres, aligns, reqs = [], [], [], [], []
    rebase = rebase or {}
    vidx = {v: i for i, v in enumerate(vertices_resources)}
    for c in constraints:
        if isinstance(c, ReserveResourceConstraint):
            b = rebase.get(c.resource, 0)
            if b:
                b -= 64
                if (c.reservation.start, c.reservation.stop) == (0, b + 64):
                    (gres if c.location is None else lres).append(
                        ([] if c.location is None else list(c.location)) + [rname(c.resource), 0, 64])
                    continue
                assert c.reservation.start >= b + 64
            if c.location is None:
                gres.append([rname(c.resource), c.reservation.start - b, c.reservation.stop - b])
            else:
                lres.append([c.location[0], c.location[1], rname(c.resource), c.reservation.start - b,
                             c.reservation.stop - b])
        elif isinstance(c, AlignResourceConstraint):
            aligns.append([rname(c.resource), c.alignment])
    # alignments: the last constraint for a resource wins in rig; keep only that one (mechanical)
    last = {}
    for a in aligns:
        last[a[0]] = a
    aligns = list(last.values())
    for xy in sorted(set(placements.values())):
        for r, cap in machine[xy].items():
            caps.append([xy[0], xy[1], rname(r), cap - (rebase[r] - 64 if r in rebase else 0)])
    for v, res in vertices_resources.items():
        xy = placements[v]
        for r, size in res.items():
            reqs.append([vidx[v], xy[0], xy[1], rname(r), size])
    evs = []
    try:
        alloc = allocate(vertices_resources, [], machine, constraints, placements)
    except Exception as ex:      # judged by the spec: only InsufficientResourceError is permitted
        evs.append(["raise", type(ex).__name__])
    else:
        for v, res in alloc.items():
            xy = placements[v]
            for r, sl in res.items():
                step_ok = sl.step is None
                lo, hi = sl.start, sl.stop
                if r in rebase and step_ok:
                    b = rebase[r]
                    if lo >= b:
                        lo, hi = lo - (b - 64), hi - (b - 64)
                    elif lo < hi:
                        lo, hi = 0, 1
                    elif lo > 0:
                        lo = hi = 8 + lo % 8
                if not (-2 ** 30 < lo < 2 ** 30 and -2 ** 30 < hi < 2 ** 30):
                    lo, hi = -2, -1          # far outside the chip's range: the size and in-range clauses reject it
                evs.append(["grant", vidx[v], xy[0], xy[1], rname(r), lo if step_ok else -1, hi])
        evs.append(["ok"])
    return dict(caps=caps, gres=gres, lres=lres, aligns=aligns, reqs=reqs, ev=evs, label=label)


def small_layouts(chk, rng):
    """single chip, one resource: every layout of <= 2 reservations x request sequences x alignments"""
    cap = chk.pick(5, 7)
    ranges = [(a, b) for a in range(cap + 1) for b in range(a + 1, cap + 1)]
    res_lists = [()] + [(r,) for r in ranges] + [p for p in itertools.product(ranges, ranges)]
    req_lists = [q for n in range(0, 4) for q in itertools.product(range(0, 4), repeat=n)]
    combos = [(rl, ql, al) for rl in res_lists for ql in req_lists for al in (1, 2, 4)]
    limit = chk.pick(9000, 10 ** 9)
    exhaustive = len(combos) <= limit
    if not exhaustive:
        combos = rng.sample(combos, limit)
    for (rl, ql, al) in combos:
        m = Machine(1, 1, chip_resources={Cores: cap})
        cons = []
        for k, r in enumerate(rl):
            cons.append(ReserveResourceConstraint(Cores, slice(r[0], r[1]), (0, 0) if k % 2 else None))
        if al != 1:
            cons.append(AlignResourceConstraint(Cores, al))
        vr = {"v%d" % i: {Cores: q} for i, q in enumerate(ql)}
        pl = {v: (0, 0) for v in vr}
        yield vr, m, cons, pl
    chk.extra["small_layouts_exhaustive"] = exhaustive
    chk.extra["small_layouts_domain"] = ("capacity %d, <= 2 reserved ranges (any order/overlap, global and per-chip), "
                                         "<= 3 requests of size 0..3, alignment 1/2/4" % cap)


def random_problem(rng):
    w, h = rng.randint(1, 4), rng.randint(1, 4)
    resources = {Cores: rng.randint(1, 18), SDRAM: rng.randint(0, 64)}
    if rng.random() < 0.3:
        resources[SRAM] = rng.randint(0, 16)
    exc = {}
    for _ in range(rng.randint(0, 3)):
        exc[(rng.randrange(w), rng.randrange(h))] = {r: rng.randint(0, v + 4) for r, v in resources.items()}
    m = Machine(w, h, chip_resources=dict(resources), chip_resource_exceptions=exc)
    cons = []
    easy = rng.random() < 0.5          # reservations only at the ends, no alignment
    for r in resources:
        for _ in range(rng.randint(0, 3)):
            loc = (rng.randrange(w), rng.randrange(h)) if rng.random() < 0.5 else None
            cap = min(m[xy][r] for xy in m) if loc is None else m[loc][r]
            if cap <= 0:
                continue
            if easy:
                n = rng.randint(1, max(1, cap // 3))
                sl = slice(0, n) if rng.random() < 0.5 else slice(cap - n, cap)
                if loc is None and any(m[xy][r] != cap for xy in m) and sl.start != 0:
                    continue   # a global high-end reservation is only at the end on chips of that capacity
            else:
                a = rng.randint(0, cap - 1)
                sl = slice(a, rng.randint(a + 1, cap))
            cons.append(ReserveResourceConstraint(r, sl, loc))
        if not easy and rng.random() < 0.4:
            cons.append(AlignResourceConstraint(r, rng.choice((1, 2, 3, 4, 8))))
    # vertices: fill chips up to (or just beyond) what is free
    vr, pl = {}, {}
    n = 0
    for xy in m:
        if rng.random() < 0.6:
            budget = {r: m[xy][r] for r in resources}
            for c in cons:
                if isinstance(c, ReserveResourceConstraint) and c.location in (None, xy):
                    budget[c.resource] -= c.reservation.stop - c.reservation.start
            for _ in range(rng.randint(1, 5)):
                need = {}
                for r in resources:
                    if rng.random() < 0.8:
                        q = rng.randint(0, max(0, budget[r] // 2 + (1 if rng.random() < 0.1 else 0)))
                        need[r] = q
                        budget[r] -= q
                if any(b < 0 for b in budget.values()) and rng.random() < 0.7:
                    break
                v = "v%d" % n
                n += 1
                vr[v] = need
                pl[v] = xy
    # shuffle vertex order (dict order decides allocation order)
    items = list(vr.items())
    rng.shuffle(items)
    vr = dict(items)
    items = list(pl.items())
    rng.shuffle(items)
    pl = dict(items)
    return vr, m, cons, pl


def huge_problem(rng):
    """Quantities at the far end of "all machines": a resource counted in units beyond 2^31 / 2^53 / 2^60 (byte
    addresses of a 64-bit space), its bottom [0, BASE) reserved globally, reservations and requests in the small
    window above BASE (odd sizes, so that positions are not representable as doubles beyond 2^53)."""
    base = rng.choice((2 ** 31, 2 ** 32 + 64, 2 ** 53, 2 ** 53 + 2 ** 12, 2 ** 60, 2 ** 62 + 2 ** 20, 3 * 2 ** 61))
    w, h = rng.randint(1, 2), rng.randint(1, 2)
    win = rng.randint(8, 60)
    resources = {Cores: rng.randint(1, 18), SDRAM: base + win}
    exc = {}
    if rng.random() < 0.4:
        exc[(rng.randrange(w), rng.randrange(h))] = {Cores: rng.randint(1, 18), SDRAM: base + rng.randint(4, win + 9)}
    m = Machine(w, h, chip_resources=dict(resources), chip_resource_exceptions=exc)
    cons = [ReserveResourceConstraint(SDRAM, slice(0, base))]
    easy = rng.random() < 0.5
    for _ in range(rng.randint(0, 3)):
        loc = (rng.randrange(w), rng.randrange(h)) if rng.random() < 0.5 else None
        cap = (min(m[xy][SDRAM] for xy in m) if loc is None else m[loc][SDRAM]) - base
        if easy:
            # (with the bottom reserved, "only at the ends" leaves the top end)
            if loc is None and any(m[xy][SDRAM] - base != cap for xy in m):
                continue
            n = rng.randint(1, max(1, cap // 3))
            sl = slice(base + cap - n, base + cap)
        else:
            a = rng.randint(0, cap - 1)
            sl = slice(base + a, base + rng.randint(a + 1, cap))
        cons.append(ReserveResourceConstraint(SDRAM, sl, loc))
    if not easy and rng.random() < 0.4:
        cons.append(AlignResourceConstraint(SDRAM, rng.choice((1, 2, 4, 8))))
    rng.shuffle(cons)
    vr, pl = {}, {}
    n = 0
    for xy in m:
        budget = m[xy][SDRAM] - base - sum(c.reservation.stop - c.reservation.start for c in cons
                                           if isinstance(c, ReserveResourceConstraint) and c.location in (None, xy)
                                           and c.reservation.start >= base)
        for _ in range(rng.randint(1, 5)):
            q = rng.randint(0, max(0, budget // 2 + (1 if rng.random() < 0.1 else 0)))
            budget -= q
            if budget < 0 and rng.random() < 0.7:
                break
            vr["v%d" % n] = {SDRAM: q, Cores: rng.randint(0, 1)} if rng.random() < 0.5 else {SDRAM: q}
            pl["v%d" % n] = xy
            n += 1
    items = list(vr.items())
    rng.shuffle(items)
    return dict(items), m, cons, pl, {SDRAM: base}


def run(chk):
    rng = random.Random(chk.seed)
    chk.design("AllocateDesign", "AllocateDesign_%s.cfg" % chk.tier,
               expect_actions=("Fail", "Skip", "Grant", "Done"))
    # Apalache (symbolic): IndInv is an inductive invariant of the scan for UNBOUNDED capacity, request sizes,
    # reservation positions and alignment (only the number of reservations / requests is bounded, by 3); the scan's
    # start states satisfy it; and the same invariant is refuted for a scan that grants without re-checking.  Run
    # beside the trace generation (one core each).
    from concurrent.futures import ThreadPoolExecutor
    pool = ThreadPoolExecutor(3)
    apa = [pool.submit(chk.apalache, "AllocateInd", "IndInit", "DNext", "IndInv", 1, cinit="ConstInit",
                       label="inductive step: IndInv /\\ DNext => IndInv' (unbounded Cap, sizes, alignment)"),
           pool.submit(chk.apalache, "AllocateInd", "StartInit", "DNext", "IndInv", 0, cinit="ConstInit",
                       label="base case: every start state of the scan satisfies IndInv"),
           pool.submit(chk.apalache, "AllocateInd", "IndInit", "WrongNext", "IndInv", 1, cinit="ConstInit",
                       expect="Error", label="refuted: a scan that grants without re-checking breaks IndInv")]
    traces = []
    for vr, m, cons, pl in small_layouts(chk, rng):
        t = make_trace(vr, m, cons, pl, "small")
        traces.append(t)
        chk.note_case((t["gres"], t["lres"], t["aligns"], t["reqs"]),
                      nontrivial=bool(t["reqs"]) and bool(t["gres"] or t["lres"]))
    for i in range(chk.pick(3000, 60000)):
        vr, m, cons, pl = random_problem(rng)
        t = make_trace(vr, m, cons, pl, "random")
        traces.append(t)
        chk.note_case((t["caps"], t["gres"], t["lres"], t["aligns"], t["reqs"]), nontrivial=bool(t["reqs"]))
    hrng = random.Random(chk.seed + 5)
    for i in range(chk.pick(600, 12000)):
        vr, m, cons, pl, rb = huge_problem(hrng)
        t = make_trace(vr, m, cons, pl, "huge (positions from %d upwards shifted to 64)" % rb[SDRAM], rebase=rb)
        traces.append(t)
        chk.note_case((rb[SDRAM], t["caps"], t["gres"], t["lres"], t["aligns"], t["reqs"]), nontrivial=bool(t["reqs"]))
    nraise = sum(1 for t in traces if t["ev"][-1][0] == "raise")
    chk.count("calls that raised", nraise)
    chk.count("calls that returned", len(traces) - nraise)
    chk.rule = ("single-chip layouts (see small_layouts_domain) through the real allocate(), then random multi-chip "
                "machines with per-chip exceptions, 0-3 global/per-chip reservations per resource (half of the problems "
                "with end-only reservations and no alignment so that the completeness clause applies), alignments, "
                "shuffled vertex orders, zero-size requests; then resources counted beyond 2^31 / 2^53 / 2^60 units with the "
                "bottom [0, BASE) reserved (positions travel shifted, see make_trace); non-trivial = at least one request (and, for the small "
                "layouts, at least one reservation); distinct = distinct (capacities, reservations, alignments, requests)")
    chk.exhaustive = False
    chk.sample(traces[len(traces) // 7]); chk.sample(traces[-1]); chk.sample(traces[-2])

    def key_of(tr, i, clauses):
        return "%s %s gres=%s lres=%s aligns=%s reqs=%s" % (tr["ev"][i - 1][0], ",".join(clauses), tr["gres"],
                                                           tr["lres"], tr["aligns"], tr["reqs"])

    chk.validate("AllocateTrace", "AllocateTrace.cfg", traces, key_of=key_of, batch=6000)
    for f in apa:
        f.result()                      # an unexpected outcome is a machinery error (raised here)
    chk.extra["apalache_inductive_invariant"] = (
        "AllocateInd.IndInv (TypeOK, one grant per finished request, Sound, every grant below the bump pointer) is "
        "inductive for AllocateScan.DNext with Cap \\in Nat and unbounded sizes / positions / alignment, <= 3 "
        "reservations and requests; IndInv => Sound")
    # beyond the property: what becomes of the allocator's output - sdram_alloc_for_vertices, build_application_map,
    # build_routing_tables - judged against Glue.tla
    from . import glue
    glue.run_beyond(chk)


def selftest(chk):
    m = Machine(1, 1, chip_resources={Cores: 6})
    cons = [ReserveResourceConstraint(Cores, slice(0, 1)), AlignResourceConstraint(Cores, 2)]
    vr = {"a": {Cores: 2}, "b": {Cores: 1}}
    pl = {"a": (0, 0), "b": (0, 0)}
    good = make_trace(vr, m, cons, pl)

    def mut(f):
        t = dict(good); t["ev"] = [list(e) for e in good["ev"]]; f(t["ev"]); return t
    cases = [
        (good, None),
        (mut(lambda ev: ev[0].__setitem__(6, ev[0][6] + 1)), "ExactSize"),
        (mut(lambda ev: ev.__delitem__(1)), "AllGranted"),
        (mut(lambda ev: (ev[1].__setitem__(5, 2), ev[1].__setitem__(6, 3))), "Disjoint"),
        (mut(lambda ev: (ev[0].__setitem__(5, 0), ev[0].__setitem__(6, 2))), "Unreserved"),
        (mut(lambda ev: (ev[1].__setitem__(5, 5), ev[1].__setitem__(6, 6))), "OnAlignment"),
        (mut(lambda ev: (ev[1].__setitem__(5, 6), ev[1].__setitem__(6, 7))), "InRange"),
        (dict(good, ev=[["raise", "KeyError"]]), "OnlyDocumentedError"),
        (dict(good, aligns=[], ev=[["raise", "InsufficientResourceError"]]), "Complete"),
    ]
    rej = chk.validate("AllocateTrace", "AllocateTrace.cfg", [c[0] for c in cases])
    got = {id(t): cl for t, _, cl in rej}
    msgs = []
    for tr, want in cases:
        cl = got.get(id(tr))
        if (want is None) != (cl is None) or (want and want not in cl):
            msgs.append("expected %s, got %s" % (want, cl))
    return not msgs, "; ".join(msgs) or "%d corrupted traces rejected with the expected clauses" % (len(cases) - 1)
