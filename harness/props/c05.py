"""C05 - allocated resource ranges are exact, in range, disjoint and unreserved.

D: AllocateDesign.tla - the greedy scan as coded, all layouts at small constants (soundness, progress,
   termination under fairness, completeness).
T: one trace per call of rig's allocate(): a grant event per (vertex, resource), judged by AllocateTrace.tla.
"""
import itertools
import os
import random
import signal
import threading

from rig.place_and_route import Machine, Cores, SDRAM, SRAM
from rig.place_and_route.allocate.greedy import allocate
from rig.place_and_route.constraints import (ReserveResourceConstraint, AlignResourceConstraint, LocationConstraint,
                                             SameChipConstraint, RouteEndpointConstraint)
from rig.place_and_route.exceptions import InsufficientResourceError
from rig.netlist import Net
from rig.routing_table import Routes

RNAME = {Cores: "Cores", SDRAM: "SDRAM", SRAM: "SRAM"}


def rname(r):
    return RNAME.get(r, str(r))


def _hashable(v):
    try:
        hash(v)
        return True
    except TypeError:
        return False


class AllocateDidNotReturn(Exception):
    """allocate() was still running after CALL_LIMIT seconds (the unchanged tree needs milliseconds, a fraction of a
    second for the populous problems): "always terminates" is observed per call and ends as a `raise` event the
    specification rejects (OnlyDocumentedError), instead of the check standing still until its wall limit"""


CALL_LIMIT = float(os.environ.get("VERIF_C05_CALL_LIMIT", "30"))


class call_limit(object):
    def __enter__(self):
        self.on = hasattr(signal, "setitimer") and threading.current_thread() is threading.main_thread()
        if self.on:
            def fire(signum, frame):
                raise AllocateDidNotReturn("no result after %g s" % CALL_LIMIT)
            self.old = signal.signal(signal.SIGALRM, fire)
            signal.setitimer(signal.ITIMER_REAL, CALL_LIMIT)
        return self

    def __exit__(self, *exc):
        if self.on:
            signal.setitimer(signal.ITIMER_REAL, 0)
            signal.signal(signal.SIGALRM, self.old)
        return False


def make_trace(vertices_resources, machine, constraints, placements, label="", rebase=None, nets=()):
    """rebase: {resource: BASE} for the "huge" family - every quantity of that resource is BASE + something small
    and the bottom [0, BASE) of every chip's range is reserved globally.  TLC's integers are 32-bit, so the trace
    carries a mechanical, order-preserving projection of the positions of such a resource (exact integer
    arithmetic here): [0, BASE) is shrunk to the stand-in [0, 64) and everything from BASE upwards is shifted down
    by BASE - 64 (a multiple of every alignment used, so sizes, overlaps and alignment above BASE are unchanged).
    A non-empty granted range that starts below BASE - it overlaps the bottom reservation - is represented by
    [0, 1), which overlaps the stand-in; an empty range at 0 < p < BASE by the empty range at 8 + p % 8 (inside the
    stand-in, same alignment up to 8)."""
    caps, gres, lres, aligns, reqs = [], [], [], [], []
    rebase = rebase or {}
    vidx = {v: i for i, v in enumerate(vertices_resources)}
    for c in constraints:
        if isinstance(c, ReserveResourceConstraint):
            b = rebase.get(c.resource, 0)
            if b:
                b -= 64
                if (c.reservation.start, c.reservation.stop) == (0, b + 64):
                    (gres if c.location is None else lres).append(
                        ([] if c.location is None else list(c.location)) + [rname(c.resource), 0, 64])
                    continue
                assert c.reservation.start >= b + 64
            if c.location is None:
                gres.append([rname(c.resource), c.reservation.start - b, c.reservation.stop - b])
            else:
                lres.append([c.location[0], c.location[1], rname(c.resource), c.reservation.start - b,
                             c.reservation.stop - b])
        elif isinstance(c, AlignResourceConstraint):
            aligns.append([rname(c.resource), c.alignment])
    # alignments: the last constraint for a resource wins in rig; keep only that one (mechanical)
    last = {}
    for a in aligns:
        last[a[0]] = a
    aligns = list(last.values())
    for xy in sorted(set(placements.values())):
        for r, cap in machine[xy].items():
            caps.append([xy[0], xy[1], rname(r), cap - (rebase[r] - 64 if r in rebase else 0)])
    for v, res in vertices_resources.items():
        xy = placements[v]
        for r, size in res.items():
            reqs.append([vidx[v], xy[0], xy[1], rname(r), size])
    evs = []
    try:
        with call_limit():
            alloc = allocate(vertices_resources, list(nets), machine, constraints, placements)
    except Exception as ex:      # judged by the spec: only InsufficientResourceError is permitted
        evs.append(["raise", type(ex).__name__])
    else:
        # (a result of another shape than {vertex: {resource: slice}} - an unknown vertex, a value that is no slice,
        # an open end - becomes an event the specification knows no clause for, never a crash of the driver)
        try:
            for v, res in alloc.items():
                xy = placements.get(v, (-1, -1)) if _hashable(v) else (-1, -1)
                vi = vidx.get(v, -1) if _hashable(v) else -1
                for r, sl in res.items():
                    step_ok = sl.step is None
                    lo, hi = int(sl.start), int(sl.stop)
                    if r in rebase and step_ok:
                        b = rebase[r]
                        if lo >= b:
                            lo, hi = lo - (b - 64), hi - (b - 64)
                        elif lo < hi:
                            lo, hi = 0, 1
                        elif lo > 0:
                            lo = hi = 8 + lo % 8
                    if not (-2 ** 30 < lo < 2 ** 30 and -2 ** 30 < hi < 2 ** 30):
                        lo, hi = -2, -1          # far outside the chip's range: the size and in-range clauses reject it
                    evs.append(["grant", vi, xy[0], xy[1], rname(r), lo if step_ok else -1, hi])
            evs.append(["ok"])
        except Exception as ex:
            evs.append(["malformed result", "%s: %s" % (type(ex).__name__, ex)])
    return dict(caps=caps, gres=gres, lres=lres, aligns=aligns, reqs=reqs, ev=evs, label=label)


def small_layouts(chk, rng):
    """single chip, one resource: every layout of <= 2 reservations x request sequences x alignments"""
    cap = chk.pick(5, 7)
    ranges = [(a, b) for a in range(cap + 1) for b in range(a + 1, cap + 1)]
    res_lists = [()] + [(r,) for r in ranges] + [p for p in itertools.product(ranges, ranges)]
    req_lists = [q for n in range(0, 4) for q in itertools.product(range(0, 4), repeat=n)]
    combos = [(rl, ql, al) for rl in res_lists for ql in req_lists for al in (1, 2, 4)]
    limit = chk.pick(9000, 10 ** 9)
    exhaustive = len(combos) <= limit
    if not exhaustive:
        combos = rng.sample(combos, limit)
    for (rl, ql, al) in combos:
        m = Machine(1, 1, chip_resources={Cores: cap})
        cons = []
        for k, r in enumerate(rl):
            cons.append(ReserveResourceConstraint(Cores, slice(r[0], r[1]), (0, 0) if k % 2 else None))
        if al != 1:
            cons.append(AlignResourceConstraint(Cores, al))
        vr = {"v%d" % i: {Cores: q} for i, q in enumerate(ql)}
        pl = {v: (0, 0) for v in vr}
        yield vr, m, cons, pl
    chk.extra["small_layouts_exhaustive"] = exhaustive
    chk.extra["small_layouts_domain"] = ("capacity %d, <= 2 reserved ranges (any order/overlap, global and per-chip), "
                                         "<= 3 requests of size 0..3, alignment 1/2/4" % cap)


def random_problem(rng):
    w, h = rng.randint(1, 4), rng.randint(1, 4)
    resources = {Cores: rng.randint(1, 18), SDRAM: rng.randint(0, 64)}
    if rng.random() < 0.3:
        resources[SRAM] = rng.randint(0, 16)
    exc = {}
    for _ in range(rng.randint(0, 3)):
        exc[(rng.randrange(w), rng.randrange(h))] = {r: rng.randint(0, v + 4) for r, v in resources.items()}
    m = Machine(w, h, chip_resources=dict(resources), chip_resource_exceptions=exc)
    cons = []
    easy = rng.random() < 0.5          # reservations only at the ends, no alignment
    for r in resources:
        for _ in range(rng.randint(0, 3)):
            loc = (rng.randrange(w), rng.randrange(h)) if rng.random() < 0.5 else None
            cap = min(m[xy][r] for xy in m) if loc is None else m[loc][r]
            if cap <= 0:
                continue
            if easy:
                n = rng.randint(1, max(1, cap // 3))
                sl = slice(0, n) if rng.random() < 0.5 else slice(cap - n, cap)
                if loc is None and any(m[xy][r] != cap for xy in m) and sl.start != 0:
                    continue   # a global high-end reservation is only at the end on chips of that capacity
            else:
                a = rng.randint(0, cap - 1)
                sl = slice(a, rng.randint(a + 1, cap))
            cons.append(ReserveResourceConstraint(r, sl, loc))
        if not easy and rng.random() < 0.4:
            cons.append(AlignResourceConstraint(r, rng.choice((1, 2, 3, 4, 8))))
    # vertices: fill chips up to (or just beyond) what is free
    vr, pl = {}, {}
    n = 0
    for xy in m:
        if rng.random() < 0.6:
            budget = {r: m[xy][r] for r in resources}
            for c in cons:
                if isinstance(c, ReserveResourceConstraint) and c.location in (None, xy):
                    budget[c.resource] -= c.reservation.stop - c.reservation.start
            for _ in range(rng.randint(1, 5)):
                need = {}
                for r in resources:
                    if rng.random() < 0.8:
                        q = rng.randint(0, max(0, budget[r] // 2 + (1 if rng.random() < 0.1 else 0)))
                        need[r] = q
                        budget[r] -= q
                if any(b < 0 for b in budget.values()) and rng.random() < 0.7:
                    break
                v = "v%d" % n
                n += 1
                vr[v] = need
                pl[v] = xy
    # shuffle vertex order (dict order decides allocation order)
    items = list(vr.items())
    rng.shuffle(items)
    vr = dict(items)
    items = list(pl.items())
    rng.shuffle(items)
    pl = dict(items)
    return vr, m, cons, pl


def huge_problem(rng):
    """Quantities at the far end of "all machines": a resource counted in units beyond 2^31 / 2^53 / 2^60 (byte
    addresses of a 64-bit space), its bottom [0, BASE) reserved globally, reservations and requests in the small
    window above BASE (odd sizes, so that positions are not representable as doubles beyond 2^53)."""
    base = rng.choice((2 ** 31, 2 ** 32 + 64, 2 ** 53, 2 ** 53 + 2 ** 12, 2 ** 60, 2 ** 62 + 2 ** 20, 3 * 2 ** 61))
    w, h = rng.randint(1, 2), rng.randint(1, 2)
    win = rng.randint(8, 60)
    resources = {Cores: rng.randint(1, 18), SDRAM: base + win}
    exc = {}
    if rng.random() < 0.4:
        exc[(rng.randrange(w), rng.randrange(h))] = {Cores: rng.randint(1, 18), SDRAM: base + rng.randint(4, win + 9)}
    m = Machine(w, h, chip_resources=dict(resources), chip_resource_exceptions=exc)
    cons = [ReserveResourceConstraint(SDRAM, slice(0, base))]
    easy = rng.random() < 0.5
    for _ in range(rng.randint(0, 3)):
        loc = (rng.randrange(w), rng.randrange(h)) if rng.random() < 0.5 else None
        cap = (min(m[xy][SDRAM] for xy in m) if loc is None else m[loc][SDRAM]) - base
        if easy:
            # (with the bottom reserved, "only at the ends" leaves the top end)
            if loc is None and any(m[xy][SDRAM] - base != cap for xy in m):
                continue
            n = rng.randint(1, max(1, cap // 3))
            sl = slice(base + cap - n, base + cap)
        else:
            a = rng.randint(0, cap - 1)
            sl = slice(base + a, base + rng.randint(a + 1, cap))
        cons.append(ReserveResourceConstraint(SDRAM, sl, loc))
    if not easy and rng.random() < 0.4:
        cons.append(AlignResourceConstraint(SDRAM, rng.choice((1, 2, 4, 8))))
    rng.shuffle(cons)
    vr, pl = {}, {}
    n = 0
    for xy in m:
        budget = m[xy][SDRAM] - base - sum(c.reservation.stop - c.reservation.start for c in cons
                                           if isinstance(c, ReserveResourceConstraint) and c.location in (None, xy)
                                           and c.reservation.start >= base)
        for _ in range(rng.randint(1, 5)):
            q = rng.randint(0, max(0, budget // 2 + (1 if rng.random() < 0.1 else 0)))
            budget -= q
            if budget < 0 and rng.random() < 0.7:
                break
            vr["v%d" % n] = {SDRAM: q, Cores: rng.randint(0, 1)} if rng.random() < 0.5 else {SDRAM: q}
            pl["v%d" % n] = xy
            n += 1
    items = list(vr.items())
    rng.shuffle(items)
    return dict(items), m, cons, pl, {SDRAM: base}


class SystemReservation(ReserveResourceConstraint):
    """a caller's own subclass of the reservation constraint (it is a ReserveResourceConstraint)"""


class WordAlignment(AlignResourceConstraint):
    """a caller's own subclass of the alignment constraint"""


def _free_after(m, cons, xy, r):
    free = m[xy][r]
    for c in cons:
        if isinstance(c, ReserveResourceConstraint) and c.resource is r and c.location in (None, xy):
            free -= c.reservation.stop - c.reservation.start
    return free


def comb_problem(rng):
    """"any number of global and per-chip reserved ranges per resource (adjacent, interleaved with free gaps)", "any
    alignment": 4-16 reservations of one resource (the random family stops at 6 per chip), either a comb over the
    whole range (adjacent teeth, nested and repeated ranges, global and per-chip mixed, list order shuffled) with
    alignments up to and beyond the capacity, or stacks of nested reservations at the two ends with no alignment (the
    completeness sentence applies)."""
    w, h = rng.randint(1, 2), rng.randint(1, 2)
    cap = rng.randint(12, 48)
    r, other = rng.choice(((Cores, SDRAM), (SDRAM, Cores), (SRAM, Cores)))
    m = Machine(w, h, chip_resources={r: cap, other: rng.randint(1, 6)})
    chips = list(m)
    target = rng.choice(chips)

    def where():
        u = rng.random()
        return None if u < 0.5 else (target if u < 0.9 else rng.choice(chips))
    cons = []
    easy = rng.random() < 0.4
    if easy:
        for _ in range(rng.randint(0, 7)):
            cons.append(ReserveResourceConstraint(r, slice(0, rng.randint(1, cap // 3)), where()))
        for _ in range(rng.randint(0, 7)):
            cons.append(ReserveResourceConstraint(r, slice(cap - rng.randint(1, cap // 3), cap), where()))
    else:
        pos, teeth = rng.randint(0, 2), []
        dense = rng.random() < 0.35       # teeth one or two apart up to a free stretch at the top: a request wider
        while pos < (cap - 8 if dense else cap):     # than the gaps has to pass every one of them
            n = min(rng.randint(1, 2 if dense else 4), cap - pos)
            if dense or rng.random() < 0.55:
                teeth.append((pos, pos + n))
            pos += n + (rng.randint(1, 2) if dense else 0)
        for _ in range(rng.randint(0, 4)):
            if teeth:
                a, b = rng.choice(teeth)
                u = rng.random()
                if u < 0.4:
                    teeth.append((a, b))                              # the same range again
                elif u < 0.8:
                    a2 = rng.randint(a, b - 1)
                    teeth.append((a2, rng.randint(a2 + 1, b)))        # a range inside another
                else:
                    teeth.append((a, min(cap, b + rng.randint(1, 3))))    # overlapping the next gap / tooth
        teeth = teeth[:16]
        for a, b in teeth:
            cons.append((SystemReservation if rng.random() < 0.2 else ReserveResourceConstraint)(r, slice(a, b), where()))
        if rng.random() < 0.5:
            al = rng.choice((2, 3, 4, 5, 6, 7, 8, 12, 16, 32, 64, cap - 1, cap, cap + 1))
            cons.append((WordAlignment if rng.random() < 0.2 else AlignResourceConstraint)(r, al))
    rng.shuffle(cons)
    vr, pl = {}, {}
    n = 0
    for xy in [target] + [c for c in chips if c != target and rng.random() < 0.4]:
        budget = _free_after(m, cons, xy, r) if easy else cap
        exact = easy and rng.random() < 0.5                 # the chip is filled to the last unit
        for k in range(rng.randint(1, 8)):
            q = rng.choice((0, 1, 1, 1, 2, 2, 3, 4))
            if easy:
                q = min(q, max(budget, 0)) if rng.random() < 0.93 else q
            budget -= q
            vr["c%d" % n] = {r: q} if rng.random() < 0.8 else {r: q, other: rng.randint(0, 1)}
            pl["c%d" % n] = xy
            n += 1
        if exact and budget > 0:
            vr["c%d" % n] = {r: budget}
            pl["c%d" % n] = xy
            n += 1
    items = list(vr.items())
    rng.shuffle(items)
    vr = dict(items)
    items = list(pl.items())
    rng.shuffle(items)
    return vr, m, cons, dict(items)


class Vertex(object):
    """a caller's vertex object (hashable by identity, not orderable)"""


def mixed_problem(rng, extra):
    """A random problem as its caller would really hand it over: vertices that are arbitrary hashable objects (the
    pinned tests use object()), one requirement dictionary shared by several vertices, the full constraint list of the
    place-and-route run (location, same-chip and route-endpoint constraints between the reservations), subclasses of
    the two constraints allocate() reads, the nets of the problem, and a resource identifier of the caller's own."""
    vr0, m, cons, pl0 = comb_problem(rng) if rng.random() < 0.25 else random_problem(rng)
    kind = rng.choice(("object", "int", "tuple", "mixed"))
    makers = {"object": lambda i: Vertex(), "int": lambda i: 1000 - 7 * i, "tuple": lambda i: ("pop", i % 3, i),
              "mixed": lambda i: rng.choice((Vertex(), i, ("t", i), "s%d" % i, frozenset([i, -1]), float(i) + 0.5))}
    names = {}
    for i, v in enumerate(vr0):
        names[v] = makers[kind](i)
    if extra is not None and vr0:
        # a resource of the caller's own on every chip, reserved at one end, requested by some vertices
        cap = rng.randint(0, 12)
        m.chip_resources[extra] = cap
        for e in m.chip_resource_exceptions.values():
            e[extra] = cap + rng.randint(0, 3)
        if cap and rng.random() < 0.5:
            n = rng.randint(1, max(1, cap // 3))
            cons.insert(rng.randint(0, len(cons)), ReserveResourceConstraint(extra, slice(0, n) if rng.random() < 0.5
                                                                             else slice(cap - n, cap)))
        budget = {}
        for v in vr0:
            if rng.random() < 0.5:
                b = budget.setdefault(pl0[v], _free_after(m, cons, pl0[v], extra))
                q = rng.randint(0, max(0, b // 2))
                budget[pl0[v]] = b - q
                vr0[v] = dict(vr0[v])
                vr0[v][extra] = q
    # one requirement dictionary shared by the vertices that need the same
    shared = {}
    vr = {}
    for v, need in vr0.items():
        key = tuple(sorted((rname(r), q) for r, q in need.items()))
        vr[names[v]] = shared.setdefault(key, need) if rng.random() < 0.7 else dict(need)
    pl = {names[v]: xy for v, xy in pl0.items()}
    vs = list(vr)
    others = []
    for v in vs:
        if rng.random() < 0.3:
            others.append(LocationConstraint(v, pl[v]))
        if rng.random() < 0.1:
            others.append(RouteEndpointConstraint(v, rng.choice(list(Routes))))
    by_chip = {}
    for v in vs:
        by_chip.setdefault(pl[v], []).append(v)
    for group in by_chip.values():
        if len(group) > 1 and rng.random() < 0.4:
            others.append(SameChipConstraint(group[:rng.randint(2, len(group))]))
    cons = [(SystemReservation(c.resource, c.reservation, c.location)
             if type(c) is ReserveResourceConstraint and rng.random() < 0.2 else
             WordAlignment(c.resource, c.alignment) if type(c) is AlignResourceConstraint and rng.random() < 0.2 else c)
            for c in cons]
    for o in others:
        cons.insert(rng.randint(0, len(cons)), o)
    nets = []
    for _ in range(rng.randint(0, 3)):
        if vs:
            nets.append(Net(rng.choice(vs), [rng.choice(vs) for _ in range(rng.randint(1, 3))], rng.choice((1.0, 2.5))))
    return vr, m, cons, pl, nets


def history(rng):
    """The caller's history: ONE machine, constraint list, requirement and placement dictionary, handed to allocate()
    again and again and changed IN PLACE between the calls (a capacity of the machine or of one chip, a reservation
    added / removed / moved / resized, the alignment, one vertex's requirement, one vertex's chip), or not changed at
    all.  Yields the problem before every call; every call is a trace of its own, judged against the values its
    arguments held when it was made."""
    vr, m, cons, pl = comb_problem(rng) if rng.random() < 0.3 else random_problem(rng)
    if not vr:
        return
    yield "first", vr, m, cons, pl
    resources = list(m.chip_resources)

    def top(r, xy):        # reservations must stay inside the chip (ReserveResourceConstraint's documentation)
        return max([c.reservation.stop for c in cons if isinstance(c, ReserveResourceConstraint) and
                    c.resource is r and (c.location is None or xy is None or c.location == xy)] + [0])

    def resized(r, xy, old):
        """a chip's new capacity: a little more or less, or (half of the time) within a unit or two of what the
        vertices now on the chip ask for plus what is reserved there - so that the change decides the outcome"""
        if rng.random() < 0.5:
            want = old + rng.randint(-3, 3)
        else:
            want = (old - _free_after(m, cons, xy, r) + sum(vr[v].get(r, 0) for v in vr if pl[v] == xy) +
                    rng.choice((-2, -1, 0, 0, 1)))
        return max(top(r, xy if xy in m.chip_resource_exceptions else None), want, 0)
    for _ in range(rng.randint(2, 5)):
        u = rng.choice(("repeat", "cap", "cap", "chipcap", "chipcap", "newexc", "newexc", "res+", "res-", "res~",
                        "align", "need", "move"))
        r = rng.choice(resources)
        reserves = [c for c in cons if isinstance(c, ReserveResourceConstraint)]
        aligns = [c for c in cons if isinstance(c, AlignResourceConstraint)]
        xy = rng.choice(sorted(set(pl.values())))
        if u == "cap":
            m.chip_resources[r] = max(top(r, None), resized(r, xy, m.chip_resources[r]))
        elif u == "chipcap" and xy in m.chip_resource_exceptions:
            m.chip_resource_exceptions[xy][r] = resized(r, xy, m[xy][r])
        elif u == "newexc" and xy not in m.chip_resource_exceptions:
            m[xy] = {q: max(top(q, xy), resized(q, xy, m[xy][q])) for q in resources}
        elif u == "res+":
            cap = min(m[c][r] for c in m)
            if cap > 0:
                a = rng.choice((0, rng.randint(0, cap - 1)))
                cons.insert(rng.randint(0, len(cons)),
                            ReserveResourceConstraint(r, slice(a, rng.randint(a + 1, cap)), rng.choice((None, xy))))
        elif u == "res-" and reserves:
            cons.remove(rng.choice(reserves))
        elif u == "res~" and reserves:
            c = rng.choice(reserves)
            cap = min(m[q][c.resource] for q in m)
            if rng.random() < 0.5 and cap > 0:
                a = rng.randint(0, cap - 1)
                c.reservation = slice(a, rng.randint(a + 1, cap))
            elif c.reservation.stop <= cap:
                c.location = rng.choice((None, xy))
        elif u == "align":
            if aligns and rng.random() < 0.7:
                rng.choice(aligns).alignment = rng.choice((1, 2, 3, 4, 8))
            else:
                cons.append(AlignResourceConstraint(r, rng.choice((2, 4))))
        elif u == "need":
            v = rng.choice(list(vr))
            if vr[v]:
                q = rng.choice(list(vr[v]))
                vr[v][q] = max(0, vr[v][q] + rng.randint(-2, 2))
        elif u == "move":
            v = rng.choice(list(pl))
            dst = rng.choice(list(m))
            if all(_free_after(m, cons, dst, q) >= n for q, n in vr[v].items()):
                pl[v] = dst
        yield u, vr, m, cons, pl


def populous_problem(rng, kind):
    """Far ends of "all vertex sets on all machines": one chip shared by 40-120 vertices that fill it to the last
    unit between reservations at both ends, and a machine of 100-190 chips (some dead, some with resources of their
    own) with vertices on nearly every live chip."""
    if kind == "chip":
        n = rng.randint(40, 120)
        sizes = [rng.choice((0, 1, 1, 2, 3)) for _ in range(n)]
        lo, hi = rng.randint(0, 5), rng.randint(0, 5)
        cap = lo + sum(sizes) + hi
        m = Machine(2, 1, chip_resources={SDRAM: cap, Cores: n})
        xy = rng.choice(list(m))
        cons = []
        if lo:
            cons.append(ReserveResourceConstraint(SDRAM, slice(0, lo), rng.choice((None, xy))))
        if hi:
            cons.append(ReserveResourceConstraint(SDRAM, slice(cap - hi, cap), rng.choice((None, xy))))
        vr = {"p%d" % i: {SDRAM: q, Cores: 1} for i, q in enumerate(sizes)}
        pl = {v: xy for v in vr}
        return vr, m, cons, pl
    w, h = rng.randint(10, 16), rng.randint(10, 12)
    dead = {(rng.randrange(w), rng.randrange(h)) for _ in range(rng.randint(1, 12))}
    m = Machine(w, h, chip_resources={Cores: 17, SDRAM: 40}, dead_chips=dead)
    live = list(m)
    for xy in rng.sample(live, 10):
        m[xy] = {Cores: rng.randint(1, 17), SDRAM: rng.randint(20, 50)}
    cons = [ReserveResourceConstraint(Cores, slice(0, 1)), ReserveResourceConstraint(SDRAM, slice(0, 8))]
    for xy in rng.sample(live, 6):
        cons.append(ReserveResourceConstraint(SDRAM, slice(8, 8 + rng.randint(1, 6)), xy))
        if rng.random() < 0.5:
            cons.append(ReserveResourceConstraint(Cores, slice(m[xy][Cores] - 1, m[xy][Cores]), xy))
    rng.shuffle(cons)
    vr, pl = {}, {}
    for xy in live:
        if rng.random() < 0.9:
            free = {r: _free_after(m, cons, xy, r) for r in (Cores, SDRAM)}
            for k in range(rng.randint(1, 3)):
                need = {Cores: min(free[Cores], rng.randint(0, 2)), SDRAM: min(free[SDRAM], rng.randint(0, 9))}
                if k == 2 and rng.random() < 0.5:
                    need = dict(free)             # takes all that is left
                for r in need:
                    free[r] -= need[r]
                v = (xy, k)
                vr[v] = need
                pl[v] = xy
    items = list(pl.items())
    rng.shuffle(items)
    return vr, m, cons, dict(items)


def run(chk):
    rng = random.Random(chk.seed)
    chk.design("AllocateDesign", "AllocateDesign_%s.cfg" % chk.tier,
               expect_actions=("Fail", "Skip", "Grant", "Done"))
    # Apalache (symbolic): IndInv is an inductive invariant of the scan for UNBOUNDED capacity, request sizes,
    # reservation positions and alignment (only the number of reservations / requests is bounded, by 3); the scan's
    # start states satisfy it; and the same invariant is refuted for a scan that grants without re-checking.  Run
    # beside the trace generation (one core each).
    from concurrent.futures import ThreadPoolExecutor
    pool = ThreadPoolExecutor(3)
    apa = [pool.submit(chk.apalache, "AllocateInd", "IndInit", "DNext", "IndInv", 1, cinit="ConstInit",
                       label="inductive step: IndInv /\\ DNext => IndInv' (unbounded Cap, sizes, alignment)"),
           pool.submit(chk.apalache, "AllocateInd", "StartInit", "DNext", "IndInv", 0, cinit="ConstInit",
                       label="base case: every start state of the scan satisfies IndInv"),
           pool.submit(chk.apalache, "AllocateInd", "IndInit", "WrongNext", "IndInv", 1, cinit="ConstInit",
                       expect="Error", label="refuted: a scan that grants without re-checking breaks IndInv")]
    traces = []
    for vr, m, cons, pl in small_layouts(chk, rng):
        t = make_trace(vr, m, cons, pl, "small")
        traces.append(t)
        chk.note_case((t["gres"], t["lres"], t["aligns"], t["reqs"]),
                      nontrivial=bool(t["reqs"]) and bool(t["gres"] or t["lres"]))
    for i in range(chk.pick(3000, 60000)):
        vr, m, cons, pl = random_problem(rng)
        t = make_trace(vr, m, cons, pl, "random")
        traces.append(t)
        chk.note_case((t["caps"], t["gres"], t["lres"], t["aligns"], t["reqs"]), nontrivial=bool(t["reqs"]))
    hrng = random.Random(chk.seed + 5)
    for i in range(chk.pick(600, 12000)):
        vr, m, cons, pl, rb = huge_problem(hrng)
        t = make_trace(vr, m, cons, pl, "huge (positions from %d upwards shifted to 64)" % rb[SDRAM], rebase=rb)
        traces.append(t)
        chk.note_case((rb[SDRAM], t["caps"], t["gres"], t["lres"], t["aligns"], t["reqs"]), nontrivial=bool(t["reqs"]))
    # ---- families added by the coverage audit (see the docstrings of the generators)
    arng = random.Random(chk.seed + 11)
    for i in range(chk.pick(500, 10000)):
        vr, m, cons, pl = comb_problem(arng)
        t = make_trace(vr, m, cons, pl, "comb")
        traces.append(t)
        chk.note_case(("comb", t["caps"], t["gres"], t["lres"], t["aligns"], t["reqs"]), nontrivial=bool(t["reqs"]))
    import sentinel as _sentinel
    tokens = _sentinel.create("Tokens")
    for i in range(chk.pick(500, 10000)):
        extra = arng.choice((None, None, "DTCM", tokens, ("bus", 1)))
        vr, m, cons, pl, nets = mixed_problem(arng, extra)
        t = make_trace(vr, m, cons, pl, "mixed (caller's own vertex objects, constraints of other kinds, subclasses, "
                       "shared requirement dictionaries, nets%s)" % (", resource %r" % (extra,) if extra is not None else ""),
                       nets=nets)
        traces.append(t)
        chk.note_case(("mixed", t["caps"], t["gres"], t["lres"], t["aligns"], t["reqs"]), nontrivial=bool(t["reqs"]))
    nhist = 0
    for i in range(chk.pick(150, 3000)):
        for k, (what, vr, m, cons, pl) in enumerate(history(arng)):
            t = make_trace(vr, m, cons, pl, "history %d call %d (%s, same objects changed in place)" % (i, k, what))
            traces.append(t)
            nhist += 1
            chk.note_case(("history", i, k, t["caps"], t["gres"], t["lres"], t["aligns"], t["reqs"]),
                          nontrivial=bool(t["reqs"]))
    chk.count("history calls", nhist)
    for i in range(chk.pick(2, 20)):
        for kind in ("chip", "machine"):
            vr, m, cons, pl = populous_problem(arng, kind)
            t = make_trace(vr, m, cons, pl, "populous " + kind)
            traces.append(t)
            chk.note_case(("populous", t["gres"], t["lres"], t["reqs"]))
    chk.count("most reservations applying to one (chip, resource) in a trace",
              max(max([sum(1 for g in t["gres"] if g[0] == c[2]) +
                       sum(1 for g in t["lres"] if (g[0], g[1], g[2]) == (c[0], c[1], c[2])) for c in t["caps"]] + [0])
                  for t in traces))
    chk.count("most grants in one trace", max(len(t["ev"]) - 1 for t in traces))
    nraise = sum(1 for t in traces if t["ev"][-1][0] == "raise")
    chk.count("calls that raised", nraise)
    chk.count("calls that returned", len(traces) - nraise)
    chk.rule = ("single-chip layouts (see small_layouts_domain) through the real allocate(), then random multi-chip "
                "machines with per-chip exceptions, 0-3 global/per-chip reservations per resource (half of the problems "
                "with end-only reservations and no alignment so that the completeness clause applies), alignments, "
                "shuffled vertex orders, zero-size requests; then resources counted beyond 2^31 / 2^53 / 2^60 units with the "
                "bottom [0, BASE) reserved (positions travel shifted, see make_trace); then combs of 4-16 reservations / nested "
                "stacks at the ends with alignments up to beyond the capacity, problems with the caller's own vertex objects, "
                "constraints of other kinds, constraint subclasses, shared requirement dictionaries, nets and resource "
                "identifiers, histories of calls on the same objects changed in place, one chip with 40-120 vertices and "
                "machines of 100-190 chips; non-trivial = at least one request (and, for the small "
                "layouts, at least one reservation); distinct = distinct (capacities, reservations, alignments, requests)")
    chk.exhaustive = False
    chk.sample(traces[len(traces) // 7]); chk.sample(traces[-1]); chk.sample(traces[-2])

    def key_of(tr, i, clauses):
        return "%s %s gres=%s lres=%s aligns=%s reqs=%s" % (tr["ev"][i - 1][0], ",".join(clauses), tr["gres"],
                                                           tr["lres"], tr["aligns"], tr["reqs"])

    chk.validate("AllocateTrace", "AllocateTrace.cfg", traces, key_of=key_of, batch=6000)
    for f in apa:
        f.result()                      # an unexpected outcome is a machinery error (raised here)
    chk.extra["apalache_inductive_invariant"] = (
        "AllocateInd.IndInv (TypeOK, one grant per finished request, Sound, every grant below the bump pointer) is "
        "inductive for AllocateScan.DNext with Cap \\in Nat and unbounded sizes / positions / alignment, <= 3 "
        "reservations and requests; IndInv => Sound")
    # beyond the property: what becomes of the allocator's output - sdram_alloc_for_vertices, build_application_map,
    # build_routing_tables - judged against Glue.tla
    from . import glue
    glue.run_beyond(chk)


def selftest(chk):
    m = Machine(1, 1, chip_resources={Cores: 6})
    cons = [ReserveResourceConstraint(Cores, slice(0, 1)), AlignResourceConstraint(Cores, 2)]
    vr = {"a": {Cores: 2}, "b": {Cores: 1}}
    pl = {"a": (0, 0), "b": (0, 0)}
    good = make_trace(vr, m, cons, pl)

    def mut(f):
        t = dict(good); t["ev"] = [list(e) for e in good["ev"]]; f(t["ev"]); return t
    cases = [
        (good, None),
        (mut(lambda ev: ev[0].__setitem__(6, ev[0][6] + 1)), "ExactSize"),
        (mut(lambda ev: ev.__delitem__(1)), "AllGranted"),
        (mut(lambda ev: (ev[1].__setitem__(5, 2), ev[1].__setitem__(6, 3))), "Disjoint"),
        (mut(lambda ev: (ev[0].__setitem__(5, 0), ev[0].__setitem__(6, 2))), "Unreserved"),
        (mut(lambda ev: (ev[1].__setitem__(5, 5), ev[1].__setitem__(6, 6))), "OnAlignment"),
        (mut(lambda ev: (ev[1].__setitem__(5, 6), ev[1].__setitem__(6, 7))), "InRange"),
        (dict(good, ev=[["raise", "KeyError"]]), "OnlyDocumentedError"),
        (dict(good, aligns=[], ev=[["raise", "InsufficientResourceError"]]), "Complete"),
        (dict(good, ev=[["malformed result", "AttributeError: 'tuple' object has no attribute 'step'"]]), "UnknownEvent"),
        (mut(lambda ev: ev[1].__setitem__(1, -1)), "Requested"),        # a vertex the caller never named
    ]
    rej = chk.validate("AllocateTrace", "AllocateTrace.cfg", [c[0] for c in cases])
    got = {id(t): cl for t, _, cl in rej}
    msgs = []
    for tr, want in cases:
        cl = got.get(id(tr))
        if (want is None) != (cl is None) or (want and want not in cl):
            msgs.append("expected %s, got %s" % (want, cl))
    return not msgs, "; ".join(msgs) or "%d corrupted traces rejected with the expected clauses" % (len(cases) - 1)
