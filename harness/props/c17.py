"""C17 - library calls neither modify their arguments nor remember earlier calls.

D: HistoryDesign.tla - a process calling a two-function library on caller-owned objects; every history up to
   MaxCalls calls.  With the rules followed every clause of History.tla and the property itself hold; the
   mechanism clauses are shown sufficient for every combination of mechanism faults; single-fault variants MUST
   violate the clause named in their cfg (non-vacuity), a hidden global violates the result clauses only.
T: one trace = the library calls of ONE freshly started interpreter (this file run as a script), in order; every
   probe call is repeated as the FIRST call of another fresh interpreter.  Each call is one event carrying digests
   of every argument before and after, of the result, of every mutable default argument of rig and of the NER ring
   memo before and after; HistoryTrace.tla judges them.

This file contains no oracle.  It builds arguments, calls rig, and writes down digests of what it saw.  A digest is
the first 12 hex digits of the SHA-1 of a canonical encoding (see enc / strip); whether two digests have to be equal
is decided by the .tla text only.
"""
import os
import sys

if __name__ == "__main__":          # a child interpreter: same path convention as the CLI (rig from RIG_ROOT)
    sys.path.insert(0, os.environ.get("RIG_ROOT", "/repo"))

import collections
import enum
import hashlib
import importlib
import inspect
import json
import random
import subprocess
import types
from concurrent.futures import ThreadPoolExecutor

import rig.place_and_route
from rig import geometry
from rig.bitfield import BitField
from rig.links import Links
from rig.machine_control import boot as rig_boot
from rig.machine_control import scp_connection
from rig.machine_control import machine_controller as mc_module
from rig.machine_control.bmp_controller import BMPController
from rig.machine_control.consts import AppState
from rig.machine_control.machine_controller import MachineController, SystemInfo, ChipInfo
from rig.netlist import Net
from rig.place_and_route import Machine, Cores, SDRAM, SRAM
from rig.place_and_route import constraints as cons_mod
from rig.place_and_route.wrapper import place_and_route_wrapper
from rig.place_and_route.wrapper import wrapper as deprecated_wrapper
from rig.place_and_route.allocate import greedy
from rig.place_and_route.place import sequential, breadth_first, hilbert, rcm, rand, sa
from rig.place_and_route.place.sa.python_kernel import PythonKernel
from rig.place_and_route.route import ner
from rig.place_and_route.routing_tree import RoutingTree
from rig.routing_table import RoutingTableEntry, Routes
from rig.routing_table import minimise as minimise_mod
from rig.routing_table import ordered_covering as oc_mod
from rig.routing_table import remove_default_routes as rdr_mod
from rig.routing_table import utils as rt_utils
from rig.utils.contexts import ContextMixin, Context

try:
    from rig.place_and_route.place.sa.c_kernel import CKernel
except Exception:       # pragma: no cover
    CKernel = None

VERIF = os.path.dirname(os.path.dirname(os.path.dirname(os.path.abspath(__file__))))
RIG_ROOT = os.environ.get("RIG_ROOT", "/repo")


# ====================================================================================== canonical encoding
# enc(obj) -> nested lists, every node a list whose first element is a tag string.  Reversible (dec) for every
# type that travels as an argument; dict order is kept (placers depend on it), sets are sorted (their order
# cannot be observed by equality), Net objects carry a label so that the same object used in several arguments
# (nets list, routes keys, net_keys keys) is the same object again after dec.
# strip(e, sort_dicts) -> the canonical form a digest is taken of: labels removed, children of a RoutingTree sorted,
# dict items sorted when sort_dicts (results: the order of a returned dictionary is not part of the result).
RESOURCES = {"Cores": Cores, "SDRAM": SDRAM, "SRAM": SRAM}
ENUMS = {"Links": Links, "Routes": Routes, "AppState": AppState}
CONS = collections.OrderedDict([
    ("LocationConstraint", ("vertex", "location")),
    ("SameChipConstraint", ("vertices",)),
    ("ReserveResourceConstraint", ("resource", "reservation", "location")),
    ("AlignResourceConstraint", ("resource", "alignment")),
    ("RouteEndpointConstraint", ("vertex", "route")),
])
MACHINE_FIELDS = ("width", "height", "chip_resources", "chip_resource_exceptions", "dead_chips", "dead_links")
NET_FIELDS = ("source", "sinks", "weight")
MAX_DEPTH = 400


class Unencodable(Exception):
    pass


def _key(e):
    return json.dumps(e, separators=(",", ":"))


def _extras(o, declared, memo, depth):
    d = getattr(o, "__dict__", None) or {}
    return [[["s", k], enc(v, memo, depth + 1)] for k, v in sorted(d.items()) if k not in declared]


def enc(o, memo=None, depth=0):
    """memo: id(Net) -> (label, Net), shared by everything that is encoded together"""
    if memo is None:
        memo = {}
    if depth > MAX_DEPTH:
        raise Unencodable("nesting deeper than %d" % MAX_DEPTH)
    d = depth + 1
    if o is None:
        return ["N"]
    if o is True or o is False:
        return ["b", int(o)]
    if isinstance(o, enum.Enum):
        return ["e", type(o).__name__, enc(o.value, memo, d)]
    t = type(o)
    if t is int:
        return ["i", o]
    if t is float:
        return ["f", repr(o)]
    if t is str:
        return ["s", o]
    if t is bytes or t is bytearray:
        return ["y", bytes(o).hex()]
    if t is slice:
        return ["sl", enc(o.start, memo, d), enc(o.stop, memo, d), enc(o.step, memo, d)]
    for name, r in RESOURCES.items():
        if o is r:
            return ["R", name]
    if isinstance(o, Net):
        if id(o) not in memo:
            memo[id(o)] = (len(memo), o)
        return ["Net", memo[id(o)][0], enc(o.source, memo, d), enc(o.sinks, memo, d), enc(o.weight, memo, d),
                _extras(o, NET_FIELDS, memo, d)]
    if isinstance(o, Machine):
        return ["M"] + [enc(getattr(o, f), memo, d) for f in MACHINE_FIELDS] + [_extras(o, MACHINE_FIELDS, memo, d)]
    if isinstance(o, RoutingTree):
        return ["RT", [int(o.chip[0]), int(o.chip[1])],
                [[enc(r, memo, d), enc(c, memo, d)] for r, c in o.children]]
    if isinstance(o, RoutingTableEntry):
        return ["E"] + [enc(x, memo, d) for x in o]
    if isinstance(o, ChipInfo):
        return ["CI"] + [enc(x, memo, d) for x in o]
    if isinstance(o, SystemInfo):
        return ["SI", enc(o.width, memo, d), enc(o.height, memo, d),
                [[enc(k, memo, d), enc(v, memo, d)] for k, v in o.items()]]
    if t.__name__ in CONS and t.__module__ == cons_mod.__name__:
        fields = CONS[t.__name__]
        return ["C", t.__name__, [enc(getattr(o, f), memo, d) for f in fields], _extras(o, fields, memo, d)]
    if isinstance(o, collections.OrderedDict):
        return ["od", [[enc(k, memo, d), enc(v, memo, d)] for k, v in o.items()]]
    if isinstance(o, dict):
        return ["d", [[enc(k, memo, d), enc(v, memo, d)] for k, v in o.items()]]
    if t is list:
        return ["l", [enc(x, memo, d) for x in o]]
    if t is tuple:
        return ["t", [enc(x, memo, d) for x in o]]
    if isinstance(o, tuple) and hasattr(o, "_fields"):
        return ["nt", t.__name__, [enc(x, memo, d) for x in o]]
    if isinstance(o, (set, frozenset)):
        return ["S" if t is set else "F", sorted((enc(x, memo, d) for x in o), key=_key)]
    if isinstance(o, collections.deque):
        return ["dq", [enc(x, memo, d) for x in o]]
    if isinstance(o, (types.FunctionType, types.BuiltinFunctionType, type)):
        return ["fn", o.__module__, o.__qualname__]
    if isinstance(o, random.Random):
        raise Unencodable("random generators travel as seeds")
    # any other object: class name and attributes (never its repr, which may contain an address)
    attrs = {}
    if hasattr(o, "__dict__"):
        attrs.update(vars(o))
    for cls in t.__mro__:
        for s in getattr(cls, "__slots__", ()):
            if hasattr(o, s):
                attrs[s] = getattr(o, s)
    if not attrs and not hasattr(o, "__dict__") and not hasattr(t, "__slots__"):
        raise Unencodable("cannot encode a %s" % t.__name__)
    return ["obj", t.__module__, t.__name__, [[["s", k], enc(v, memo, d)] for k, v in sorted(attrs.items())]]


def dec(e, memo=None):
    """memo: label -> Net"""
    if memo is None:
        memo = {}
    tag = e[0]
    if tag == "N":
        return None
    if tag == "b":
        return bool(e[1])
    if tag == "e":
        return ENUMS[e[1]](dec(e[2], memo))
    if tag == "i":
        return e[1]
    if tag == "f":
        return float(e[1])
    if tag == "s":
        return e[1]
    if tag == "y":
        return bytes.fromhex(e[1])
    if tag == "sl":
        return slice(dec(e[1], memo), dec(e[2], memo), dec(e[3], memo))
    if tag == "R":
        return RESOURCES[e[1]]
    if tag == "Net":
        if e[1] not in memo:
            memo[e[1]] = Net(dec(e[2], memo), dec(e[3], memo), dec(e[4], memo))
        return memo[e[1]]
    if tag == "M":
        w, h, res, exc, dc, dl = (dec(x, memo) for x in e[1:7])
        return Machine(w, h, res, exc, dc, dl)
    if tag == "RT":
        return RoutingTree((e[1][0], e[1][1]), [(dec(r, memo), dec(c, memo)) for r, c in e[2]])
    if tag == "E":
        return RoutingTableEntry(*[dec(x, memo) for x in e[1:]])
    if tag == "CI":
        return ChipInfo(*[dec(x, memo) for x in e[1:]])
    if tag == "SI":
        return SystemInfo(dec(e[1], memo), dec(e[2], memo), [(dec(k, memo), dec(v, memo)) for k, v in e[3]])
    if tag == "C":
        return getattr(cons_mod, e[1])(*[dec(x, memo) for x in e[2]])
    if tag == "od":
        return collections.OrderedDict((dec(k, memo), dec(v, memo)) for k, v in e[1])
    if tag == "d":
        return dict((dec(k, memo), dec(v, memo)) for k, v in e[1])
    if tag == "l":
        return [dec(x, memo) for x in e[1]]
    if tag == "t":
        return tuple(dec(x, memo) for x in e[1])
    if tag == "S":
        return set(dec(x, memo) for x in e[1])
    if tag == "F":
        return frozenset(dec(x, memo) for x in e[1])
    if tag == "fn":
        o = importlib.import_module(e[1])
        for part in e[2].split("."):
            o = getattr(o, part)
        return o
    raise Unencodable("cannot decode %r" % (tag,))


def strip(e, sort_dicts):
    if not isinstance(e, list):
        return e
    if not e or not isinstance(e[0], str):
        return [strip(x, sort_dicts) for x in e]
    tag = e[0]
    if tag == "s" or tag == "y" or tag == "f" or tag == "fn":       # payloads are strings, not tags
        return e
    if tag == "Net":
        return ["Net"] + [strip(x, sort_dicts) for x in e[2:]]
    if tag == "d":
        items = [strip(x, sort_dicts) for x in e[1]]
        return ["d", sorted(items, key=_key) if sort_dicts else items]
    if tag == "RT":
        return ["RT", e[1], sorted((strip(x, sort_dicts) for x in e[2]), key=_key)]
    if tag == "e" or tag == "nt" or tag == "C":
        return [tag, e[1]] + [strip(x, sort_dicts) for x in e[2:]]
    if tag == "obj":
        return [tag, e[1], e[2], strip(e[3], sort_dicts)]
    if tag == "R":
        return e
    return [tag] + [strip(x, sort_dicts) for x in e[1:]]


def digest_enc(e, sort_dicts):
    return hashlib.sha1(_key(strip(e, sort_dicts)).encode()).hexdigest()[:12]


def digest_arg(o):
    """digest of an argument / default / memo entry: dictionary order counts"""
    try:
        return digest_enc(enc(o), False)
    except (Unencodable, RecursionError) as ex:
        return "?" + type(ex).__name__


def digest_result(o):
    """digest of a result: dictionary order does not count"""
    return digest_enc(enc(o), True)


def copy_value(o):
    """a structurally equal copy that shares nothing with o except Net objects (they are identities)"""
    memo = {}
    e = enc(o, memo)
    return dec(e, {label: net for label, net in memo.values()})


def reachable_ids(objs):
    """ids of every container reachable from objs (the arguments of a call)"""
    seen = set()
    todo = list(objs)
    while todo:
        o = todo.pop()
        if id(o) in seen or isinstance(o, (int, float, str, bytes, type(None), enum.Enum)):
            continue
        seen.add(id(o))
        if isinstance(o, dict):
            todo.extend(o.keys())
            todo.extend(o.values())
        elif isinstance(o, (list, tuple, set, frozenset)):
            todo.extend(o)
        elif isinstance(o, RoutingTree):
            todo.append(o.children)
        elif hasattr(o, "__dict__"):
            todo.extend(vars(o).values())
    return seen


def scribble(o, protected=frozenset(), depth=0):
    """what a caller may do with a result it was given: write all over it.  Objects the caller passed in itself
    (a minimiser may return the very table it was given) are left alone: writing on them says nothing about rig."""
    if depth > 6 or id(o) in protected:
        return
    if isinstance(o, dict):
        for v in list(o.values()):
            scribble(v, protected, depth + 1)
        o.clear()
        try:
            o["scribbled"] = {"scribbled": 1}
        except Exception:
            pass
    elif isinstance(o, list):
        for v in o:
            scribble(v, protected, depth + 1)
        del o[:]
        o.append("scribbled")
    elif isinstance(o, set):
        o.clear()
        o.add("scribbled")
    elif isinstance(o, tuple):
        # a returned pair (table, aliases) is two results; tuples further down are values (routing table entries,
        # coordinates): they may legitimately be shared with the arguments and no caller can write on them
        if depth == 0 and not hasattr(o, "_fields"):
            for v in o:
                scribble(v, protected, depth + 1)
    elif isinstance(o, Machine):
        o.chip_resources[Cores] = 1
        o.chip_resources["scribbled"] = 7
        o.chip_resource_exceptions[(0, 0)] = {Cores: 0}
        o.dead_chips.add((0, 0))
        o.dead_links.add((0, 0, Links.east))
    elif isinstance(o, RoutingTree):
        for _, c in list(o.children):
            scribble(c, protected, depth + 1)
        del o.children[:]
    elif isinstance(o, (int, float, str, bytes, type(None), enum.Enum)):
        pass
    elif hasattr(o, "__dict__"):
        for v in list(vars(o).values()):
            scribble(v, protected, depth + 1)


# ====================================================================================== what a process can remember
def _functions_of(mod):
    """every function object defined in module mod: module level, methods, nested classes, decorated originals"""
    seen = set()

    def unwrap(f, name):
        while f is not None:
            f = getattr(f, "__func__", f)
            if isinstance(f, property):
                f = f.fget
                continue
            if isinstance(f, types.FunctionType) and id(f) not in seen:
                seen.add(id(f))
                yield name, f
            f = getattr(f, "__wrapped__", None)

    def walk(ns, prefix, depth):
        for k, v in sorted(ns.items(), key=lambda kv: kv[0]):
            if isinstance(v, type):
                if v.__module__ == mod.__name__ and depth < 4:
                    for x in walk(vars(v), prefix + k + ".", depth + 1):
                        yield x
            elif isinstance(v, (types.FunctionType, staticmethod, classmethod, property)) or hasattr(v, "__wrapped__"):
                for name, f in unwrap(v, prefix + k):
                    if f.__module__ == mod.__name__:
                        yield name, f
    return walk(vars(mod), "", 0)


def mutable_default_registry():
    """[(name, function, 'pos' index | 'kw' key)] for every dict / set / list default argument of every function
    of every rig module imported into this interpreter (all children import the same modules)"""
    reg = []
    for mname in sorted(sys.modules):
        mod = sys.modules[mname]
        if mod is None or not (mname == "rig" or mname.startswith("rig.")) or ".tests" in mname:
            continue
        for qual, f in _functions_of(mod):
            code = f.__code__
            names = code.co_varnames[:code.co_argcount]
            dflt = f.__defaults__ or ()
            for i, v in enumerate(dflt):
                if isinstance(v, (dict, set, list)):
                    reg.append(("%s.%s(%s)" % (mname[4:] if mname != "rig" else "rig", qual,
                                               names[len(names) - len(dflt) + i]), f, "pos", i))
            for k, v in sorted((f.__kwdefaults__ or {}).items()):
                if isinstance(v, (dict, set, list)):
                    reg.append(("%s.%s(%s)" % (mname[4:], qual, k), f, "kw", k))
    return reg


REGISTRY = None


def defaults_snapshot():
    global REGISTRY
    if REGISTRY is None:
        REGISTRY = mutable_default_registry()
    out = []
    for name, f, kind, k in REGISTRY:
        try:
            v = f.__defaults__[k] if kind == "pos" else f.__kwdefaults__[k]
        except Exception:
            v = "default argument gone"
        out.append([name, digest_arg(v)])
    return out


_IMMUTABLE_DIGESTS = {}      # id(tuple of tuples of ints) -> (the tuple, its digest): such a value cannot change
_RING_DIGESTS = {}


def _entry_digest(v):
    hit = _IMMUTABLE_DIGESTS.get(id(v))
    if hit is not None and hit[0] is v:
        return hit[1]
    dg = digest_arg(v)
    if type(v) is tuple and all(type(c) is tuple and all(type(i) is int for i in c) for c in v):
        _IMMUTABLE_DIGESTS[id(v)] = (v, dg)
    return dg


def _memo():
    """the router's memo of hexagon rings, if this version of rig keeps one under that name (observed, never relied on)"""
    m = getattr(ner, "_concentric_hexagons", None)
    return m if isinstance(m, dict) else {}


def cache_snapshot():
    return [[int(r), _entry_digest(v)] for r, v in sorted(_memo().items())]


def ring_snapshot():
    """for every radius in the memo, the ring of that radius computed afresh (as the memo stores it: a tuple);
    computed once per radius and process by the library's own generator, never read from the memo"""
    out = []
    for r in sorted(_memo()):
        if r not in _RING_DIGESTS:
            _RING_DIGESTS[r] = digest_arg(tuple(geometry.concentric_hexagons(r)))
        out.append([int(r), _RING_DIGESTS[r]])
    return out


# ====================================================================================== environment (fakes)
class VirtualClock(object):
    """stands in for the `time` module: every call of boot() starts at the same instant, nothing waits"""

    def __init__(self, start=1500000000.0):
        self.now = start

    def time(self):
        self.now += 0.001
        return self.now

    def sleep(self, seconds):
        self.now += seconds


class FakeSocket(object):
    def __init__(self, log):
        self.log, self.addr = log, None

    def connect(self, addr):
        self.addr = addr
        self.log.append(["connect", addr[0], addr[1]])

    def send(self, data):
        self.log.append(["send", bytes(data).hex()])
        return len(data)

    def recv(self, n):
        raise IOError("the board is silent")

    def close(self):
        pass

    def settimeout(self, t):
        pass

    def setblocking(self, b):
        pass

    def setsockopt(self, *a):
        pass

    def fileno(self):
        return -1


class FakeSocketModule(object):
    AF_INET, SOCK_DGRAM, SOL_SOCKET, SO_REUSEADDR = 2, 2, 1, 2
    error = IOError
    timeout = IOError

    def __init__(self):
        self.log = []

    def socket(self, *args):
        return FakeSocket(self.log)


def install_fakes():
    """no socket is ever opened, no call ever waits"""
    fs = FakeSocketModule()
    rig_boot.socket = fs
    scp_connection.socket = fs
    if hasattr(mc_module, "socket"):
        mc_module.socket = fs
    return fs


# ====================================================================================== sessions on rig objects
# A session is a little program on ONE freshly made rig object; it is "called" like a library function (plain data
# in, plain data out) so that sessions on objects made one after another are judged like any other call.
def _outcome(f):
    try:
        return f()
    except Exception as ex:
        return "!" + type(ex).__name__


# A caller may keep one set object of tag names and hand the very same object to many add_field() calls on
# different bit fields: the callee must neither alias nor modify it.
_TAG_SETS = {}


def _tagset(tg):
    key = tuple(tg)
    if key not in _TAG_SETS:
        _TAG_SETS[key] = set(tg)
    return _TAG_SETS[key]


def session_bitfield(length, prog):
    root = BitField(length)
    handles = collections.OrderedDict([((), root)])
    names, tags, out = [], [], []
    for op in prog:
        scope = tuple(sorted((k, v) for k, v in op[1]))
        h = handles.get(scope)
        if h is None:
            out.append("no such bit field")
            continue
        if op[0] == "add":
            _, _, name, ln, start, tg = op
            if name not in names:
                names.append(name)
            for t in tg or []:
                if t not in tags:
                    tags.append(t)
            tg_arg = _tagset(tg) if (tg and (start is None or ln is not None)) else tg
            out.append(_outcome(lambda: h.add_field(name, length=ln, start_at=start, tags=tg_arg) or "ok"))
            for key, st in sorted(_TAG_SETS.items()):
                if st != set(key):
                    out.append("caller's tag set %s modified: now %s" % (list(key), sorted(st)))
        elif op[0] == "derive":
            new = dict((k, v) for k, v in op[2])
            try:
                h2 = h(**new)
            except Exception as ex:
                out.append("!" + type(ex).__name__)
                continue
            merged = dict(scope)
            merged.update(new)
            handles.setdefault(tuple(sorted(merged.items())), h2)
            out.append("ok")
        elif op[0] == "assign":
            out.append(_outcome(lambda: h.assign_fields() or "ok"))
    report = []
    for scope, h in handles.items():
        row = [list(map(list, scope)), _outcome(h.get_value), _outcome(h.get_mask)]
        for n in names:
            row.append([n, _outcome(lambda: h.get_value(field=n)), _outcome(lambda: h.get_mask(field=n)),
                        _outcome(lambda: sorted(h.get_tags(n))), _outcome(lambda: list(h.get_location_and_length(n)))])
        for t in tags:
            row.append([t, _outcome(lambda: h.get_value(tag=t)), _outcome(lambda: h.get_mask(tag=t))])
        report.append(row)
    return [out, report]


def _context_script(obj, new_context, script):
    out, stack = [], []
    view = lambda: sorted(obj.get_context_arguments().items())
    out.append(view())
    for op in script:
        if op[0] == "update":
            obj.update_current_context(**dict(op[1]))
        elif op[0] == "push":
            c = new_context(**dict(op[1]))
            c.__enter__()
            stack.append(c)
        elif op[0] == "pop" and stack:
            stack.pop().__exit__(None, None, None)
        out.append(view())
    return out


def session_context_mixin(initial_context, script):
    """initial_context None: rely on the default argument"""
    obj = ContextMixin() if initial_context is None else ContextMixin(initial_context)
    return _context_script(obj, obj.get_new_context, script)


def session_context(context_arguments, updates):
    c = Context(context_arguments)
    out = [sorted(c.context_arguments.items())]
    for u in updates:
        c.update(dict(u))
        out.append(sorted(c.context_arguments.items()))
    return out


def _controller_view(mc, fs):
    conns = []
    for k, c in sorted(mc.connections.items(), key=lambda kv: repr(kv[0])):
        conns.append([repr(k), list(c.sock.addr) if c.sock.addr else [], c.default_timeout, c.n_tries])
    return dict(ctx=sorted(mc.get_context_arguments().items()), host=repr(getattr(mc, "initial_host", None)),
                scp_port=getattr(mc, "scp_port", None), boot_port=getattr(mc, "boot_port", None),
                n_tries=mc.n_tries, timeout=mc.timeout, conns=conns, structs=digest_arg(getattr(mc, "structs", None)))


def _controller_session(mc, fs, script):
    out, stack = [_controller_view(mc, fs)], []
    for op in script:
        if op[0] == "update":
            mc.update_current_context(**dict(op[1]))
        elif op[0] == "push":
            c = mc(**dict(op[1]))
            c.__enter__()
            stack.append(c)
        elif op[0] == "pop" and stack:
            stack.pop().__exit__(None, None, None)
        elif op[0] == "scribble_structs" and hasattr(mc, "structs"):
            scribble(mc.structs)
            continue
        out.append(_controller_view(mc, fs))
    return out


def session_controller(initial_host, kwargs, script):
    fs = install_fakes()
    mc = MachineController(initial_host, **kwargs)
    return [_controller_session(mc, fs, script), fs.log]


def session_bmp(hosts, kwargs, script):
    fs = install_fakes()
    bc = BMPController(hosts, **kwargs)
    out, stack = [], []
    view = lambda: dict(ctx=sorted(bc.get_context_arguments().items()), n_tries=bc.n_tries, timeout=bc.timeout,
                        conns=sorted(repr(k) for k in bc.connections))
    out.append(view())
    for op in script:
        if op[0] == "update":
            bc.update_current_context(**dict(op[1]))
        elif op[0] == "push":
            c = bc(**dict(op[1]))
            c.__enter__()
            stack.append(c)
        elif op[0] == "pop" and stack:
            stack.pop().__exit__(None, None, None)
        out.append(view())
    return [out, fs.log]


def session_boot(hostname, sv_overrides, kwargs, via):
    """one boot with the network and the clock replaced; what was put on the wire and the structs returned.
    sv_overrides None: rely on the default argument"""
    fs = install_fakes()
    clock = VirtualClock()
    rig_boot.time = clock
    mc_module.time = clock
    scp_connection.time = clock
    kw = dict(kwargs)
    if sv_overrides is not None:
        kw["sv_overrides"] = sv_overrides
    if via == "boot":
        structs = rig_boot.boot(hostname, **kw)
    else:
        mc = MachineController(hostname)
        mc.boot(only_if_needed=False, check_booted=False, **kw)
        structs = mc.structs
    return [fs.log, digest_arg(structs)]


FUNCS = {
    "place.sequential": sequential.place,
    "place.breadth_first": breadth_first.place,
    "place.hilbert": hilbert.place,
    "place.rcm": rcm.place,
    "place.rand": rand.place,
    "place.sa": sa.place,
    "place": rig.place_and_route.place,
    "allocate": rig.place_and_route.allocate,
    "allocate.greedy": greedy.allocate,
    "route": rig.place_and_route.route,
    "route.ner": ner.route,
    "ner.memoized_concentric_hexagons": ner.memoized_concentric_hexagons,
    "routing_tree_to_tables": rt_utils.routing_tree_to_tables,
    "remove_default_routes.minimise": rdr_mod.minimise,
    "ordered_covering.minimise": oc_mod.minimise,
    "ordered_covering.ordered_covering": oc_mod.ordered_covering,
    "minimise_table": minimise_mod.minimise_table,
    "minimise_tables": minimise_mod.minimise_tables,
    "place_and_route_wrapper": place_and_route_wrapper,
    "wrapper": deprecated_wrapper,
    "Machine": Machine,
    "Machine.copy": Machine.copy,
    "BitField session": session_bitfield,
    "ContextMixin session": session_context_mixin,
    "Context session": session_context,
    "MachineController session": session_controller,
    "BMPController session": session_bmp,
    "boot": session_boot,
}
KERNELS = {"python": PythonKernel, "c": CKernel}


# ====================================================================================== one call, one event
def invoke(fn, pos, kw, seed, rng_kw, kernel, position=0):
    """pos / kw: lists of (parameter name, object).  Returns (event record, result object or None, the arguments
    as they were before the call in shippable form).

    The generator a function is GIVEN (rng_kw) is seeded with `seed`.  The module-level generator, which functions
    without such a parameter draw from (tie-breaks of the router, the default placer), is seeded with `seed` too -
    except when the call is given its own generator: then the module-level one is put into a state that depends on
    where in the history the call is made (position; 0 = first call of a fresh interpreter), because a function that
    is given a generator has no business with the other one."""
    memo = {}
    before = [[n, enc(o, memo)] for n, o in pos] + [[n, enc(o, memo)] for n, o in kw]
    dbefore = [digest_enc(e, False) for _, e in before]
    defs0, cache0 = defaults_snapshot(), cache_snapshot()
    kwargs = dict(kw)
    if rng_kw:
        kwargs[rng_kw] = random.Random(seed)
    if kernel:
        kwargs["kernel"] = KERNELS[kernel]
    random.seed(seed if not rng_kw else 7919 * seed + position)
    result, raised = None, None
    try:
        result = FUNCS[fn](*[o for _, o in pos], **kwargs)
    except Exception as ex:
        raised = type(ex).__name__
    res = digest_result(result) if raised is None else "!" + raised
    after = [digest_arg(o) for _, o in pos] + [digest_arg(o) for _, o in kw]
    defs1, cache1 = defaults_snapshot(), cache_snapshot()
    rec = dict(fn=fn + ("[%s]" % kernel if kernel else ""), seed=seed,
               args=[[b[0], d0, d1] for b, d0, d1 in zip(before, dbefore, after)],
               res=res,
               defs=[[a[0], a[1], b[1]] for a, b in zip(defs0, defs1)],
               cbefore=cache0, cafter=cache1, cring=ring_snapshot())
    ship = dict(fn=fn, seed=seed, rng=rng_kw, kernel=kernel, pos=before[:len(pos)], kw=before[len(pos):])
    return rec, result, ship


def check_interpreter():
    assert os.path.abspath(rig.__file__).startswith(os.path.abspath(RIG_ROOT)), rig.__file__
    assert os.environ.get("PYTHONHASHSEED") == "0", "children must run with PYTHONHASHSEED=0"


def _ed(slotname, path, op, **kw):
    return dict(edit=dict(slot=slotname, path=path, op=op, **kw))


def apply_edit(env, e, memo):
    """child side: the caller writes on its own object"""
    if e["slot"] not in env:
        return              # a result the caller meant to extend was never returned (the call raised)
    o = env[e["slot"]]
    for kind, k in e["path"]:
        if kind == "attr":
            o = getattr(o, k)
        elif kind == "index":
            o = o[k]
        else:
            o = o[dec(k, memo)]
    v = dec(e["value"]["lit"], memo) if "value" in e else None
    op = e["op"]
    if op == "update":
        o.update(v)
    elif op == "difference_update":
        o.difference_update(v)
    elif op == "append":
        o.append(v)
    elif op == "extend":
        o.extend(v)
    elif op == "pop":
        o.pop()
    elif op == "setitem":
        o[dec(e["key"]["lit"], memo)] = v
    elif op == "delitem":
        del o[dec(e["key"]["lit"], memo)]
    elif op == "setattr":
        setattr(o, e["name"], v)
    else:
        raise ValueError(op)



def child_history(job):
    """slots: [[name, enc]], encoded together.  steps: see make_step.  One event per executed step; a step
    {"edit": ...} is the caller writing on one of its own objects between two calls (no event)."""
    memo = {}
    env = {}
    for name, e in job["slots"]:
        env[name] = dec(e, memo)
    events = []
    for step in job["steps"]:
        if "edit" in step:
            apply_edit(env, step["edit"], memo)      # on given objects only: they are always there
            continue

        def resolve(a):
            if "lit" in a:
                return dec(a["lit"], memo)
            o = env[a["slot"]]
            if "item" in a:
                if isinstance(o, dict):
                    keys = sorted(o, key=lambda k: _key(enc(k)))
                    o = o[keys[a["item"] % len(keys)]]
                else:
                    o = o[a["item"] % len(o)]
            return o
        try:
            pos = [(n, resolve(a)) for n, a in step["pos"]]
            kw = [(n, resolve(a)) for n, a in step["kw"]]
        except (KeyError, ZeroDivisionError, IndexError, TypeError):
            continue                # an argument this step needs was never produced (an earlier call raised)
        rec, result, ship = invoke(step["fn"], pos, kw, step["seed"], step.get("rng"), step.get("kernel"),
                                   position=len(events) + 1)
        ev = dict(kind="probe" if step.get("probe") else "call", rec=rec, label=step.get("label", ""))
        if step.get("probe"):
            try:
                # can the arguments be rebuilt elsewhere?  (not if an earlier call left one of rig's internal
                # objects in them - which the ArgsUnchanged clause of that earlier call is there to catch)
                m2 = {}
                for _, e in ship["pos"] + ship["kw"]:
                    dec(e, m2)
                ev["ship"] = ship
            except Unencodable:
                ev["kind"] = "call"
                ev["not_probed"] = True
        events.append(ev)
        if result is not None or not rec["res"].startswith("!"):
            keep = result
            if step.get("scribble"):
                try:
                    keep = copy_value(result)
                except Unencodable:
                    keep = None
                scribble(result, reachable_ids([o for _, o in pos] + [o for _, o in kw]))
            for slot, item in step.get("store", []):
                if keep is not None:
                    env[slot] = keep if item is None else keep[item]
    return dict(events=events)


def child_fresh(job):
    memo = {}
    pos = [(n, dec(e, memo)) for n, e in job["pos"]]
    kw = [(n, dec(e, memo)) for n, e in job["kw"]]
    rec, _, _ = invoke(job["fn"], pos, kw, job["seed"], job.get("rng"), job.get("kernel"))
    return dict(rec=rec)


def child_main():
    check_interpreter()
    job = json.load(sys.stdin)
    out = child_history(job) if job["mode"] == "history" else child_fresh(job)
    json.dump(out, sys.stdout, separators=(",", ":"))


if __name__ == "__main__":
    child_main()
    sys.exit(0)


# ##########################################################################################################
# everything below runs in the harness process only (it never calls a library function other than
# constructors of argument objects)
# ##########################################################################################################
from ..core import MachineryError, NCPU       # noqa: E402


def run_child(job):
    env = dict(os.environ, PYTHONHASHSEED="0", RIG_ROOT=RIG_ROOT,
               OPENBLAS_NUM_THREADS="1", OMP_NUM_THREADS="1", MKL_NUM_THREADS="1")    # numpy: no thread pool per child
    p = subprocess.run([sys.executable, "-W", "ignore", "-m", "harness.props.c17"], cwd=VERIF, env=env,
                       input=json.dumps(job, separators=(",", ":")).encode(), stdout=subprocess.PIPE,
                       stderr=subprocess.PIPE, timeout=900)
    if p.returncode != 0:
        raise MachineryError("child interpreter failed (%s): %s" % (job.get("label", job["mode"]),
                                                                    p.stderr.decode()[-1500:]))
    return json.loads(p.stdout.decode())


def run_children(jobs):
    with ThreadPoolExecutor(max_workers=NCPU) as pool:
        return list(pool.map(run_child, jobs))


# ---------------------------------------------------------------------------------- building histories
def lit(o, memo):
    return {"lit": enc(o, memo)}


def slot(name, item=None):
    return {"slot": name} if item is None else {"slot": name, "item": item}


def make_step(fn, pos, kw=(), seed=0, rng=None, kernel=None, store=(), scribble=False, probe=False, label=""):
    return dict(fn=fn, pos=[list(p) for p in pos], kw=[list(k) for k in kw], seed=seed, rng=rng, kernel=kernel,
                store=[list(s) for s in store], scribble=scribble, probe=probe, label=label or fn)


class Builder(object):
    """one history: given argument objects (slots) and steps"""

    def __init__(self, rng, label):
        self.rng, self.label = rng, label
        self.memo = {}
        self.slots = []
        self.objs = {}          # the given objects themselves (harness side: to plan the caller's edits)
        self.steps = []
        self.safe = []          # generators of steps that need nothing an earlier call has to produce
        self.any = []           # generators of steps that may need results of earlier calls
        self.chains = []        # generators of several steps feeding one another

    def give(self, name, o):
        self.slots.append([name, enc(o, self.memo)])
        self.objs[name] = o
        return name

    def lit(self, o):
        return lit(o, self.memo)

    def job(self):
        return dict(mode="history", label=self.label, slots=self.slots, steps=self.steps)


def pr_args(p):
    return [("vertices_resources", slot(p + ".vr")), ("nets", slot(p + ".nets")), ("machine", slot(p + ".machine")),
            ("constraints", slot(p + ".cons"))]


def add_placers(b, p, vr, machine, into_safe=True, sa_ok=True):
    """step generators for every placer on problem p"""
    rng = b.rng
    order = list(vr)
    rng.shuffle(order)
    corder = list(machine)
    rng.shuffle(corder)
    b.give(p + ".vorder", order)
    b.give(p + ".corder", corder)
    store = [(p + ".placements", None)]
    a = pr_args(p)
    gens = [
        lambda s: make_step("place.sequential", a, seed=s, store=store),
        lambda s: make_step("place.sequential", a, [("vertex_order", slot(p + ".vorder")),
                                                    ("chip_order", slot(p + ".corder"))], seed=s, store=store),
        lambda s: make_step("place.breadth_first", a, seed=s, store=store),
        lambda s: make_step("place.breadth_first", a, [("chip_order", slot(p + ".corder"))], seed=s, store=store),
        lambda s: make_step("place.hilbert", a, seed=s, store=store),
        lambda s: make_step("place.hilbert", a, [("breadth_first", b.lit(False))], seed=s, store=store),
        lambda s: make_step("place.rcm", a, seed=s, store=store),
        lambda s: make_step("place.rand", a, seed=s, rng="random", store=store),
    ]
    if sa_ok:
        gens += [
            lambda s: make_step("place.sa", a, [("effort", b.lit(0.0))], seed=s, rng="random", kernel="python",
                                store=store),
            lambda s: make_step("place.sa", a, [("effort", b.lit(0.1))], seed=s, rng="random", kernel="python",
                                store=store),
            lambda s: make_step("place", a, [("effort", b.lit(0.1))], seed=s, store=store),   # all defaults
        ]
        if CKernel is not None:
            gens.append(lambda s: make_step("place.sa", a, [("effort", b.lit(0.1))], seed=s, rng="random",
                                            kernel="c", store=store))
    (b.safe if into_safe else b.any).extend(gens)
    return gens


def add_placement_problem(b, idx, chk, problem=None):
    """a problem in the style of C02: constraints of every kind, no placement given"""
    from . import c02
    p = "q%d" % idx
    vr, nets, m, cons = problem if problem is not None else c02.gen_problem(b.rng, b.rng.random() < 0.4, chk)
    b.give(p + ".vr", vr)
    b.give(p + ".nets", nets)
    b.give(p + ".machine", m)
    b.give(p + ".cons", cons)
    b.give(p + ".net_keys", {n: (i << 4, 0xfffffff0) for i, n in enumerate(nets)})
    placers = add_placers(b, p, vr, m)
    a = pr_args(p)
    # allocation, routing and table generation of whatever the latest successful placer of this history returned
    alloc = lambda s: make_step("allocate", a + [("placements", slot(p + ".placements"))], seed=s,
                                store=[(p + ".allocations", None)])
    route = lambda s: make_step("route", a + [("placements", slot(p + ".placements")),
                                              ("allocations", slot(p + ".allocations"))], seed=s,
                                store=[(p + ".routes", None)])
    tables = lambda s: make_step("routing_tree_to_tables", [("routes", slot(p + ".routes")),
                                                            ("net_keys", slot(p + ".net_keys"))], seed=s,
                                 store=[(p + ".tables", None)])
    b.any += [alloc, route, tables,
              lambda s: make_step("route", a + [("placements", slot(p + ".placements"))], seed=s,
                                  store=[(p + ".routes", None)])]
    b.chains.append(lambda s: [b.rng.choice(placers)(s), alloc(s), route(s), tables(s)])
    return p


def system_info_of(machine, rng):
    chips = {}
    for xy in machine:
        n = int(machine[xy].get(Cores, 18))
        links = set(l for l in Links if (xy[0], xy[1], l) in machine)
        states = [AppState.run] + [AppState.idle] * max(0, n - 1)
        if n > 3 and rng.random() < 0.2:
            states[rng.randrange(1, n)] = AppState.run          # a core already in use
        chips[xy] = ChipInfo(num_cores=n, core_states=states, working_links=links,
                             largest_free_sdram_block=int(machine[xy].get(SDRAM, 1 << 20)),
                             largest_free_sram_block=int(machine[xy].get(SRAM, 1 << 14)),
                             largest_free_rtr_mc_block=rng.choice((1023, 1023, 40)),
                             ethernet_up=(xy == (0, 0)), ip_address="10.0.0.1", local_ethernet_chip=(0, 0))
    return SystemInfo(machine.width, machine.height, chips)


def add_routing_problem(b, idx, chk, machine=None, nnets=None):
    """a problem in the style of C03: machine with faults, nets, a given (random) placement and allocation"""
    from .. import gen
    from . import c03
    rng = b.rng
    p = "p%d" % idx
    m = machine if machine is not None else gen.random_machine(
        rng, maxw=chk.pick(6, 9), maxh=chk.pick(6, 9), p_dead_chip=rng.choice((0, 0.05, 0.1)),
        resources={Cores: 18, SDRAM: 128, SRAM: 32})
    vertices, placements, allocations, endpoints, nets = c03.random_problem(
        rng, m, nnets if nnets is not None else rng.randint(1, 4))
    vr = collections.OrderedDict()
    for v in vertices:
        sl = allocations.get(v, {}).get(Cores)
        vr[v] = {Cores: sl.stop - sl.start} if sl is not None else {}
        if SDRAM in allocations.get(v, {}):
            vr[v][SDRAM] = 4
    vr = dict(vr)
    cons = [cons_mod.RouteEndpointConstraint(v, r) for v, r in endpoints.items()]
    if rng.random() < 0.5:
        cons.append(cons_mod.ReserveResourceConstraint(Cores, slice(0, 1)))
    net_keys = {n: (i << 6, 0xffffffc0) for i, n in enumerate(nets)}
    b.give(p + ".vr", vr)
    b.give(p + ".nets", nets)
    b.give(p + ".machine", m)
    b.give(p + ".cons", cons)
    b.give(p + ".given_placements", placements)
    b.give(p + ".given_allocations", allocations)
    b.give(p + ".net_keys", net_keys)
    a = pr_args(p)
    placers = add_placers(b, p, vr, m, sa_ok=len(vr) <= 16)
    allocs, routes = {}, {}
    for which, pl, al in (("given", p + ".given_placements", p + ".given_allocations"),
                          ("latest", p + ".placements", p + ".allocations")):
        allocs[which] = lambda s, pl=pl: make_step("allocate", a + [("placements", slot(pl))], seed=s,
                                                   store=[(p + ".allocations", None)])
        routes[which] = []
        for radius in (0, 1, 2, 5, 20):
            routes[which].append(lambda s, pl=pl, al=al, radius=radius: make_step(
                "route", a + [("placements", slot(pl)), ("allocations", slot(al)), ("core_resource", b.lit(Cores)),
                              ("radius", b.lit(radius))], seed=s, store=[(p + ".routes", None)]))
        # every optional argument left to its default (allocations={} is a mutable default)
        routes[which].append(lambda s, pl=pl: make_step("route.ner", a + [("placements", slot(pl))], seed=s,
                                                        store=[(p + ".routes", None)]))
        routes[which].append(lambda s, pl=pl, al=al: make_step("route", a + [("placements", slot(pl))],
                                                               [("allocations", slot(al))], seed=s,
                                                               store=[(p + ".routes", None)]))
    b.safe += [allocs["given"]] + routes["given"]
    b.any += [allocs["latest"]] + routes["latest"]
    b.any.append(lambda s: make_step("routing_tree_to_tables", [("routes", slot(p + ".routes")),
                                                                ("net_keys", slot(p + ".net_keys"))], seed=s,
                                     store=[(p + ".tables", None)]))
    tables = b.any[-1]
    mins = []
    for tgt in (None, 0, 2, 1000):
        mins.append(lambda s, tgt=tgt: make_step("minimise_tables", [("routing_tables", slot(p + ".tables")),
                                                                     ("target_lengths", b.lit(tgt))], seed=s))
    for fn in ("minimise_table", "ordered_covering.minimise", "remove_default_routes.minimise"):
        for tgt in (None, 1):
            mins.append(lambda s, fn=fn, tgt=tgt: make_step(
                fn, [("table", slot(p + ".tables", rng.randrange(1000))), ("target_length", b.lit(tgt))], seed=s))
    b.any += mins
    b.chains.append(lambda s: [rng.choice(routes["given"])(s), tables(s), rng.choice(mins)(s), rng.choice(mins)(s)])
    b.chains.append(lambda s: [rng.choice(placers)(s), allocs["latest"](s), rng.choice(routes["latest"])(s), tables(s),
                               rng.choice(mins)(s)])
    if rng.random() < 0.5 and len(vr) <= 16:
        # the whole pipeline through the wrapper, every optional argument left to its default
        b.give(p + ".apps", {v: "app%d.aplx" % (i % 2) for i, v in enumerate(vr)})
        b.give(p + ".system_info", system_info_of(m, rng))
        wargs = [("vertices_resources", slot(p + ".vr")), ("vertices_applications", slot(p + ".apps")),
                 ("nets", slot(p + ".nets")), ("net_keys", slot(p + ".net_keys")),
                 ("system_info", slot(p + ".system_info"))]
        b.safe.append(lambda s: make_step("place_and_route_wrapper", wargs, seed=s))
        b.safe.append(lambda s: make_step("place_and_route_wrapper", wargs, [("constraints", slot(p + ".cons"))], seed=s))
        b.safe.append(lambda s: make_step("place_and_route_wrapper", wargs,
                                          [("constraints", slot(p + ".cons")), ("place", b.lit(hilbert.place))], seed=s))
    return p


def add_table_problem(b, idx, chk):
    """a routing table in the style of C04 and every minimiser on it, incl. single-stepped ordered covering"""
    from . import c04
    rng = b.rng
    t = "t%d" % idx
    w = rng.choice((3, 4, 5, 8))
    table = c04.random_table(rng, w, rng.randint(0, 12), ordered_overlapping=rng.random() < 0.3)
    if isinstance(table, tuple):        # the C04 generator may also return the bit layout it drew: (table, layout)
        table = table[0]
    b.give(t + ".table", table)
    b.give(t + ".aliases", {})           # a caller-owned alias dictionary, re-used by later calls
    n = len(table)
    for fn in ("remove_default_routes.minimise", "ordered_covering.minimise", "minimise_table"):
        for tgt in (None, 0, n // 2, n):
            b.safe.append(lambda s, fn=fn, tgt=tgt: make_step(fn, [("table", slot(t + ".table")),
                                                                   ("target_length", b.lit(tgt))], seed=s))
    b.safe.append(lambda s: make_step("minimise_tables", [("routing_tables", b.lit({(0, 0): table, (1, 0): table[::-1]})),
                                                          ("target_lengths", b.lit(None))], seed=s))
    b.safe.append(lambda s: make_step("minimise_tables", [("routing_tables", b.lit({(0, 0): table})),
                                                          ("target_lengths", b.lit({(0, 0): n}))],
                                      [("methods", b.lit((oc_mod.minimise,)))], seed=s))
    for tgt in (None, max(0, n - 1), n // 2):
        # aliases left to its default (a mutable default argument) ...
        b.safe.append(lambda s, tgt=tgt: make_step(
            "ordered_covering.ordered_covering", [("routing_table", slot(t + ".table")), ("target_length", b.lit(tgt))],
            [("no_raise", b.lit(True))], seed=s, store=[(t + ".cur", 0), (t + ".cur_aliases", 1)], scribble=True))
        # ... given by the caller ...
        b.safe.append(lambda s, tgt=tgt: make_step(
            "ordered_covering.ordered_covering", [("routing_table", slot(t + ".table")), ("target_length", b.lit(tgt)),
                                                  ("aliases", slot(t + ".aliases"))],
            [("no_raise", b.lit(rng.random() < 0.5))], seed=s, store=[(t + ".cur", 0), (t + ".cur_aliases", 1)]))
    # ... and continuing from what an earlier call returned (single-stepping: one entry fewer each time)
    first = lambda s: make_step(
        "ordered_covering.ordered_covering", [("routing_table", slot(t + ".table")), ("target_length", b.lit(max(0, n - 1)))],
        [("no_raise", b.lit(True))], seed=s, store=[(t + ".cur", 0), (t + ".cur_aliases", 1)], scribble=rng.random() < 0.5)
    cont = lambda s, tgt=None: make_step(
        "ordered_covering.ordered_covering", [("routing_table", slot(t + ".cur")), ("target_length", b.lit(tgt)),
                                              ("aliases", slot(t + ".cur_aliases"))], [("no_raise", b.lit(True))],
        seed=s, store=[(t + ".cur", 0), (t + ".cur_aliases", 1)])
    b.any.append(cont)
    b.chains.append(lambda s: [first(s), cont(s, max(0, n - 2)), cont(s, max(0, n - 3)), cont(s)])
    return t


FIELD_NAMES = ("a", "b", "c", "d")


def random_bitfield_program(rng):
    length = rng.choice((4, 8, 16, 32))
    prog, scopes, fields = [], [[]], []
    if rng.random() < 0.4:
        # a tagged selector field with a differently tagged field below it (tags propagate upwards)
        sel, sub = rng.sample(FIELD_NAMES, 2)
        t_sel, t_sub = rng.sample((["routing"], ["t1"], ["routing", "t1"], ["t2"]), 2)
        v = rng.choice((0, 1, 2))
        prog += [["add", [], sel, 2, None, t_sel], ["derive", [], [[sel, v]]], ["add", [[sel, v]], sub, 1, None, t_sub]]
        scopes.append([[sel, v]])
        fields += [sel, sub]
    for _ in range(rng.randint(3, 9)):
        r = rng.random()
        sc = rng.choice(scopes[-2:])        # mostly the most recent scopes: hierarchies grow deeper
        if r < 0.5 or not fields:
            name = rng.choice(FIELD_NAMES)
            ln = rng.choice((None, 1, 2, 3, 4))
            st = rng.choice((None, None, 0, 1, 4))
            tg = rng.choice((None, ["routing"], ["routing"], ["t1"], ["routing", "t1"]))
            prog.append(["add", sc, name, ln, st, tg])
            if name not in fields:
                fields.append(name)
        elif r < 0.85:
            name = rng.choice(fields)
            new = [[name, rng.choice((0, 1, 2, 3, 5))]]
            prog.append(["derive", sc, new])
            merged = dict(map(tuple, sc))
            merged.update(dict(map(tuple, new)))
            msc = sorted([k, v] for k, v in merged.items())
            if msc not in scopes:
                scopes.append(msc)
        else:
            prog.append(["assign", sc])
    prog.append(["assign", []])
    return length, prog


CTX_KEYS = ("app_id", "x", "y", "p", "tag")


def random_context_script(rng, keys=CTX_KEYS):
    s = []
    for _ in range(rng.randint(0, 4)):
        op = rng.choice(("update", "push", "push", "pop"))
        if op == "pop":
            s.append(["pop"])
        else:
            s.append([op, [[k, rng.randrange(1, 200)] for k in rng.sample(keys, rng.randint(1, 2))]])
    return s


def add_object_sessions(b, chk):
    """objects made one after another: bit fields, machines, contexts, controllers, boots"""
    rng = b.rng
    for _ in range(3):
        ln, prog = random_bitfield_program(rng)
        b.safe.append(lambda s, ln=ln, prog=prog: make_step("BitField session", [("length", b.lit(ln)),
                                                                                ("program", b.lit(prog))], seed=s))
    for _ in range(2):
        w, h = rng.randint(1, 4), rng.randint(1, 4)
        # every optional argument left to its default; the caller then writes all over the machine it was given
        b.safe.append(lambda s, w=w, h=h: make_step("Machine", [("width", b.lit(w)), ("height", b.lit(h))], seed=s,
                                                    scribble=rng.random() < 0.8))
        res = {Cores: rng.randint(1, 18), SDRAM: rng.randint(0, 128)}
        b.give("m%d.res" % len(b.slots), res)
        rs = b.slots[-1][0]
        b.give("m%d.dead" % len(b.slots), set([(0, 0)]) if w * h > 1 else set())
        ds = b.slots[-1][0]
        b.safe.append(lambda s, w=w, h=h, rs=rs, ds=ds: make_step(
            "Machine", [("width", b.lit(w)), ("height", b.lit(h))], [("chip_resources", slot(rs)), ("dead_chips", slot(ds))],
            seed=s, scribble=rng.random() < 0.5, store=[("m.latest", None)]))
    mcopy = lambda s: make_step("Machine.copy", [("self", slot("m.latest"))], seed=s, scribble=True)
    b.any.append(mcopy)
    explicit = b.safe[-1]
    if rng.random() < 0.5:
        b.chains.append(lambda s: [explicit(s), mcopy(s)])
    for _ in range(2):
        script = random_context_script(rng)
        b.safe.append(lambda s, script=script: make_step("ContextMixin session", [("initial_context", b.lit(None)),
                                                                                 ("script", b.lit(script))], seed=s))
        init = {k: rng.randrange(1, 99) for k in rng.sample(CTX_KEYS, rng.randint(0, 2))}
        b.safe.append(lambda s, script=script, init=init: make_step(
            "ContextMixin session", [("initial_context", b.lit(init)), ("script", b.lit(script))], seed=s))
        b.safe.append(lambda s, init=init: make_step(
            "Context session", [("context_arguments", b.lit(init)),
                                ("updates", b.lit([[["x", rng.randrange(9)]], [["app_id", rng.randrange(30, 40)]]]))], seed=s))
    for k in range(2):
        script = random_context_script(rng) + ([["scribble_structs"]] if rng.random() < 0.5 else [])
        host = "board-%d" % rng.randrange(1000)
        kws = rng.choice(({}, {}, {"n_tries": 3, "timeout": 0.25}, {"scp_port": 17894, "boot_port": 54322},
                          {"initial_context": {"app_id": rng.randrange(30, 250)}}))
        b.safe.append(lambda s, script=script, host=host, kws=kws: make_step(
            "MachineController session", [("initial_host", b.lit(host)), ("kwargs", b.lit(kws)), ("script", b.lit(script))],
            seed=s))
        bscript = random_context_script(rng, ("cabinet", "frame", "board"))
        hosts = rng.choice(("bmp-%d" % k, {(0, 0): "bmp-a", (0, 1, 3): "bmp-b"}))
        bkw = rng.choice(({}, {}, {"initial_context": {"cabinet": 1, "frame": 2, "board": 3}}))
        b.safe.append(lambda s, bscript=bscript, hosts=hosts, bkw=bkw: make_step(
            "BMPController session", [("hosts", b.lit(hosts)), ("kwargs", b.lit(bkw)), ("script", b.lit(bscript))], seed=s))
    presets = [dict(getattr(rig_boot, "spin%d_boot_options" % k)) for k in (1, 2, 3, 4, 5)]
    for _ in range(2):
        host = "boot-%d" % rng.randrange(1000)
        kws = rng.choice([{}, {}] + presets + [{"led0": 0x502, "num_cpus": 17}])
        ov = rng.choice((None, None, {}, {"hw_ver": rng.randrange(1, 6)}, rng.choice(presets)))
        if ov:
            kws = {k: v for k, v in kws.items() if k not in ov}
        via = rng.choice(("boot", "boot", "mc"))
        b.safe.append(lambda s, host=host, kws=kws, ov=ov, via=via: make_step(
            "boot", [("hostname", b.lit(host)), ("sv_overrides", b.lit(ov)), ("kwargs", b.lit(kws)), ("via", b.lit(via))],
            seed=s))
    for r in (0, 1, 2, 3, 5, 20):
        b.safe.append(lambda s, r=r: make_step("ner.memoized_concentric_hexagons", [("radius", b.lit(r))], seed=s,
                                               scribble=True))


def sibling_machine(rng, m):
    """the same machine but for ONE aspect: wrap-around links, one more dead link, one more dead chip, or a
    resource quantity - a result remembered under a key that leaves that aspect out would be served for both"""
    from .. import gen
    w, h = m.width, m.height
    res, exc = dict(m.chip_resources), {k: dict(v) for k, v in m.chip_resource_exceptions.items()}
    dc, dl = set(m.dead_chips), set(m.dead_links)
    kind = rng.choice(("wrap", "wrap", "link", "chip", "res"))
    if kind == "wrap":
        seam = set(gen.mesh_dead_links(w, h))
        dl = (dl - seam) if seam <= dl else (dl | seam)
    elif kind == "link":
        live = [(x, y, l) for (x, y) in m for l in Links if (x, y, l) in m]
        if live:
            dl.add(rng.choice(live))
    elif kind == "chip":
        live = [xy for xy in m]
        if len(live) > 1:
            dc.add(rng.choice(live))
    else:
        r = rng.choice(sorted(res, key=str))
        res[r] = res[r] + rng.choice((1, 2, 5))
    return Machine(w, h, res, exc, dc, dl)


def make_sibling_history(rng, idx, chk):
    """Five of the placer configurations, each called on a problem and then probed on its sibling (the same graph on
    a machine that differs in one aspect)."""
    from . import c02
    b = Builder(rng, "h%d" % idx)
    for _ in range(20):
        vr, nets, m, cons = c02.gen_problem(rng, True, chk)
        if len(vr) >= 4 and len(list(m)) >= 4:
            break
    m2 = sibling_machine(rng, m)
    gens = {}
    for p, mach in (("q0", m), ("q0s", m2)):
        b.give(p + ".vr", vr)
        b.give(p + ".nets", nets)
        b.give(p + ".machine", mach)
        b.give(p + ".cons", cons)
        gens[p] = add_placers(b, p, vr, mach)
    seed = rng.randrange(1, 1000)
    order = ["q0", "q0s"]
    rng.shuffle(order)
    steps = []
    kinds = list(range(len(gens["q0"])))
    rng.shuffle(kinds)
    for k in kinds[:5]:
        first = gens[order[0]][k](seed)
        first["safe"] = True
        first["probe"] = False
        second = gens[order[1]][k](seed)
        second["safe"] = True
        second["probe"] = True
        second["scribble"] = False
        steps += [first, second]
    b.steps = steps
    b.theme = "siblings"
    return b


def make_history(rng, idx, chk):
    """3-8 calls with differing arguments; the last one (a call that needs nothing from earlier calls) and a
    quarter of the others are probes"""
    if rng.random() < 0.2:
        return make_sibling_history(rng, idx, chk)
    b = Builder(rng, "h%d" % idx)
    theme = rng.choice(("route", "route", "place", "place", "tables", "objects", "mixed", "mixed", "focus", "focus", "focus", "focus"))
    nprob = 0
    if theme == "focus":
        # several sessions on objects of ONE kind made one after another, then a probe of the same kind: state
        # shared between instances (class attributes, aliased arguments, mutable defaults) shows up here
        add_object_sessions(b, chk)
        add_object_sessions(b, chk)
        seeds = [rng.randrange(1, 1000) for _ in range(3)]
        cands = [g(rng.choice(seeds)) for g in b.safe]
        kind = rng.choice(sorted(set(c["fn"] for c in cands)))
        cands = [c for c in cands if c["fn"] == kind]
        rng.shuffle(cands)
        steps = cands[:rng.randint(3, 6)]
        for st in steps:
            st["safe"] = True
            st["probe"] = rng.random() < 0.4
        last = dict(rng.choice(steps)) if rng.random() < 0.5 else dict(cands[-1])
        last["probe"] = True
        last["scribble"] = False
        steps.append(last)
        b.steps = steps
        b.theme = theme
        return b
    if theme in ("route", "mixed"):
        for _ in range(rng.randint(1, 2)):
            add_routing_problem(b, nprob, chk)
            nprob += 1
    if theme in ("place", "mixed"):
        for _ in range(rng.randint(1, 2)):
            add_placement_problem(b, nprob, chk)
            nprob += 1
    if theme in ("tables", "mixed"):
        for _ in range(rng.randint(1, 3)):
            add_table_problem(b, nprob, chk)
            nprob += 1
    if theme in ("objects", "mixed") or rng.random() < 0.3:
        add_object_sessions(b, chk)
    n = rng.randint(3, 8)
    seeds = [rng.randrange(1, 1000) for _ in range(3)]
    steps = []
    pool = [(g, True) for g in b.safe] + [(g, False) for g in b.any]
    while len(steps) < n - 1:
        if steps and rng.random() < 0.15:
            new = [dict(rng.choice(steps))]          # the same call again (same objects, same seed)
        elif b.chains and rng.random() < 0.35:
            new = rng.choice(b.chains)(rng.choice(seeds))[:n - 1 - len(steps)]
            for st in new:
                st["safe"] = False
        else:
            g, safe = rng.choice(pool if steps else pool[:len(b.safe)])
            new = [g(rng.choice(seeds))]
            new[0]["safe"] = safe
        for st in new:
            st["probe"] = rng.random() < 0.25
            if not st["scribble"] and rng.random() < 0.3:
                st["scribble"] = True
            steps.append(st)
    safe_steps = [s for s in steps if s["safe"]] if rng.random() < 0.4 else []
    if safe_steps:
        last = dict(rng.choice(safe_steps))          # a call made before, now with a history behind it
    else:
        last = rng.choice(b.safe)(rng.choice(seeds))
    last["probe"] = True
    last["scribble"] = False
    steps.append(last)
    b.steps = steps
    b.theme = theme
    return b


# ---------------------------------------------------------------------------------- histories added by the audit
# (their own random stream: the histories above are generated exactly as before)
#
# 1. "edited": the CALLER changes one of its own argument objects in place between two calls of the same function
#    (a dead link / chip, the wrap-around links, a resource quantity of the machine; a sink, a weight, a further net
#    of the netlist; a vertex's resources; a constraint taken off the list; a vertex moved in the placement; an entry
#    taken off a table) and, in most histories, changes it back and calls a third time.  Sibling problems are two
#    objects; this is ONE object with two values - what a library that keeps a reference to (or a note about the
#    identity of) something it was given gets wrong.  The call after the edit is a probe (the fresh interpreter is
#    given the edited value); the call after the undo has the key of the first call (clause Functional).
# 2. "shapes": legal argument shapes and callers' containers the histories above never pass: `methods` as a caller-
#    owned LIST used by several calls, `target_lengths` as a dictionary naming every chip (int and None values),
#    ordered covering continued from caller-owned alias dictionaries whose sets are merged again (tables that merge
#    well: few routes, many don't-cares), one table object under two chips.
# 3. "wrappers": rig.place_and_route.wrapper.wrapper (never called above) and place_and_route_wrapper (in the
#    pool above but drawn less than once per run) with every optional argument defaulted and with caller-owned
#    constraint lists / keyword dictionaries used by several calls.
def machine_edits(b, p, m, busy=()):
    """[(kind, edit steps, undo steps)] on the Machine in slot p.machine; chips in `busy` stay alive"""
    from .. import gen
    rng, s = b.rng, p + ".machine"
    out = []
    seam = set(gen.mesh_dead_links(m.width, m.height))
    live_seam = seam - set(m.dead_links)
    dl = [["attr", "dead_links"]]
    if m.width > 1 or m.height > 1:
        if live_seam:       # (part of) a torus: the wrap-around links are cut ...
            out.append(("machine.wrap", [_ed(s, dl, "update", value=b.lit(live_seam))],
                        [_ed(s, dl, "difference_update", value=b.lit(live_seam))]))
        else:               # ... a mesh: they are connected
            out.append(("machine.wrap", [_ed(s, dl, "difference_update", value=b.lit(seam))],
                        [_ed(s, dl, "update", value=b.lit(seam))]))
    live = [(x, y, l) for (x, y) in m for l in Links if (x, y, l) in m]
    if live:
        x, y, l = rng.choice(live)
        dx, dy = l.to_vector()
        both = {(x, y, l), ((x + dx) % m.width, (y + dy) % m.height, l.opposite)} - set(m.dead_links)
        out.append(("machine.link", [_ed(s, dl, "update", value=b.lit(both))],
                    [_ed(s, dl, "difference_update", value=b.lit(both))]))
    free = [xy for xy in m if xy not in busy]
    if free and len(list(m)) > 1:
        xy = rng.choice(free)
        out.append(("machine.chip", [_ed(s, [["attr", "dead_chips"]], "update", value=b.lit({xy}))],
                    [_ed(s, [["attr", "dead_chips"]], "difference_update", value=b.lit({xy}))]))
    r = rng.choice(sorted(m.chip_resources, key=str))
    old = m.chip_resources[r]
    out.append(("machine.resource", [_ed(s, [["attr", "chip_resources"]], "setitem", key=b.lit(r), value=b.lit(old + 1))],
                [_ed(s, [["attr", "chip_resources"]], "setitem", key=b.lit(r), value=b.lit(old))]))
    xy = rng.choice(list(m))
    less = dict(m[xy])
    less[r] = max(0, less[r] - 1)
    exc = [["attr", "chip_resource_exceptions"]]
    if xy in m.chip_resource_exceptions:
        undo = [_ed(s, exc, "setitem", key=b.lit(xy), value=b.lit(dict(m.chip_resource_exceptions[xy])))]
    else:
        undo = [_ed(s, exc, "delitem", key=b.lit(xy))]
    out.append(("machine.exception", [_ed(s, exc, "setitem", key=b.lit(xy), value=b.lit(less))], undo))
    return out


def netlist_edits(b, p, nets, vertices, new_net_ok=True):
    rng, s = b.rng, p + ".nets"
    out = []
    vertices = list(vertices)
    if nets and vertices:
        picks = [(rng.randrange(len(nets)), rng.choice(vertices)) for _ in range(rng.randint(2, 4))]
        out.append(("nets.sink", [_ed(s, [["index", i], ["attr", "sinks"]], "append", value=b.lit(v)) for i, v in picks],
                    [_ed(s, [["index", i], ["attr", "sinks"]], "pop") for i, v in reversed(picks)]))
        i = rng.randrange(len(nets))
        w = nets[i].weight
        out.append(("nets.weight", [_ed(s, [["index", i]], "setattr", name="weight", value=b.lit(w + 3))],
                    [_ed(s, [["index", i]], "setattr", name="weight", value=b.lit(w))]))
    if new_net_ok and len(vertices) >= 2:
        new = Net(rng.choice(vertices), rng.sample(vertices, min(len(vertices), rng.randint(1, 3))), rng.choice((1, 2.5)))
        out.append(("nets.net", [_ed(s, [], "append", value=b.lit(new))], [_ed(s, [], "pop")]))
    return out


def resource_edits(b, p, vr):
    rng, s = b.rng, p + ".vr"
    if not vr:
        return []
    v = rng.choice(sorted(vr, key=str))
    if Cores in vr[v]:
        undo = [_ed(s, [["key", b.lit(v)["lit"]]], "setitem", key=b.lit(Cores), value=b.lit(vr[v][Cores]))]
    else:
        undo = [_ed(s, [["key", b.lit(v)["lit"]]], "delitem", key=b.lit(Cores))]
    return [("vertices_resources", [_ed(s, [["key", b.lit(v)["lit"]]], "setitem", key=b.lit(Cores),
                                        value=b.lit(vr[v].get(Cores, 0) + 1))], undo)]


def placement_edits(b, slotname, placements, m):
    rng = b.rng
    if not placements:
        return []
    v = rng.choice(sorted(placements, key=str))
    other = [xy for xy in m if xy != placements[v]]
    if not other:
        return []
    return [("placements", [_ed(slotname, [], "setitem", key=b.lit(v), value=b.lit(rng.choice(other)))],
             [_ed(slotname, [], "setitem", key=b.lit(v), value=b.lit(placements[v]))])]


def list_tail_edits(b, kind, slotname, lst):
    """take the last element off a caller's list (a sub-list of a consistent constraint list is consistent, a
    sub-table of an orthogonal or generality-ordered table is one); undo: put an equal element back"""
    if not lst:
        return []
    return [(kind, [_ed(slotname, [], "pop")], [_ed(slotname, [], "append", value=b.lit(lst[-1]))])]


def _named(b, gens, prefixes):
    """the step generators of a pool whose function name starts with one of the prefixes"""
    return [g for g in gens if g(1)["fn"].startswith(prefixes)]


def make_edited_history(rng, idx, chk):
    from .. import gen
    from . import c02
    b = Builder(rng, "h%d" % idx)
    b.theme = "edited"
    kind = ("route", "place", "route", "place", "table", "route", "place")[idx % 7]
    plans = []          # (edits, step generators that read the edited object)
    prefer = {"route": ("machine.wrap", ("route",)), "place": ("nets.", ("place.breadth_first", "place.hilbert", "place.rcm", "place.sa"))}.get(kind)
    if kind == "route":
        # a machine on which the edits matter: wide enough for the wrap-around links to shorten paths, few faults
        # (so that cutting a link or the seam seldom disconnects it), more nets than the histories above
        w, h = rng.randint(3, 7), rng.randint(3, 7)
        dead = set(gen.mesh_dead_links(w, h)) if rng.random() < 0.5 else set()
        if rng.random() < 0.4:
            x, y, l = rng.randrange(w), rng.randrange(h), rng.choice(list(Links))
            dx, dy = l.to_vector()
            dead |= {(x, y, l), ((x + dx) % w, (y + dy) % h, l.opposite)}
        m0 = Machine(w, h, {Cores: 18, SDRAM: 128, SRAM: 32}, dead_chips={(rng.randrange(w), rng.randrange(h))}
                     if rng.random() < 0.3 else set(), dead_links=dead)
        p = add_routing_problem(b, 0, chk, machine=m0, nnets=rng.randint(4, 8))
        vr, nets, m = b.objs[p + ".vr"], b.objs[p + ".nets"], b.objs[p + ".machine"]
        pl = b.objs[p + ".given_placements"]
        routers = _named(b, b.safe, ("route",))
        placers = _named(b, b.safe, ("place.",))
        allocs = _named(b, b.safe, ("allocate",))
        plans.append((machine_edits(b, p, m, busy=set(pl.values())), routers + routers + placers))
        plans.append((netlist_edits(b, p, nets, vr), routers + placers))
        plans.append((placement_edits(b, p + ".given_placements", pl, m), routers + allocs))
        plans.append((resource_edits(b, p, vr), placers + allocs))
    elif kind == "place":
        for _ in range(20):
            problem = c02.gen_problem(rng, True, chk)
            if len(problem[0]) >= 4 and len(list(problem[2])) >= 4:
                break
        p = add_placement_problem(b, 0, chk, problem=problem)
        vr, nets, m, cons = (b.objs[p + k] for k in (".vr", ".nets", ".machine", ".cons"))
        placers = _named(b, b.safe, ("place",))
        plans.append((machine_edits(b, p, m), placers))
        plans.append((netlist_edits(b, p, nets, vr), placers))
        plans.append((resource_edits(b, p, vr), placers))
        plans.append((list_tail_edits(b, "constraints", p + ".cons", cons), placers))
    else:
        t = add_table_problem(b, 0, chk)
        plans.append((list_tail_edits(b, "table", t + ".table", b.objs[t + ".table"]), list(b.safe)))
    plans = [(e, g) for e, g in plans if e and g]
    seed = rng.randrange(1, 1000)
    steps, kinds = [], []
    for rnd in range(2 if plans else 0):
        edits, gens = rng.choice(plans)
        ekind, do, undo = rng.choice(edits)
        every = []
        if rnd == 0 and prefer and rng.random() < 0.6:
            # the pairs that matter most get a fixed share: the wrap-around links with the router (and the placers
            # that ask the machine about them), the netlist with the placers that walk it
            for edits2, gens2 in plans:
                hit = [e for e in edits2 if e[0].startswith(prefer[0])]
                if hit:
                    (ekind, do, undo), gens = rng.choice(hit), (_named(b, gens2, prefer[1]) or gens2)
                    if kind == "place":     # one placer of every family that walks the netlist
                        every = [rng.choice(_named(b, gens2, (f,))) for f in prefer[1] if _named(b, gens2, (f,))]
        chosen = every or [rng.choice(gens) for _ in range(rng.randint(1, 2))]
        rounds = [[], do, undo] if rng.random() < 0.7 else [[], do]
        for k, edit_steps in enumerate(rounds):
            steps += edit_steps
            for g in chosen:
                st = g(seed)
                st["safe"] = True
                st["scribble"] = rng.random() < 0.3
                st["probe"] = (k == 1) or rng.random() < (0.4 if not every else 0.15)
                st["label"] = st["label"] + ("" if k == 0 else " after the caller's edit (%s)" % ekind if k == 1
                                             else " after the caller's undo")
                steps.append(st)
        kinds.append(ekind)
        if undo is not rounds[-1]:
            break               # the object stays edited: nothing generated from its first value may follow
    if not steps:
        return make_shapes_history(rng, idx, chk)
    steps[-1]["probe"] = True
    steps[-1]["scribble"] = False
    b.steps = steps
    b.edit_kinds = kinds
    return b


def mergeable_table(rng, n, nroutes=None):
    """an orthogonal table on which ordered covering merges again and again: few routes, keys that differ in few bits"""
    w = rng.choice((4, 5, 6))
    keys = rng.sample(range(1 << w), min(n, 1 << w))
    routes = [{Routes.east}, {Routes.north}][:nroutes or rng.choice((1, 2, 2))]
    sources = [{None}, {Routes.west}, {Routes.south}, {Routes.west, Routes.south}, {Routes.west, None}]
    mask = (1 << w) - 1
    return [RoutingTableEntry(set(rng.choice(routes)), k, mask, set(rng.choice(sources))) for k in keys]


def make_shapes_history(rng, idx, chk):
    b = Builder(rng, "h%d" % idx)
    b.theme = "shapes"
    t = "t0"
    table = mergeable_table(rng, rng.randint(4, 14))
    n = len(table)
    b.give(t + ".table", table)
    b.give(t + ".tables", collections.OrderedDict([((0, 0), table), ((1, 0), table[::-1]), ((1, 1), table)]))
    b.give(t + ".methods", [rdr_mod.minimise, oc_mod.minimise])
    b.give(t + ".method", [oc_mod.minimise])
    b.give(t + ".lengths", {(0, 0): rng.choice((None, n, max(1, n // 2))), (1, 0): None, (1, 1): rng.choice((None, n))})
    b.give(t + ".aliases", {})
    seed = rng.randrange(1, 1000)
    ms = lambda: slot(rng.choice((t + ".methods", t + ".methods", t + ".method")))
    gens = [
        lambda: make_step("minimise_table", [("table", slot(t + ".table")), ("target_length", b.lit(rng.choice((None, n, 1))))],
                          [("methods", ms())], seed=seed),
        lambda: make_step("minimise_tables", [("routing_tables", slot(t + ".tables")), ("target_lengths", slot(t + ".lengths"))],
                          [("methods", ms())], seed=seed),
        lambda: make_step("minimise_tables", [("routing_tables", slot(t + ".tables")), ("target_lengths", slot(t + ".lengths"))],
                          seed=seed),
        lambda: make_step("minimise_tables", [("routing_tables", slot(t + ".tables")), ("target_lengths", b.lit(None)),
                                              ("methods", ms())], seed=seed),
    ]
    steps = [rng.choice(gens)() for _ in range(rng.randint(2, 3))]
    # ordered covering, one merge at a time, every call continuing from the caller's copy of what the last returned
    store = [(t + ".cur", 0), (t + ".cur_aliases", 1)]
    steps.append(make_step("ordered_covering.ordered_covering",
                           [("routing_table", slot(t + ".table")), ("target_length", b.lit(max(0, n - 1))),
                            ("aliases", slot(t + ".aliases"))], [("no_raise", b.lit(True))], seed=seed, store=store,
                           scribble=rng.random() < 0.5))
    for k in range(2, rng.randint(4, 7)):
        steps.append(make_step("ordered_covering.ordered_covering",
                               [("routing_table", slot(t + ".cur")), ("target_length", b.lit(max(0, n - k))),
                                ("aliases", slot(t + ".cur_aliases"))], [("no_raise", b.lit(True))], seed=seed,
                               store=store, scribble=rng.random() < 0.5))
    steps.append(make_step("ordered_covering.ordered_covering",
                           [("routing_table", slot(t + ".cur")), ("target_length", b.lit(None)),
                            ("aliases", slot(t + ".cur_aliases"))], seed=seed))
    if n >= 0:
        # what the aliases parameter is documented for: a table minimised earlier is extended by the caller and
        # minimised again, the earlier merge products (with their alias sets, now the caller's) merging with the
        # new entries
        later = mergeable_table(rng, rng.randint(5, 10), nroutes=1)
        half = rng.randint(len(later) // 2 + 1, len(later) - 1)     # more entries merged earlier than added now
        b.give(t + ".head", later[:half])
        steps.append(make_step("ordered_covering.ordered_covering",
                               [("routing_table", slot(t + ".head")), ("target_length", b.lit(None)),
                                ("aliases", slot(t + ".aliases"))], seed=seed,
                               store=[(t + ".upd", 0), (t + ".upd_aliases", 1)], scribble=True))
        steps.append(_ed(t + ".upd", [], "extend", value=b.lit(later[half:])))
        for tgt in (rng.choice((None, max(1, n // 3))), None):
            steps.append(make_step("ordered_covering.ordered_covering",
                                   [("routing_table", slot(t + ".upd")), ("target_length", b.lit(tgt)),
                                    ("aliases", slot(t + ".upd_aliases"))], [("no_raise", b.lit(True))], seed=seed,
                                   label="ordered_covering.ordered_covering of an extended table with the aliases of the first run"))
    steps.append(rng.choice(gens)())
    for st in steps:
        if "edit" not in st:
            st["safe"] = True
            st["probe"] = rng.random() < 0.3
    steps[-1]["probe"] = True
    steps[-1]["scribble"] = False
    b.steps = steps
    return b


def make_wrapper_history(rng, idx, chk):
    from .. import gen
    b = Builder(rng, "h%d" % idx)
    b.theme = "wrappers"
    p = "w0"
    m = gen.random_machine(rng, maxw=4, maxh=4, p_dead_chip=rng.choice((0, 0.1)), fault_rate=rng.choice((0, 0, 0.05)),
                           resources={Cores: 18, SDRAM: 1 << 20, SRAM: 1 << 14}, connected=True)
    nv = rng.randint(2, 8)
    vs = ["v%d" % i for i in range(nv)]
    vr = {v: {Cores: rng.randint(1, 3), SDRAM: 4 * rng.randint(0, 8)} for v in vs}
    nets = [Net(rng.choice(vs), rng.sample(vs, rng.randint(1, min(3, nv))), rng.choice((1, 2.5))) for _ in range(rng.randint(1, 4))]
    cons = [cons_mod.SameChipConstraint(vs[:2])] if rng.random() < 0.5 else []
    if nv > 2 and rng.random() < 0.5:
        cons.append(cons_mod.LocationConstraint(vs[-1], rng.choice(list(m))))
    b.give(p + ".vr", vr)
    b.give(p + ".apps", {v: "app%d.aplx" % (i % 2) for i, v in enumerate(vs)})
    b.give(p + ".nets", nets)
    b.give(p + ".net_keys", {n: (i << 6, 0xffffffc0) for i, n in enumerate(nets)})
    b.give(p + ".machine", m)
    b.give(p + ".system_info", system_info_of(m, rng))
    b.give(p + ".cons", cons)
    b.give(p + ".place_kwargs", {"effort": 0.1})
    b.give(p + ".route_kwargs", {"radius": rng.choice((0, 2, 20))})
    b.give(p + ".allocate_kwargs", {})
    seed = rng.randrange(1, 1000)
    head = [("vertices_resources", slot(p + ".vr")), ("vertices_applications", slot(p + ".apps")),
            ("nets", slot(p + ".nets")), ("net_keys", slot(p + ".net_keys"))]
    opts = [("constraints", slot(p + ".cons")), ("place_kwargs", slot(p + ".place_kwargs")),
            ("route_kwargs", slot(p + ".route_kwargs")), ("allocate_kwargs", slot(p + ".allocate_kwargs"))]
    fast = [("place_kwargs", slot(p + ".place_kwargs"))]
    old = head + [("machine", slot(p + ".machine"))]
    new = head + [("system_info", slot(p + ".system_info"))]
    gens = [
        lambda: make_step("wrapper", old, fast, seed=seed),                        # constraints defaulted
        lambda: make_step("wrapper", old, opts, seed=seed),
        lambda: make_step("wrapper", old, opts + [("reserve_monitor", b.lit(False))], seed=seed),
        lambda: make_step("wrapper", old, opts[:1] + [("place", b.lit(hilbert.place))], seed=seed),
        lambda: make_step("place_and_route_wrapper", new, fast, seed=seed),
        lambda: make_step("place_and_route_wrapper", new, opts, seed=seed),
        lambda: make_step("place_and_route_wrapper", new, opts[:1] + [("place", b.lit(hilbert.place))], seed=seed),
    ]
    steps = [g() for g in (rng.sample(gens, 3) + [rng.choice(gens[:3])])]
    steps.append(dict(steps[rng.randrange(3)]))
    for st in steps:
        st["safe"] = True
        st["probe"] = rng.random() < 0.3
    steps[-1]["probe"] = True
    b.steps = steps
    return b


# 4. "constraints" (own random stream): ONE graph, machine, placement and allocation, and several caller-owned constraint
#    LISTS that differ in one constraint: a list A drawn from every kind of constraint the function reads, then the
#    empty list, A with one constraint given another parameter (the same resource / vertex: another alignment,
#    another reservation, another chip, another group, another route), A without one constraint, and A again.  The
#    histories above use one constraint list per problem for all calls, so a call WITH a constraint was never followed
#    by a probe WITHOUT it on the same graph - what a function that keeps what it collected from its constraints
#    (alignments, reservations, fixed vertices, merged vertices, endpoint routes) between calls gets wrong.  The
#    problem is made so that the leftover would show: several vertices per chip in the given placement with SDRAM /
#    SRAM sizes that are no multiples of the alignments and reservations where allocations would start; more cores
#    needed than one chip has (a leftover reservation moves the boundary of a sequential placement); located and
#    grouped vertices; constrained vertices that are sinks of nets.  In "cross" histories the first call is a wrapper
#    (the deprecated one adds its own alignment of SDRAM and reservation of core 0) and the probes are the bare
#    allocate / place / route calls with the empty list.
PLACER_SPECS = (
    ("place.sequential", (), None, None), ("place.breadth_first", (), None, None), ("place.hilbert", (), None, None),
    ("place.rcm", (), None, None), ("place.rand", (), "random", None),
    ("place.sa", (("effort", 0.1),), "random", "python"), ("place", (("effort", 0.1),), None, None),
)


def make_constraints_history(rng, idx, chk):
    C = cons_mod
    b = Builder(rng, "h%d" % idx)
    b.theme = "constraints"
    p = "k0"
    family = ("allocate", "place", "route", "cross", "allocate", "place")[idx % 6]
    w, h = rng.choice(((2, 2), (3, 2), (2, 3), (3, 3), (4, 2), (5, 1)))
    m = Machine(w, h, {Cores: 12, SDRAM: 128, SRAM: 32})
    chips = list(m)
    vs = ["v%d" % i for i in range(rng.randint(8, 12))]
    vr = {}
    for v in vs:
        vr[v] = {Cores: rng.choice((1, 1, 2, 3)), SDRAM: rng.choice((1, 3, 5, 6, 7, 9, 10))}
        if rng.random() < 0.5:
            vr[v][SRAM] = rng.choice((1, 2, 3, 5))
    # a placement somebody made earlier: two to four vertices on every chip used (with room for reservations and
    # padding), and the allocation that goes with it (cores from 1 upwards, nothing aligned)
    order = list(chips)
    rng.shuffle(order)
    load = {xy: 0 for xy in order}
    on = {xy: [] for xy in order}
    placements = {}
    for v in vs:
        fits = [xy for xy in order if load[xy] + vr[v][Cores] + 1 <= 9 and len(on[xy]) < 4]
        xy = fits[0] if fits else min(order, key=lambda c: load[c])
        placements[v] = xy
        on[xy].append(v)
        load[xy] += vr[v][Cores] + 1
    allocations = {}
    for xy in order:
        at = {Cores: 1, SDRAM: 0, SRAM: 0}
        for v in on[xy]:
            allocations[v] = {}
            for r, n in vr[v].items():
                allocations[v][r] = slice(at[r], at[r] + n)
                at[r] += n
    v_loc, v_loc2, va, vb, vc, ve, ve2 = rng.sample(vs, 7)
    nets = [Net(rng.choice(vs), [ve] + rng.sample(vs, rng.randint(0, 2)), 1),
            Net(rng.choice(vs), rng.sample(vs, rng.randint(1, 2)) + [ve2], rng.choice((1, 2.5)))]
    nets += [Net(rng.choice(vs), rng.sample(vs, rng.randint(1, 3)), rng.choice((1, 2.5))) for _ in range(rng.randint(2, 5))]
    xy_a, xy_b = rng.sample(chips, 2)
    used = sorted((xy for xy in order if on[xy]), key=lambda c: -len(on[c]))
    xy_r, xy_r2 = used[0], used[1 % len(used)]
    # (what reads it: a = allocation, p = placement, r = routing; alternatives that name the same resource / vertex)
    atoms = [
        ("align SDRAM", "a", [C.AlignResourceConstraint(SDRAM, 4), C.AlignResourceConstraint(SDRAM, 8),
                              C.AlignResourceConstraint(SDRAM, 2)]),
        ("align Cores", "a", [C.AlignResourceConstraint(Cores, 2), C.AlignResourceConstraint(Cores, 3)]),
        ("align SRAM", "a", [C.AlignResourceConstraint(SRAM, 4), C.AlignResourceConstraint(SRAM, 8)]),
        ("reserve Cores", "ap", [C.ReserveResourceConstraint(Cores, slice(0, 1)), C.ReserveResourceConstraint(Cores, slice(0, 2)),
                                 C.ReserveResourceConstraint(Cores, slice(2, 3))]),
        ("reserve SDRAM", "a", [C.ReserveResourceConstraint(SDRAM, slice(5, 9)), C.ReserveResourceConstraint(SDRAM, slice(0, 3))]),
        ("reserve Cores on a chip", "ap", [C.ReserveResourceConstraint(Cores, slice(0, 3), xy_r),
                                           C.ReserveResourceConstraint(Cores, slice(1, 2), xy_r),
                                           C.ReserveResourceConstraint(Cores, slice(0, 3), xy_r2)]),
        ("reserve SDRAM on a chip", "a", [C.ReserveResourceConstraint(SDRAM, slice(0, 7), xy_r),
                                          C.ReserveResourceConstraint(SDRAM, slice(0, 7), xy_r2)]),
        ("location", "p", [C.LocationConstraint(v_loc, xy_a), C.LocationConstraint(v_loc, xy_b)]),
        ("location of another vertex", "p", [C.LocationConstraint(v_loc2, xy_b), C.LocationConstraint(v_loc2, xy_a)]),
        ("same chip", "p", [C.SameChipConstraint([va, vb]), C.SameChipConstraint([vb, vc]), C.SameChipConstraint([va, vb, vc])]),
        ("route endpoint", "r", [C.RouteEndpointConstraint(ve, Routes.north), C.RouteEndpointConstraint(ve, Routes.east)]),
        ("route endpoint of another vertex", "r", [C.RouteEndpointConstraint(ve2, Routes.south_west),
                                                   C.RouteEndpointConstraint(ve2, Routes.west)]),
    ]
    letter = {"allocate": "a", "place": "p", "route": "r", "cross": "apr"}[family]
    relevant = [k for k, a in enumerate(atoms) if set(a[1]) & set(letter)]
    forced = relevant[(idx // 6) % len(relevant)]              # every kind gets its turn to be in list A
    chosen = {}
    for k, a in enumerate(atoms):
        if k == forced or rng.random() < (0.6 if k in relevant else 0.15):
            chosen[k] = rng.randrange(len(a[2])) if rng.random() < 0.5 else 0
    if family == "cross":
        # a list the whole pipeline can usually meet (the placers know the size of a reservation only, and nothing
        # of alignments): no padding between cores, reservations from core 0 upwards
        chosen = {k: 0 for k in chosen if atoms[k][0] != "align Cores" or k == forced}
    keys = list(chosen)
    rng.shuffle(keys)
    k_other = forced if rng.random() < 0.5 else rng.choice([k for k in keys if k in relevant])
    k_less = forced if rng.random() < 0.5 else rng.choice([k for k in keys if k in relevant])
    lists = collections.OrderedDict()
    lists["A"] = [atoms[k][2][chosen[k]] for k in keys]
    lists["none"] = []
    lists["other"] = [atoms[k][2][(chosen[k] + (1 if k == k_other else 0)) % len(atoms[k][2])] for k in keys]
    lists["less"] = [atoms[k][2][chosen[k]] for k in keys if k != k_less]
    b.kinds = ["%s: %s then none" % (family, atoms[k][0]) for k in keys if k in relevant]
    if family != "cross":
        b.kinds += ["%s: %s then the same with another parameter" % (family, atoms[k_other][0]),
                    "%s: %s then the list without it" % (family, atoms[k_less][0])]
    b.give(p + ".vr", vr)
    b.give(p + ".nets", nets)
    b.give(p + ".machine", m)
    b.give(p + ".placements", placements)
    b.give(p + ".allocations", allocations)
    for name, lst in lists.items():
        b.give(p + ".cons." + name, lst)
    seed = rng.randrange(1, 1000)

    def args(name):
        return [("vertices_resources", slot(p + ".vr")), ("nets", slot(p + ".nets")), ("machine", slot(p + ".machine")),
                ("constraints", slot(p + ".cons." + name))]

    def allocate_step(name, fn="allocate"):
        return make_step(fn, args(name) + [("placements", slot(p + ".placements"))], seed=seed,
                         label="%s with constraint list %s" % (fn, name))

    def place_step(name, spec):
        fn, kw, rg, kernel = spec
        return make_step(fn, args(name), [(k, b.lit(v)) for k, v in kw], seed=seed, rng=rg, kernel=kernel,
                         label="%s with constraint list %s" % (fn, name))

    def route_step(name, radius):
        if radius is None:      # every optional argument defaulted
            return make_step("route.ner", args(name) + [("placements", slot(p + ".placements"))], seed=seed,
                             label="route.ner with constraint list %s" % name)
        return make_step("route", args(name) + [("placements", slot(p + ".placements")),
                                                ("allocations", slot(p + ".allocations")),
                                                ("core_resource", b.lit(Cores)), ("radius", b.lit(radius))], seed=seed,
                         label="route with constraint list %s" % name)
    if family == "allocate":
        fn = rng.choice(("allocate", "allocate", "allocate.greedy"))
        gen = lambda name: allocate_step(name, fn)
    elif family == "place":
        spec = PLACER_SPECS[(idx // 6 * 2 + (idx % 6 == 5) + 3 * chk.seed) % len(PLACER_SPECS)]     # each in its turn
        gen = lambda name: place_step(name, spec)
    elif family == "route":
        radius = rng.choice((None, 0, 2, 20))
        gen = lambda name: route_step(name, radius)
    if family == "cross":
        b.give(p + ".apps", {v: "app%d.aplx" % (i % 2) for i, v in enumerate(vs)})
        b.give(p + ".net_keys", {n: (i << 6, 0xffffffc0) for i, n in enumerate(nets)})
        b.give(p + ".system_info", system_info_of(m, rng))
        b.give(p + ".place_kwargs", {"effort": 0.1})
        head = [("vertices_resources", slot(p + ".vr")), ("vertices_applications", slot(p + ".apps")),
                ("nets", slot(p + ".nets")), ("net_keys", slot(p + ".net_keys"))]
        fast = [("place_kwargs", slot(p + ".place_kwargs"))]
        given = [] if rng.random() < 0.3 else [("constraints", slot(p + ".cons.A"))]     # defaulted: the wrapper's own only
        if rng.random() < 0.67:
            first = make_step("wrapper", head + [("machine", slot(p + ".machine"))], given + fast, seed=seed)
        else:
            first = make_step("place_and_route_wrapper", head + [("system_info", slot(p + ".system_info"))], given + fast,
                              seed=seed)
        bare = [allocate_step("none"), place_step("none", rng.choice(PLACER_SPECS[:5])), route_step("none", rng.choice((None, 2)))]
        rng.shuffle(bare)
        steps = [first] + bare
        for st in bare:
            st["probe"] = True
    else:
        tail = ["none", "other", "less"]
        rng.shuffle(tail)
        steps = [gen(name) for name in ["A"] + tail + [rng.choice(("A", "none"))]]
        for st, name in zip(steps[1:], tail):
            st["probe"] = name == "none" or rng.random() < 0.6
    for st in steps:
        st["safe"] = True
    steps[-1]["probe"] = True
    b.steps = steps
    return b


def make_audit_histories(chk, first_idx):
    rng = random.Random(7919 * chk.seed + 17)
    out = []
    for maker, n in ((make_edited_history, chk.pick(21, 210)), (make_shapes_history, chk.pick(6, 60)),
                     (make_wrapper_history, chk.pick(4, 40))):
        for _ in range(n):
            out.append(maker(rng, first_idx + len(out), chk))
    rng = random.Random(7919 * chk.seed + 29)      # the histories above are generated exactly as before
    for k in range(chk.pick(12, 120)):
        out.append(make_constraints_history(rng, k, chk))
        out[-1].label = "h%d" % (first_idx + len(out) - 1)
    return out


# ---------------------------------------------------------------------------------- running and assembling
def assemble(job, hist_out, fresh_recs):
    """events of the history child + the results of its probes' fresh interpreters -> one trace"""
    evs, k = [], 0
    for ev in hist_out["events"]:
        rec = dict(ev["rec"])
        if ev["kind"] == "probe":
            fr = fresh_recs[k]
            k += 1
            if fr["fn"] != rec["fn"]:
                raise MachineryError("a probe reached the fresh interpreter as another function: %s %s" % (
                    rec["fn"], job["label"]))
            # The fresh interpreter builds the probe's arguments anew from their description; the history process
            # passes the objects it has been passing all along.  If the two differ before the call, some earlier
            # call of the history changed an argument object (the clause ArgsUnchanged of that earlier call rejects
            # the trace first; ProbeArgumentsAsBuilt is the backstop).
            rec["asbuilt"] = int([a[:2] for a in fr["args"]] == [a[:2] for a in rec["args"]])
            rec["fresh"] = fr["res"]
            rec["freshdefs"] = [[d[0], d[1]] for d in fr["defs"]]
        evs.append([ev["kind"], rec])
    evs.append(["end", len(hist_out["events"])])
    return dict(label=job["label"], calls=[e["label"] for e in hist_out["events"]], ev=evs,
                not_probed=sum(1 for e in hist_out["events"] if e.get("not_probed")))


def run_jobs(jobs):
    outs = run_children(jobs)
    fresh_jobs, owner = [], []
    for i, out in enumerate(outs):
        for ev in out["events"]:
            if ev["kind"] == "probe":
                fresh_jobs.append(dict(ev["ship"], mode="fresh", label=jobs[i]["label"] + ":" + ev["rec"]["fn"]))
                owner.append(i)
    fresh = run_children(fresh_jobs)
    per = {}
    for i, f in zip(owner, fresh):
        per.setdefault(i, []).append(f["rec"])
    return [assemble(jobs[i], outs[i], per.get(i, [])) for i in range(len(jobs))]


DIFF_FIELDS = {"ArgsUnchanged": "args", "DefaultsUnchanged": "defs"}


def key_of(tr, i, clauses):
    """which function, which argument / default / radius: read mechanically off the rejected event"""
    e = tr["ev"][i - 1]
    if e[0] not in ("call", "probe"):
        return "%s %s %s" % (e[0], ",".join(clauses), tr["label"])
    r = e[1]
    what = []
    if "ArgsUnchanged" in clauses:
        what.append("arguments modified: " + ",".join(a[0] for a in r["args"] if a[1] != a[2]))
    if "DefaultsUnchanged" in clauses:
        what.append("default arguments modified by the call: " + ",".join(d[0] for d in r["defs"] if d[1] != d[2]))
    if "DefaultsAsAtStart" in clauses or "DefaultsAsFresh" in clauses:
        first = {}
        for ev in tr["ev"][:i]:
            if ev[0] in ("call", "probe"):
                for d in ev[1]["defs"]:
                    first.setdefault(d[0], d[1])
        fresh = dict((d[0], d[1]) for d in r.get("freshdefs", []))
        what.append("default arguments no longer as at import: " + ",".join(
            d[0] for d in r["defs"] if d[1] != first.get(d[0], d[1]) or d[1] != fresh.get(d[0], d[1])))
    if "CacheOnlyGains" in clauses or "CacheEntriesCorrect" in clauses:
        ring = dict(map(tuple, r["cring"]))
        what.append("ring memo: before %s after %s wrong radii %s" % (
            [c[0] for c in r["cbefore"]], [c[0] for c in r["cafter"]], [c[0] for c in r["cafter"] if ring.get(c[0]) != c[1]]))
    if "Functional" in clauses:
        what.append("result differs from the same call earlier in the history")
    if "FreshAgrees" in clauses:
        what.append("result differs from the same call made first in a fresh interpreter (after: %s)" % ", ".join(
            tr["calls"][:i - 1]))
    return "%s %s: %s" % (r["fn"], ",".join(clauses), "; ".join(what))


def design_jobs(chk):
    chk.design("HistoryDesign", "HistoryDesign_%s.cfg" % chk.tier, expect_actions=("CallF", "CallG", "Scribble"))
    chk.design("HistoryDesign", "HistoryDesign_sufficient%s.cfg" % chk.pick("", "_thorough"),
               label="mechanism clauses sufficient under every combination of mechanism faults")
    for cfg, inv in (("leaky", "InvFunctional"), ("leaky_fresh", "InvFreshAgrees"), ("hidden", "InvFreshAgrees"),
                     ("mutates", "InvArgsUnchanged"), ("evicting", "InvCacheOnlyGains"),
                     ("wrongcache", "InvCacheEntriesCorrect")):
        r = chk.design("HistoryDesign", "HistoryDesign_%s.cfg" % cfg, allow_error=True, workers=4,
                       label="expected to violate " + inv)
        if r.ok or ("Invariant %s is violated" % inv) not in (r.error or ""):
            raise MachineryError("design job HistoryDesign/%s: the faulty variant does not violate %s (%s)" % (
                cfg, inv, (r.error or "no error")[:200]))
        chk.jobs[-1].update(expected_violation=inv, error="Invariant %s is violated (as it must be)" % inv)
        chk.count("faulty design variants rejected as expected")
    chk.design("HistoryDesign", "HistoryDesign_hidden_mech.cfg", workers=4,
               label="a hidden global escapes every mechanism clause (only the result clauses see it)")


def run(chk):
    rng = random.Random(chk.seed)
    with ThreadPoolExecutor(max_workers=1) as side:
        dj = side.submit(design_jobs, chk)           # TLC explores the design while the children run rig
        builders = [make_history(rng, i, chk) for i in range(chk.pick(150, 2000))]
        builders += make_audit_histories(chk, len(builders))
        jobs = [b.job() for b in builders]
        traces = run_jobs(jobs)
        dj.result()
    ncalls = nprobe = 0
    for b, t in zip(builders, traces):
        calls = [e for e in t["ev"] if e[0] in ("call", "probe")]
        ncalls += len(calls)
        nprobe += sum(1 for e in calls if e[0] == "probe")
        chk.note_case([(e[1]["fn"], [a[1] for a in e[1]["args"]], e[1]["seed"]) for e in calls],
                      nontrivial=len(calls) >= 3)
        chk.count("histories of theme " + b.theme)
        for k in getattr(b, "edit_kinds", ()):
            chk.count("caller's edits in place between two calls: " + k)
        for k in getattr(b, "kinds", ()):
            chk.count("constraint lists, " + k)
        if t["not_probed"]:
            chk.count("probes abandoned: arguments cannot be rebuilt in another interpreter", t["not_probed"])
        for e in calls:
            chk.count("calls of " + e[1]["fn"])
            if e[1]["res"].startswith("!"):
                chk.count("calls that raised " + e[1]["res"][1:])
        seen = {}
        for e in calls:
            k = (e[1]["fn"], tuple(a[1] for a in e[1]["args"]), e[1]["seed"])
            if k in seen:
                chk.count("calls repeated within a history (same function, arguments, seed)")
            seen[k] = 1
        if any(len(e[1]["cafter"]) > len(e[1]["cbefore"]) for e in calls):
            chk.count("histories in which the ring memo gained an entry")
    chk.count("calls", ncalls)
    chk.count("probes (each repeated first in a fresh interpreter)", nprobe)
    chk.extra["mutable_default_arguments_tracked"] = [d[0] for d in traces[0]["ev"][0][1]["defs"]]
    chk.extra["functions_called"] = sorted(set(e[1]["fn"] for t in traces for e in t["ev"] if e[0] != "end"))
    chk.rule = ("histories of 3-8 library calls, each history in a freshly started interpreter (PYTHONHASHSEED=0, "
                "sockets and clock replaced): placers (sequential with and without orders, breadth-first, Hilbert x2, "
                "RCM, random, annealing with the Python and C kernels and with every default), allocate, route at "
                "radius 0/1/2/5/20 and with every optional argument defaulted, routing_tree_to_tables, "
                "minimise_tables / minimise_table / ordered_covering.minimise / remove_default_routes.minimise, "
                "ordered_covering with default, caller-owned and returned alias dictionaries, place_and_route_wrapper, "
                "memoized_concentric_hexagons, Machine() and Machine.copy(), sessions on BitField, ContextMixin, "
                "Context, MachineController and BMPController objects made one after another, boot(); 1-3 problems "
                "per history (C02-style constraint problems, C03-style faulty machines with nets, C04-style tables) "
                "whose objects are re-used by all calls of the history, results of earlier calls fed to later ones, "
                "results scribbled over by the caller in between; the last call and a quarter of the others are "
                "probes repeated as the first call of another fresh interpreter; non-trivial = at least 3 calls; "
                "distinct = distinct (function, argument digests, seed) sequences; plus (own random stream) 21 'edited' "
                "histories in which the caller changes one of its own argument objects in place between two calls of "
                "the same function and mostly changes it back before a third (machine: wrap-around links, a link, a "
                "chip, a resource quantity, a resource exception; netlist: sinks, a weight, a further net; a vertex's "
                "resources; a constraint or a table entry taken off the list; a vertex moved in the placement), 6 "
                "'shapes' histories (methods as a caller-owned list, target_lengths as a dictionary over all chips, "
                "ordered covering of a table the caller extended after an earlier run, with that run's aliases) and 4 "
                "'wrappers' histories (the deprecated wrapper() and place_and_route_wrapper() with defaulted and with "
                "caller-owned constraints and keyword dictionaries) and 12 'constraints' histories (one graph, machine, "
                "placement and allocation; caller-owned constraint lists that differ in one constraint - a list drawn "
                "from alignments of SDRAM / Cores / SRAM, global and per-chip reservations, locations, same-chip groups "
                "and route endpoints, then the empty list, the list with one constraint given another parameter, the "
                "list without one constraint, the first list again - passed in turn to allocate / a placer / route; "
                "several vertices per chip with sizes that are no multiples of the alignments; or a wrapper first and "
                "then bare allocate / place / route with the empty list)")
    chk.assumptions += [
        "digests are the first 48 bits of SHA-1 of a canonical encoding: dictionary order counts for arguments "
        "(placers depend on it) but not for results; set order and the order of a routing tree's children never count; "
        "the entry order of a routing table counts",
        "random generators passed to a call are not 'arguments left unchanged': they are seeded anew for every call "
        "and the seed is part of what 'the same call' means; for calls that take no generator the module-level "
        "generator is seeded with that seed (tie-breaks of the router, default placer); for calls that are given a "
        "generator the module-level one is deliberately left in a history-dependent state",
        "all interpreters run with PYTHONHASHSEED=0 and vertices are strings",
        "the fresh interpreter rebuilds the probe's arguments from their canonical encoding (constructors of Machine, "
        "Net, constraints, RoutingTree, RoutingTableEntry run before the probe in both interpreters)",
        "the ring of a radius is computed by rig.geometry.concentric_hexagons in the same process (relational clause)",
    ]
    chk.exhaustive = False
    for t in (traces[0], traces[len(traces) // 2], traces[-1]):
        chk.sample(dict(label=t["label"], calls=t["calls"],
                        events=[[e[0], dict(fn=e[1]["fn"], seed=e[1]["seed"], args=e[1]["args"], res=e[1]["res"],
                                            fresh=e[1].get("fresh"))] if e[0] != "end" else e for e in t["ev"]]))
    chk.validate("HistoryTrace", "HistoryTrace.cfg", traces, key_of=key_of, batch=1500)
    chk.violations.sort(key=lambda v: len(v.get("replay", {}).get("trace", {}).get("ev", [])))


# ---------------------------------------------------------------------------------- binding demonstration
def selftest_encoding():
    """the canonical encoding: round trip, insensitivity to what must not count, sensitivity to everything else"""
    msgs = []
    n1, n2 = Net("a", ["b", "c"], 2.5), Net("b", ["a"])
    m = Machine(3, 2, {Cores: 4, SDRAM: 9}, {(1, 1): {Cores: 1, SDRAM: 0}}, {(0, 1)}, {(0, 0, Links.east), (2, 1, Links.south)})
    tree = RoutingTree((0, 0), [(Routes.east, RoutingTree((1, 0), [(Routes.core(3), "b"), (None, "c")])), (Routes.core(1), "a")])
    cons = [cons_mod.LocationConstraint("a", (1, 0)), cons_mod.SameChipConstraint(["a", "b"]),
            cons_mod.ReserveResourceConstraint(Cores, slice(0, 1), (1, 1)), cons_mod.AlignResourceConstraint(SDRAM, 4),
            cons_mod.RouteEndpointConstraint("c", Routes.north)]
    table = [RoutingTableEntry({Routes.east, Routes.core(2)}, 0x10, 0xfffffff0, {None, Routes.west})]
    value = dict(nets=[n1, n2], keys={n1: (1, 2), n2: (3, 4)}, routes={n2: tree}, machine=m, cons=cons, table=table,
                 alloc={"a": {Cores: slice(0, 2)}}, misc=(1, 2.5, "x", None, True, b"\x00\xff", frozenset([1, 2])),
                 fn=oc_mod.minimise, si=system_info_of(m, random.Random(1)))
    memo = {}
    e = enc(value, memo)
    back = dec(json.loads(json.dumps(e)), {})
    if enc(back) != e:
        msgs.append("round trip changes the encoding")
    if back["nets"][0] is not list(back["keys"])[0] or back["nets"][1] is not list(back["routes"])[0]:
        msgs.append("Net identity lost in the round trip")
    d0 = digest_result(value)
    # what must not count
    reordered = dict(reversed(list(value.items())))
    if digest_result(reordered) != d0:
        msgs.append("result digest depends on dictionary order")
    if digest_arg(reordered) == digest_arg(value):
        msgs.append("argument digest ignores dictionary order")
    t2 = RoutingTree((0, 0), list(reversed(tree.children)))
    if digest_arg(t2) != digest_arg(tree):
        msgs.append("digest depends on the order of a routing tree's children")
    if digest_arg({(2, 1, Links.south), (0, 0, Links.east)}) != digest_arg({(0, 0, Links.east), (2, 1, Links.south)}):
        msgs.append("digest depends on set order")
    if digest_arg(copy_value(value)) != digest_arg(value):
        msgs.append("copy_value changes the digest")
    # what must count: every field of every object
    a0 = digest_arg(value)

    def changed(f):
        v = dec(enc(value))              # a copy that shares nothing, not even the nets
        f(v)
        return digest_result(v) != d0 and digest_arg(v) != a0 and digest_arg(value) == a0
    muts = [
        lambda v: v["nets"][0].sinks.append("d"), lambda v: setattr(v["nets"][0], "weight", 1.0),
        lambda v: setattr(v["nets"][1], "source", "c"), lambda v: v["machine"].dead_chips.add((2, 1)),
        lambda v: v["machine"].dead_links.pop(), lambda v: v["machine"].chip_resources.__setitem__(Cores, 5),
        lambda v: v["machine"].chip_resource_exceptions[(1, 1)].__setitem__(SDRAM, 1),
        lambda v: setattr(v["machine"], "width", 4), lambda v: setattr(v["cons"][0], "location", (0, 0)),
        lambda v: v["cons"][1].vertices.append("c"), lambda v: setattr(v["cons"][2], "reservation", slice(0, 2)),
        lambda v: setattr(v["cons"][3], "alignment", 8), lambda v: setattr(v["cons"][4], "route", Routes.south),
        lambda v: v["cons"].reverse(), lambda v: v["table"].append(v["table"][0]),
        lambda v: v["table"].__setitem__(0, v["table"][0]._replace(route=frozenset({Routes.east}))),
        lambda v: v["table"].__setitem__(0, v["table"][0]._replace(sources=frozenset({Routes.west}))),
        lambda v: v["table"].__setitem__(0, v["table"][0]._replace(key=0x20)),
        lambda v: v["table"].__setitem__(0, v["table"][0]._replace(mask=0xffffff00)),
        lambda v: v["alloc"]["a"].__setitem__(Cores, slice(0, 3)), lambda v: v["keys"].__setitem__(v["nets"][0], (1, 3)),
        lambda v: list(v["routes"].values())[0].children[0][1].children.pop(),
        lambda v: list(v["routes"].values())[0].children.append((Routes.west, "z")),
        lambda v: v["nets"].reverse(), lambda v: v.__setitem__("fn", rdr_mod.minimise),
        lambda v: setattr(v["nets"][0], "extra", 1), lambda v: v["si"][(0, 0)].core_states.append(AppState.idle),
    ]
    for k, f in enumerate(muts):
        if not changed(f):
            msgs.append("digest blind to mutation %d" % k)
    junk = copy_value(value)
    scribble(junk)
    if digest_arg(junk) == digest_arg(value):
        msgs.append("scribble leaves the value as it was")
    return msgs


def selftest(chk):
    import copy
    msgs = selftest_encoding()
    # a real history: the ring memo gains radius 1 then 2; the same call twice; two probes
    rng = random.Random(5)
    b = Builder(rng, "selftest")
    m = Machine(3, 3, dead_links={(0, 0, Links.east)})
    nets = [Net("s", ["a", "b"])]
    b.give("p.vr", {"s": {Cores: 1}, "a": {Cores: 2}, "b": {Cores: 1}})
    b.give("p.nets", nets)
    b.give("p.machine", m)
    b.give("p.cons", [])
    b.give("p.placements", {"s": (0, 0), "a": (2, 0), "b": (1, 1)})
    b.give("p.allocations", {"s": {Cores: slice(0, 1)}, "a": {Cores: slice(1, 3)}, "b": {Cores: slice(0, 1)}})
    a = pr_args("p")
    rt = lambda radius, **k: make_step("route", a + [("placements", slot("p.placements")),
                                                     ("allocations", slot("p.allocations")),
                                                     ("core_resource", b.lit(Cores)), ("radius", b.lit(radius))], seed=3, **k)
    b.steps = [rt(1), make_step("place.sequential", a, seed=3, probe=True), rt(2), rt(1),
               make_step("Machine", [("width", b.lit(2)), ("height", b.lit(2))], seed=3, scribble=True),
               make_step("Machine", [("width", b.lit(2)), ("height", b.lit(2))], seed=3, probe=True)]
    good = run_jobs([b.job()])[0]

    def mut(f):
        t = copy.deepcopy(good)
        f(t["ev"])
        return t

    def rec(ev, k):
        return ev[k][1]
    cases = [
        (good, None),
        (mut(lambda ev: rec(ev, 0)["args"][2].__setitem__(2, "0" * 12)), "ArgsUnchanged"),
        (mut(lambda ev: rec(ev, 2)["defs"][0].__setitem__(2, "0" * 12)), "DefaultsUnchanged"),
        (mut(lambda ev: [rec(ev, 2)["defs"][1].__setitem__(1, "0" * 12), rec(ev, 2)["defs"][1].__setitem__(2, "0" * 12)]),
         "DefaultsAsAtStart"),
        (mut(lambda ev: rec(ev, 3)["cbefore"].pop(0)), "CacheOnlyGains"),
        (mut(lambda ev: rec(ev, 2)["cafter"].pop(0)), "CacheOnlyGains"),
        (mut(lambda ev: rec(ev, 2)["cafter"][1].__setitem__(1, "0" * 12)), "CacheEntriesCorrect"),
        (mut(lambda ev: rec(ev, 3).__setitem__("res", "0" * 12)), "Functional"),
        (mut(lambda ev: rec(ev, 5).__setitem__("fresh", "0" * 12)), "FreshAgrees"),
        (mut(lambda ev: rec(ev, 1)["freshdefs"][0].__setitem__(1, "0" * 12)), "DefaultsAsFresh"),
        (mut(lambda ev: ev.__delitem__(4)), "AllCallsJudged"),                              # an event dropped
        (mut(lambda ev: ev.__setitem__(slice(1, 3), [ev[2], ev[1]])), "CacheOnlyGains"),   # two events swapped
        (mut(lambda ev: [e.__setitem__(0, "call") for e in ev if e[0] == "probe"]), "ProbeJudged"),
        (mut(lambda ev: ev.insert(2, ["end", 2])), "AllCallsJudged"),
        (mut(lambda ev: ev[0].__setitem__(0, "noise")), "UnknownEvent"),
    ]
    rej = chk.validate("HistoryTrace", "HistoryTrace.cfg", [c[0] for c in cases])
    got = {id(t): cl for t, _, cl in rej}
    for tr, want in cases:
        cl = got.get(id(tr))
        if (want is None) != (cl is None) or (want and want not in cl):
            msgs.append("expected %s, got %s" % (want, cl))
    return not msgs, "; ".join(msgs) or ("%d corrupted histories rejected with the expected clauses; canonical "
                                         "encoding round-trips and sees every field" % (len(cases) - 1))
